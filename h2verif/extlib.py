"""Summaries of hyperframe / hpack, derived from their *source* (parsed, never
imported) with a frozen fallback (DESIGN.md section 2.6)."""
import ast
import importlib.util
import os

MISSING = object()

_cache = {}


def _pkg_dir(name):
    key = ('dir', name)
    if key in _cache:
        return _cache[key]
    d = None
    try:
        spec = importlib.util.find_spec(name)   # does not execute the package
        if spec and spec.submodule_search_locations:
            d = list(spec.submodule_search_locations)[0]
    except Exception:
        d = None
    if d is None:
        for cand in ('/venv/lib/python3.12/site-packages',):
            p = os.path.join(cand, name)
            if os.path.isdir(p):
                d = p
    _cache[key] = d
    return d


def _parse(pkg, mod):
    key = ('ast', pkg, mod)
    if key in _cache:
        return _cache[key]
    d = _pkg_dir(pkg)
    tree = None
    if d:
        p = os.path.join(d, mod + '.py')
        if os.path.exists(p):
            with open(p, encoding='utf-8') as fh:
                tree = ast.parse(fh.read())
    _cache[key] = tree
    return tree


# ---------------------------------------------------------------------------
# Frozen copy (hyperframe 6.1.0 / hpack 4.2.0), used when source is missing
# and cross-checked against the source when it is present.
FROZEN_FRAMES = {
    # name: (type byte, flags, stream association, init fields, fixed body
    #        size or None)
    'DataFrame': (0x0, ['END_STREAM', 'PADDED'], 'has-stream',
                  ['stream_id', 'data', 'pad_length', 'flags'], None),
    'HeadersFrame': (0x1, ['END_STREAM', 'END_HEADERS', 'PADDED', 'PRIORITY'],
                     'has-stream',
                     ['stream_id', 'data', 'pad_length', 'depends_on',
                      'stream_weight', 'exclusive', 'flags'], None),
    'PriorityFrame': (0x2, [], 'has-stream',
                      ['stream_id', 'depends_on', 'stream_weight',
                       'exclusive', 'flags'], 5),
    'RstStreamFrame': (0x3, [], 'has-stream',
                       ['stream_id', 'error_code', 'flags'], 4),
    'SettingsFrame': (0x4, ['ACK'], 'no-stream',
                      ['stream_id', 'settings', 'flags'], None),
    'PushPromiseFrame': (0x5, ['END_HEADERS', 'PADDED'], 'has-stream',
                         ['stream_id', 'promised_stream_id', 'data',
                          'pad_length', 'flags'], None),
    'PingFrame': (0x6, ['ACK'], 'no-stream',
                  ['stream_id', 'opaque_data', 'flags'], 8),
    'GoAwayFrame': (0x7, [], 'no-stream',
                    ['stream_id', 'last_stream_id', 'error_code',
                     'additional_data', 'flags'], None),
    'WindowUpdateFrame': (0x8, [], 'either',
                          ['stream_id', 'window_increment', 'flags'], 4),
    'ContinuationFrame': (0x9, ['END_HEADERS'], 'has-stream',
                          ['stream_id', 'data', 'flags'], None),
    'AltSvcFrame': (0xA, [], 'either',
                    ['stream_id', 'origin', 'field', 'flags'], None),
    'ExtensionFrame': (None, [], 'either',
                       ['type', 'stream_id', 'flag_byte', 'body', 'flags'],
                       None),
}
FROZEN_SETTINGS = {
    'HEADER_TABLE_SIZE': 0x01, 'ENABLE_PUSH': 0x02,
    'MAX_CONCURRENT_STREAMS': 0x03, 'INITIAL_WINDOW_SIZE': 0x04,
    'MAX_FRAME_SIZE': 0x05, 'MAX_HEADER_LIST_SIZE': 0x06,
    'ENABLE_CONNECT_PROTOCOL': 0x08,
}
FROZEN_EXC = {
    'HyperframeError': ['Exception'],
    'UnknownFrameError': ['HyperframeError'],
    'InvalidPaddingError': ['HyperframeError'],
    'InvalidFrameError': ['HyperframeError'],
    'InvalidDataError': ['HyperframeError'],
    'HPACKError': ['Exception'],
    'HPACKDecodingError': ['HPACKError'],
    'InvalidTableIndexError': ['HPACKDecodingError'],
    'InvalidTableIndex': ['InvalidTableIndexError'],
    'OversizedHeaderListError': ['HPACKDecodingError'],
    'InvalidTableSizeError': ['HPACKDecodingError'],
}
# Per-flag / per-mixin overhead of serialize_body in bytes (hyperframe 6.1.0)
FRAME_OVERHEAD = {
    'HeadersFrame': {'PADDED': 1, 'PRIORITY': 5},
    'PushPromiseFrame': {'PADDED': 1, '_fixed': 4},
    'DataFrame': {'PADDED': 1},
}

notes = []


def _class_defs(tree):
    return {n.name: n for n in tree.body if isinstance(n, ast.ClassDef)}


def frames():
    """name -> dict(type, flags, assoc, fields, bases).  From source when
    available."""
    if 'frames' in _cache:
        return _cache['frames']
    out = {}
    tree = _parse('hyperframe', 'frame')
    if tree is not None:
        consts = {}
        for st in tree.body:
            if isinstance(st, ast.Assign) and len(st.targets) == 1 and \
                    isinstance(st.targets[0], ast.Name) and \
                    isinstance(st.value, ast.Constant):
                consts[st.targets[0].id] = st.value.value
        cds = _class_defs(tree)

        def mro(name, seen=None):
            seen = seen or []
            c = cds.get(name)
            if c is None:
                return seen
            seen.append(name)
            for b in c.bases:
                if isinstance(b, ast.Name) and b.id not in seen:
                    mro(b.id, seen)
            return seen

        for name, c in cds.items():
            chain = mro(name)
            if 'Frame' not in chain or name == 'Frame':
                continue
            info = {'type': None, 'flags': [], 'assoc': None, 'fields': [],
                    'bases': chain[1:]}
            for cn in reversed(chain):
                cd = cds[cn]
                for st in cd.body:
                    tgt = None
                    val = None
                    if isinstance(st, ast.Assign) and \
                            isinstance(st.targets[0], ast.Name):
                        tgt, val = st.targets[0].id, st.value
                    elif isinstance(st, ast.AnnAssign) and \
                            isinstance(st.target, ast.Name) and st.value:
                        tgt, val = st.target.id, st.value
                    if tgt == 'type' and isinstance(val, ast.Constant):
                        info['type'] = val.value
                    elif tgt == 'defined_flags' and isinstance(val, ast.List):
                        fl = []
                        for el in val.elts:
                            if isinstance(el, ast.Call) and el.args and \
                                    isinstance(el.args[0], ast.Constant):
                                fl.append(el.args[0].value)
                        info['flags'] = fl
                    elif tgt == 'stream_association':
                        if isinstance(val, ast.Name):
                            info['assoc'] = consts.get(val.id)
                        elif isinstance(val, ast.Constant):
                            info['assoc'] = val.value
            fields = []
            for cn in chain:
                cd = cds[cn]
                for st in cd.body:
                    if isinstance(st, ast.FunctionDef) and \
                            st.name == '__init__':
                        for a in st.args.args[1:]:
                            if a.arg not in fields:
                                fields.append(a.arg)
            info['fields'] = fields
            out[name] = info
        # cross-check with the frozen copy
        for name, fz in FROZEN_FRAMES.items():
            got = out.get(name)
            if got is None:
                notes.append('hyperframe source lacks %s' % name)
                continue
            if sorted(got['flags']) != sorted(fz[1]) or \
                    got['assoc'] != fz[2] or got['type'] != fz[0]:
                notes.append('hyperframe %s differs from frozen summary: %r'
                             % (name, got))
    else:
        notes.append('hyperframe source not found; frozen summary used')
        for name, fz in FROZEN_FRAMES.items():
            out[name] = {'type': fz[0], 'flags': list(fz[1]), 'assoc': fz[2],
                         'fields': list(fz[3]), 'bases': []}
    _cache['frames'] = out
    return out


def frame_registry():
    """Frame classes in hyperframe's FRAMES registry (+ ExtensionFrame)."""
    fr = frames()
    return sorted(n for n, i in fr.items()
                  if i['type'] is not None) + ['ExtensionFrame']


def fixed_body_size(name):
    return FROZEN_FRAMES.get(name, (None,) * 5)[4]


def settings_constants():
    if 'settings' in _cache:
        return _cache['settings']
    out = dict(FROZEN_SETTINGS)
    tree = _parse('hyperframe', 'frame')
    if tree is not None:
        cd = _class_defs(tree).get('SettingsFrame')
        got = {}
        if cd is not None:
            for st in cd.body:
                if isinstance(st, ast.Assign) and \
                        isinstance(st.targets[0], ast.Name) and \
                        isinstance(st.value, ast.Constant) and \
                        isinstance(st.value.value, int) and \
                        st.targets[0].id.isupper():
                    got[st.targets[0].id] = st.value.value
        if got:
            for k, v in FROZEN_SETTINGS.items():
                if got.get(k) != v:
                    notes.append('SettingsFrame.%s is %r in the installed '
                                 'hyperframe, %r in the frozen summary'
                                 % (k, got.get(k), v))
            out = got
    _cache['settings'] = out
    return out


def external_constant(mod, name, attr):
    if mod.startswith('hyperframe') and name == 'SettingsFrame':
        return settings_constants().get(attr, MISSING)
    return MISSING


def external_exception_bases():
    out = dict(FROZEN_EXC)
    for pkg in ('hyperframe', 'hpack'):
        tree = _parse(pkg, 'exceptions')
        if tree is None:
            continue
        for name, cd in _class_defs(tree).items():
            out[name] = [b.id if isinstance(b, ast.Name) else
                         getattr(b, 'attr', '?') for b in cd.bases]
    return out


def _raises_in(fn):
    out = set()
    for n in ast.walk(fn):
        if isinstance(n, ast.Raise) and n.exc is not None:
            e = n.exc
            if isinstance(e, ast.Call):
                e = e.func
            if isinstance(e, ast.Name):
                out.add(e.id)
            elif isinstance(e, ast.Attribute):
                out.add(e.attr)
    return out


def frame_method_raises(cls, meth):
    """Exception class names raised (syntactically, incl. mixin helpers and
    base classes) by hyperframe <cls>.<meth>."""
    key = ('fmr', cls, meth)
    if key in _cache:
        return _cache[key]
    tree = _parse('hyperframe', 'frame')
    out = None
    if tree is not None:
        cds = _class_defs(tree)
        fr = frames()
        chain = [cls] + fr.get(cls, {}).get('bases', [])
        found = False
        out = set()
        todo = [meth]
        done = set()
        while todo:
            mname = todo.pop()
            if mname in done:
                continue
            done.add(mname)
            for cn in chain:
                cd = cds.get(cn)
                if cd is None:
                    continue
                for st in cd.body:
                    if isinstance(st, ast.FunctionDef) and st.name == mname:
                        found = found or mname == meth
                        out |= _raises_in(st)
                        for n in ast.walk(st):
                            if isinstance(n, ast.Call) and \
                                    isinstance(n.func, ast.Attribute) and \
                                    isinstance(n.func.value, ast.Name) and \
                                    n.func.value.id == 'self':
                                todo.append(n.func.attr)
                            if isinstance(n, ast.Call) and \
                                    isinstance(n.func, ast.Attribute) and \
                                    isinstance(n.func.value, ast.Call) and \
                                    isinstance(n.func.value.func, ast.Name) \
                                    and n.func.value.func.id == 'super':
                                todo.append(n.func.attr)
                        if mname != '__init__':
                            break
        out.discard('NotImplementedError')
        if not found:
            out = None
    if out is None:
        out = set(FROZEN_METHOD_RAISES.get(meth, ()))
    _cache[key] = out
    return out


FROZEN_METHOD_RAISES = {
    '__init__': {'InvalidDataError'},
    'parse_body': {'InvalidFrameError', 'InvalidDataError',
                   'InvalidPaddingError'},
    'parse_frame_header': {'InvalidFrameError', 'InvalidDataError'},
    'serialize': set(),
    'serialize_body': set(),
}

# What hpack can raise, by its source (Decoder.decode wraps everything in
# HPACKDecodingError except errors of the kinds h2 itself lists).
HPACK_DECODE_RAISES = {'HPACKError', 'HPACKDecodingError',
                       'OversizedHeaderListError', 'InvalidTableIndex',
                       'InvalidTableSizeError', 'IndexError', 'TypeError',
                       'UnicodeDecodeError'}


def hpack_decode_raises():
    """Cross-check the frozen set with the raise statements of the installed
    hpack Decoder."""
    tree = _parse('hpack', 'hpack')
    if tree is None:
        notes.append('hpack source not found; frozen summary used')
        return set(HPACK_DECODE_RAISES)
    cd = _class_defs(tree).get('Decoder')
    got = set()
    if cd is not None:
        got = _raises_in(cd)
    extra = got - HPACK_DECODE_RAISES
    if extra:
        notes.append('hpack Decoder raises classes outside the frozen '
                     'summary: %s' % sorted(extra))
    return set(HPACK_DECODE_RAISES) | got


def frame_ctor_raises(cls, stream_id_const, has_extra_kwargs=False):
    """Which exceptions can hyperframe's <cls>(stream_id, ...) raise, given
    what is known about the stream id argument?  stream_id_const is an int
    when the argument is a constant, else None.  The only checks in the
    constructors are the stream association (InvalidDataError), the
    SettingsFrame settings+ACK conflict and the AltSvcFrame bytes checks
    (arguments are assumed well-typed)."""
    fr = frames().get(cls)
    if fr is None:
        return {'InvalidDataError'}
    assoc = fr['assoc']
    if cls == 'SettingsFrame' and has_extra_kwargs:
        return {'InvalidDataError'}
    if assoc == 'either' or assoc is None:
        return set()
    if stream_id_const is None:
        return {'InvalidDataError'}
    if assoc == 'no-stream':
        return set() if stream_id_const == 0 else {'InvalidDataError'}
    if assoc == 'has-stream':
        return set() if stream_id_const != 0 else {'InvalidDataError'}
    return {'InvalidDataError'}


def check_flow_controlled_length():
    """Does the installed hyperframe compute DataFrame.flow_controlled_length
    as len(data) + (pad_length + 1 if 'PADDED' in flags else 0)?  The path
    interpreter relies on this summary."""
    tree = _parse('hyperframe', 'frame')
    if tree is None:
        notes.append('hyperframe source not found: flow_controlled_length '
                     'summary taken from the frozen copy')
        return None
    cd = _class_defs(tree).get('DataFrame')
    fn = None
    for st in (cd.body if cd else []):
        if isinstance(st, ast.FunctionDef) and \
                st.name == 'flow_controlled_length':
            fn = st
    if fn is None:
        notes.append('hyperframe DataFrame.flow_controlled_length not found')
        return False
    body = [s for s in fn.body if not (
        isinstance(s, ast.Expr) and isinstance(s.value, ast.Constant))]
    got = ';'.join(ast.unparse(s).replace('"', "'") for s in body)
    exp = ("padding_len = 0;if 'PADDED' in self.flags:\n    padding_len = "
           "self.pad_length + 1;return len(self.data) + padding_len")
    if got != exp:
        notes.append('hyperframe flow_controlled_length differs from the '
                     'summary used: %s' % got)
        return False
    return True
