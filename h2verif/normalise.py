"""AST normalisation: helpers that the pinned tree does not know are inlined.

The rules of this checker are anchored in the functions of the pinned tree
(spec/known_functions.txt).  A maintainer who extracts a few statements into
a new private helper has not changed behaviour, so before anything is analysed
every call of an *introduced* function (one whose qualified name is not in
that list) is replaced by the helper's body, where that can be done exactly:

  return helper(a, b)        the body, its returns kept
  helper(a, b)               the body with its returns eliminated
  x = ... helper(a, b) ...   the body with `return v` turned into `tmp = v`,
                             then the statement with the call replaced by tmp
  ... helper(a) ...          (helper is a single `return <expr>`) the
                             expression, parameters substituted

Returns are eliminated structurally (if/else continuation pushing; try/with
only in tail position; never out of loops); when that is not possible the
call is left alone and the path interpreter inlines it semantically instead
(paths.Interp, `transparent`).  Inlined statements keep the helper's file and
line, so reports point at the code that is really there.  A helper all of
whose uses were inlined is dropped from the model.
"""
import ast
import textwrap
import copy
import os

from .core import VERIF_DIR

MAX_ROUNDS = 4
MAX_BODY = 80          # statements, after elimination


def known_functions():
    p = os.path.join(VERIF_DIR, 'h2verif', 'spec', 'known_functions.txt')
    with open(p) as fh:
        return {ln.strip() for ln in fh if ln.strip() and
                not ln.startswith('#')}


class Fail(Exception):
    pass


def _own_walk(node):
    """ast.walk that does not enter nested defs, classes or lambdas."""
    stack = [node]
    while stack:
        n = stack.pop()
        yield n
        for c in ast.iter_child_nodes(n):
            if isinstance(c, (ast.FunctionDef, ast.AsyncFunctionDef,
                              ast.ClassDef, ast.Lambda)):
                continue
            stack.append(c)


def _has_return(node):
    return any(isinstance(n, ast.Return) for n in _own_walk(node))


def _falls_through(stmts):
    """May control reach the end of this block?  (conservative: True)"""
    if not stmts:
        return True
    s = stmts[-1]
    if isinstance(s, (ast.Return, ast.Raise, ast.Continue, ast.Break)):
        return False
    if isinstance(s, ast.If):
        return _falls_through(s.body) or _falls_through(s.orelse)
    if isinstance(s, ast.Try):
        if s.finalbody and not _falls_through(s.finalbody):
            return False
        b = _falls_through(s.body + s.orelse) if s.orelse else \
            _falls_through(s.body)
        return b or any(_falls_through(h.body) for h in s.handlers)
    if isinstance(s, ast.With):
        return _falls_through(s.body)
    return True


class Helper:
    def __init__(self, qual, node, module, cls):
        self.qual = qual
        self.node = node
        self.module = module
        self.cls = cls            # class name or None
        self.name = node.name
        decs = [_dec(d) for d in node.decorator_list]
        self.static = 'staticmethod' in decs
        self.classm = 'classmethod' in decs
        self.ok = not any(d not in ('staticmethod', 'classmethod')
                          for d in decs)
        a = node.args
        if a.vararg or a.kwarg or a.posonlyargs:
            self.ok = False
        if isinstance(node, ast.AsyncFunctionDef):
            self.ok = False
        for n in _own_walk(node):
            if isinstance(n, (ast.Yield, ast.YieldFrom, ast.Global,
                              ast.Nonlocal, ast.Await)):
                self.ok = False
        for n in ast.walk(node):
            if n is not node and isinstance(
                    n, (ast.FunctionDef, ast.AsyncFunctionDef,
                        ast.ClassDef)):
                self.ok = False
        self.params = [x.arg for x in a.args]
        self.kwonly = [x.arg for x in a.kwonlyargs]
        self.defaults = {}
        for p, d in zip(a.args[len(a.args) - len(a.defaults):], a.defaults):
            self.defaults[p.arg] = d
        for p, d in zip(a.kwonlyargs, a.kw_defaults):
            if d is not None:
                self.defaults[p.arg] = d
        self.body = [s for i, s in enumerate(node.body)
                     if not (i == 0 and isinstance(s, ast.Expr) and
                             isinstance(s.value, ast.Constant) and
                             isinstance(s.value.value, str))]
        self.assigned = set()
        for n in _own_walk(node):
            if isinstance(n, ast.Name) and isinstance(n.ctx, (ast.Store,
                                                               ast.Del)):
                self.assigned.add(n.id)
            elif isinstance(n, ast.ExceptHandler) and n.name:
                self.assigned.add(n.name)
        self.single_expr = (len(self.body) == 1 and
                            isinstance(self.body[0], ast.Return) and
                            self.body[0].value is not None)
        # closed: refers to nothing but its parameters, its locals and
        # builtins - it means the same in any module
        import builtins as _b
        bound = set(self.params) | set(self.kwonly) | self.assigned
        self.free = {n.id for n in _own_walk(node)
                     if isinstance(n, ast.Name) and n.id not in bound and
                     not hasattr(_b, n.id)}
        self.closed = not self.free


def _dec(d):
    if isinstance(d, ast.Name):
        return d.id
    if isinstance(d, ast.Attribute):
        return d.attr
    if isinstance(d, ast.Call):
        return _dec(d.func)
    return '?'


def _simple(e):
    if isinstance(e, (ast.Name, ast.Constant)):
        return True
    if isinstance(e, ast.Attribute):
        return _simple(e.value)
    return False


class _Subst(ast.NodeTransformer):
    def __init__(self, mapping, rename):
        self.mapping = mapping     # name -> expr to substitute on load
        self.rename = rename       # name -> new name

    def visit_Name(self, n):
        if n.id in self.rename:
            return ast.copy_location(
                ast.Name(id=self.rename[n.id], ctx=n.ctx), n)
        if n.id in self.mapping and isinstance(n.ctx, ast.Load):
            e = copy.deepcopy(self.mapping[n.id])
            return e
        return n

    def visit_ExceptHandler(self, n):
        self.generic_visit(n)
        if n.name in self.rename:
            n.name = self.rename[n.name]
        return n


class _Prune(ast.NodeTransformer):
    """Branches decided by a constant argument bound at inlining (a helper
    shared by two callers and told apart by a mode flag): `if False:`,
    `a if True else b`, `False and x`, `not True`.  Only leading constants
    of and/or chains are folded (the others are evaluated after an operand
    that may have effects, and decide the value only in boolean context)."""

    @staticmethod
    def _const(e):
        if isinstance(e, ast.Constant) and (e.value is None or isinstance(
                e.value, (bool, int, str, bytes))):
            return True, bool(e.value)
        return False, None

    def visit_UnaryOp(self, n):
        self.generic_visit(n)
        if isinstance(n.op, ast.Not):
            k, v = self._const(n.operand)
            if k:
                return ast.copy_location(ast.Constant(value=not v), n)
        return n

    def visit_BoolOp(self, n):
        self.generic_visit(n)
        out = list(n.values)
        while out:
            k, b = self._const(out[0])
            if not k:
                break
            if b != isinstance(n.op, ast.And) or len(out) == 1:
                return out[0]       # decides the chain / is all that is left
            out.pop(0)
        if len(out) == 1:
            return out[0]
        n.values = out
        return n

    def visit_IfExp(self, n):
        self.generic_visit(n)
        k, b = self._const(n.test)
        if k:
            return n.body if b else n.orelse
        return n

    def visit_If(self, n):
        self.generic_visit(n)
        k, b = self._const(n.test)
        if k:
            return (n.body if b else n.orelse) or None
        return n

    def visit_FunctionDef(self, n):
        return n        # nested definitions are left alone

    visit_AsyncFunctionDef = visit_Lambda = visit_FunctionDef


def _prune(stmts, at):
    """stmts with constant-decided branches removed (never empty)."""
    m = ast.Module(body=list(stmts), type_ignores=[])
    m = _Prune().visit(m)
    for n in ast.walk(m):
        for fld in ('body',):
            b = getattr(n, fld, None)
            if isinstance(b, list) and not b and not isinstance(
                    n, ast.Module):
                b.append(_pass(at))
        if isinstance(n, ast.Try):
            for hd in n.handlers:
                if not hd.body:
                    hd.body.append(_pass(at))
    return m.body or [_pass(at)]


# ----------------------------------------------------------------------
# `TABLE[<truth value>]` for a module-level dict literal whose keys are
# exactly True and False ("pick by role") is the conditional expression it
# stands for.

def _truth_test(e, fn=None):
    """The expression whose truth selects the entry, when `e` is certainly
    a bool; None otherwise."""
    if isinstance(e, ast.Name) and fn is not None:
        # a local assigned once, from a truth value
        asg = [x for x in _own_walk(fn) if isinstance(x, ast.Name) and
               x.id == e.id and isinstance(x.ctx, (ast.Store, ast.Del))]
        val = [x.value for x in _own_walk(fn) if isinstance(x, ast.Assign)
               and len(x.targets) == 1 and x.targets[0] in asg]
        if len(asg) == 1 and val and e.id not in {
                a.arg for a in ast.walk(fn.args) if isinstance(a, ast.arg)} \
                and _truth_test(val[0]) is not None:
            return e
        return None
    if isinstance(e, ast.Call) and isinstance(e.func, ast.Name) and \
            e.func.id == 'bool' and len(e.args) == 1 and not e.keywords:
        return e.args[0]
    if isinstance(e, ast.Compare):
        return e
    if isinstance(e, ast.UnaryOp) and isinstance(e.op, ast.Not):
        return e
    if isinstance(e, ast.BoolOp) and all(
            _truth_test(v) is not None and not (
                isinstance(v, ast.Call)) for v in e.values):
        return e
    if isinstance(e, ast.Call) and isinstance(e.func, ast.Name) and \
            e.func.id in ('isinstance', 'callable'):
        return e
    return None


def bool_tables(trees):
    tables = {}
    seen = {}
    for tree in trees.values():
        stores = {}
        touched = set()
        for n in ast.walk(tree):
            if isinstance(n, ast.Name) and isinstance(n.ctx, (ast.Store,
                                                               ast.Del)):
                stores[n.id] = stores.get(n.id, 0) + 1
            elif isinstance(n, ast.Global):
                for x in n.names:
                    stores[x] = stores.get(x, 0) + 2
            elif isinstance(n, ast.Subscript) and isinstance(
                    n.ctx, (ast.Store, ast.Del)) and \
                    isinstance(n.value, ast.Name):
                touched.add(n.value.id)
            elif isinstance(n, ast.Attribute) and isinstance(
                    n.value, ast.Name):
                touched.add(n.value.id)     # TABLE.update(...), .pop ...
        for st in tree.body:
            if isinstance(st, ast.Assign) and len(st.targets) == 1 and \
                    isinstance(st.targets[0], ast.Name) and \
                    isinstance(st.value, ast.Dict) and \
                    len(st.value.keys) == 2:
                nm = st.targets[0].id
                ks = st.value.keys
                if not all(isinstance(k, ast.Constant) and
                           isinstance(k.value, bool) for k in ks) or \
                        ks[0].value == ks[1].value:
                    continue
                if stores.get(nm) != 1 or nm in touched:
                    continue
                if not all(isinstance(v, (ast.Name, ast.Attribute,
                                          ast.Constant))
                           for v in st.value.values):
                    continue
                seen[nm] = seen.get(nm, 0) + 1
                tables[nm] = {k.value: v for k, v in zip(ks, st.value.values)}
            elif isinstance(st, (ast.Assign, ast.AugAssign, ast.AnnAssign)):
                pass
        for nm in stores:
            if nm in tables and stores[nm] != 1:
                seen[nm] = 2
    tables = {k: v for k, v in tables.items() if seen.get(k) == 1}
    if not tables:
        return 0
    count = [0]

    class T(ast.NodeTransformer):
        fn = None

        def visit_FunctionDef(self, node):
            outer, self.fn = self.fn, node
            self.generic_visit(node)
            self.fn = outer
            return node

        visit_AsyncFunctionDef = visit_FunctionDef

        def visit_Subscript(self, node):
            self.generic_visit(node)
            if isinstance(node.ctx, ast.Load) and \
                    isinstance(node.value, ast.Name) and \
                    node.value.id in tables:
                test = _truth_test(node.slice, self.fn)
                if test is not None:
                    t = tables[node.value.id]
                    count[0] += 1
                    new = ast.IfExp(test=test, body=copy.deepcopy(t[True]),
                                    orelse=copy.deepcopy(t[False]))
                    ast.copy_location(new, node)
                    ast.fix_missing_locations(new)
                    f = getattr(node, '_file', None)
                    for x in ast.walk(new):
                        if getattr(x, '_file', None) is None:
                            _setfile(x, f)
                    return new
            return node
    for tree in trees.values():
        T().visit(tree)
    return count[0]


# ----------------------------------------------------------------------
# A local that merely names an attribute chain or a bound method for the
# rest of the function (`streams = self.streams`, `append = out.append`,
# `limit = self.max_outbound_frame_size`) is replaced by what it names, when
# nothing the function does can rebind an attribute of the chain.  Aliases
# the pinned tree has itself are left alone (the rules know them).

def _chain(e):
    """(root name, [attrs]) of a pure attribute chain, or None."""
    attrs = []
    while isinstance(e, ast.Attribute):
        attrs.append(e.attr)
        e = e.value
    if isinstance(e, ast.Name) and attrs:
        return e.id, attrs[::-1]
    return None


def inline_aliases(trees):
    pinned = load_pinned()['functions']
    by_name = {}
    props = set()
    quals = []
    for mname, tree in trees.items():
        for st in tree.body:
            if isinstance(st, (ast.FunctionDef, ast.AsyncFunctionDef)):
                quals.append(('%s.%s' % (mname, st.name), st))
            elif isinstance(st, ast.ClassDef):
                for s2 in st.body:
                    if isinstance(s2, (ast.FunctionDef,
                                       ast.AsyncFunctionDef)):
                        quals.append(('%s.%s.%s' % (mname, st.name, s2.name),
                                      s2))
    for q, fn in quals:
        by_name.setdefault(fn.name, []).append(fn)
        if any(_dec(d) in ('property', 'setter', 'cached_property')
               for d in fn.decorator_list):
            props.add(fn.name)
    direct = {}
    for q, fn in quals:
        stores, calls = set(), set()
        local_names = {a.arg for a in ast.walk(fn) if isinstance(a, ast.arg)}
        local_names |= {n.id for n in ast.walk(fn) if isinstance(n, ast.Name)
                        and isinstance(n.ctx, ast.Store)}
        for n in ast.walk(fn):
            if isinstance(n, ast.Attribute) and isinstance(
                    n.ctx, (ast.Store, ast.Del)):
                stores.add(n.attr)
            elif isinstance(n, ast.Call):
                f = n.func
                if isinstance(f, ast.Name):
                    if f.id in local_names:
                        # a callee held in a variable: unknown, unless the
                        # variable only names a bound method
                        asg = [x for x in ast.walk(fn)
                               if isinstance(x, ast.Name) and x.id == f.id
                               and isinstance(x.ctx, (ast.Store, ast.Del))]
                        val = [x.value for x in ast.walk(fn)
                               if isinstance(x, ast.Assign) and
                               len(x.targets) == 1 and
                               x.targets[0] in asg]
                        ch = _chain(val[0]) if len(asg) == 1 and val and \
                            f.id not in {a.arg for a in ast.walk(fn)
                                         if isinstance(a, ast.arg)} else None
                        if ch is None:
                            stores.add('*')
                        else:
                            calls.add(ch[1][-1])
                    calls.add(f.id)
                elif isinstance(f, ast.Attribute):
                    calls.add(f.attr)
                else:
                    stores.add('*')
        if any(isinstance(n, ast.Call) and isinstance(n.func, ast.Name) and
               n.func.id in ('setattr', 'delattr') for n in ast.walk(fn)):
            stores.add('*')
        direct[id(fn)] = (stores, calls)
    memo = {}

    def writes(name, seen):
        if name in memo:
            return memo[name]
        if name in seen:
            return set()
        seen = seen | {name}
        out = set()
        for fn in by_name.get(name, ()):
            s, c = direct[id(fn)]
            out |= s
            for x in c:
                out |= writes(x, seen)
        if len(seen) == 1:
            memo[name] = out
        return out
    n_done = 0
    for q, fn in quals:
        pin = pinned.get(q)
        pinned_stmts = set()
        if pin and pin.get('src'):
            try:
                import textwrap
                pt = ast.parse(textwrap.dedent(pin['src']))
                for n in ast.walk(pt):
                    if isinstance(n, ast.Assign):
                        pinned_stmts.add(ast.unparse(n))
            except SyntaxError:
                pass
        params = {a.arg for a in fn.args.args + fn.args.kwonlyargs +
                  fn.args.posonlyargs}
        if fn.args.vararg:
            params.add(fn.args.vararg.arg)
        if fn.args.kwarg:
            params.add(fn.args.kwarg.arg)
        stores = {}
        declared = set()
        for n in _own_walk(fn):
            if isinstance(n, ast.Name) and isinstance(
                    n.ctx, (ast.Store, ast.Del)):
                stores[n.id] = stores.get(n.id, 0) + 1
            elif isinstance(n, (ast.Global, ast.Nonlocal)):
                declared |= set(n.names)
            elif isinstance(n, ast.ExceptHandler) and n.name:
                stores[n.name] = stores.get(n.name, 0) + 1
        own_stores, own_calls = direct[id(fn)]
        blocked = set(own_stores)
        for c in own_calls:
            blocked |= writes(c, frozenset())
        if '*' in blocked:
            continue        # calls something we cannot name
        cands = {}
        for n in _own_walk(fn):
            if not (isinstance(n, ast.Assign) and len(n.targets) == 1 and
                    isinstance(n.targets[0], ast.Name)):
                continue
            t = n.targets[0].id
            ch = _chain(n.value)
            if ch is None or stores.get(t) != 1 or t in params or \
                    t in declared:
                continue
            root, attrs = ch
            if root == t:
                continue
            if not (root == 'self' and 'self' in params and
                    not stores.get('self') or
                    root in params and not stores.get(root) or
                    root not in params and stores.get(root) == 1):
                continue
            if any(a in props or a in blocked for a in attrs):
                continue
            if ast.unparse(n) in pinned_stmts:
                continue
            # used in a nested scope as well: leave it
            total = sum(1 for x in ast.walk(fn) if isinstance(x, ast.Name)
                        and x.id == t and isinstance(x.ctx, ast.Load))
            own = sum(1 for x in _own_walk(fn) if isinstance(x, ast.Name)
                      and x.id == t and isinstance(x.ctx, ast.Load))
            if total != own:
                continue
            cands[t] = n
        if not cands:
            continue
        # an alias of an alias: resolve in order of appearance
        mapping = {}
        for t, a in sorted(cands.items(), key=lambda kv: (kv[1].lineno,
                                                          kv[1].col_offset)):
            v = _Subst(mapping, {}).visit(copy.deepcopy(a.value))
            mapping[t] = v
        drop = {id(a) for a in cands.values()}

        def strip(stmts):
            out = []
            for s in stmts:
                if id(s) in drop:
                    continue
                for fld in ('body', 'orelse', 'finalbody'):
                    b = getattr(s, fld, None)
                    if isinstance(b, list) and b and \
                            isinstance(b[0], ast.stmt) and not isinstance(
                                s, (ast.FunctionDef, ast.AsyncFunctionDef,
                                    ast.ClassDef)):
                        nb = strip(b)
                        if not nb and fld == 'body':
                            nb = [_pass(s)]
                        setattr(s, fld, nb)
                if isinstance(s, ast.Try):
                    for h in s.handlers:
                        h.body = strip(h.body) or [_pass(s)]
                out.append(s)
            return out
        fn.body = strip(fn.body) or [_pass(fn)]
        sub = _Subst(mapping, {})
        fn.body = [sub.visit(s) for s in fn.body]
        ast.fix_missing_locations(fn)
        n_done += len(cands)
    return n_done


class Normaliser:
    def __init__(self, trees, known):
        self.trees = trees          # module name -> ast.Module
        self.known = known
        self.helpers = {}           # qual -> Helper
        self.by_name = {}           # simple name -> [Helper]
        self.counter = 0
        self.inlined = []           # (caller, helper qual, form)
        self.kept = []              # (caller, helper qual, reason)
        self.dropped = []

    # ------------------------------------------------------------------
    def collect(self):
        for mname, tree in self.trees.items():
            for st in tree.body:
                if isinstance(st, (ast.FunctionDef, ast.AsyncFunctionDef)):
                    self._add('%s.%s' % (mname, st.name), st, mname, None)
                elif isinstance(st, ast.ClassDef):
                    for s2 in st.body:
                        if isinstance(s2, (ast.FunctionDef,
                                           ast.AsyncFunctionDef)):
                            self._add('%s.%s.%s' % (mname, st.name, s2.name),
                                      s2, mname, st.name)

    def _add(self, qual, node, mname, cls):
        if qual in self.known:
            return
        # the name of a pinned function that is gone under its pinned
        # qualified name: the same function in another shape (a method made
        # a module-level function, say) - an anchor, not a helper to inline
        if not hasattr(self, '_missing_names'):
            cur = set(function_table(self.trees))
            self._missing_names = {
                q.split('.')[-1] for q in self.known
                if q not in cur and not q.endswith('.setter')}
        if node.name in self._missing_names:
            return
        if node.name.startswith('__') and node.name.endswith('__'):
            return
        if any(_dec(d) == 'property' or _dec(d) == 'setter'
               for d in node.decorator_list):
            return
        h = Helper(qual, node, mname, cls)
        self.helpers[qual] = h
        self.by_name.setdefault(node.name, []).append(h)

    # ------------------------------------------------------------------
    def run(self):
        self.collect()
        if not self.helpers:
            return self
        for _ in range(MAX_ROUNDS):
            changed = False
            for mname, tree in self.trees.items():
                for st in tree.body:
                    if isinstance(st, (ast.FunctionDef,
                                       ast.AsyncFunctionDef)):
                        changed |= self._function(st, mname, None)
                    elif isinstance(st, ast.ClassDef):
                        for s2 in st.body:
                            if isinstance(s2, (ast.FunctionDef,
                                               ast.AsyncFunctionDef)):
                                changed |= self._function(s2, mname, st.name)
            if not changed:
                break
            for h in self.helpers.values():
                h.__init__(h.qual, h.node, h.module, h.cls)
        self._drop_unused()
        return self

    def _function(self, fnode, mname, cls):
        self._cur = ('%s.%s.%s' % (mname, cls, fnode.name) if cls else
                     '%s.%s' % (mname, fnode.name))
        self._cur_mod, self._cur_cls = mname, cls
        new, ch = self._block(fnode.body)
        if ch:
            fnode.body = new
        return ch

    # ------------------------------------------------------------------
    def _block(self, stmts):
        out = []
        changed = False
        for s in stmts:
            rep = self._stmt(s)
            if rep is not None:
                out.extend(rep)
                changed = True
                continue
            # nested blocks
            for fld in ('body', 'orelse', 'finalbody'):
                b = getattr(s, fld, None)
                if isinstance(b, list) and b and isinstance(b[0], ast.stmt):
                    nb, ch = self._block(b)
                    if ch:
                        setattr(s, fld, nb)
                        changed = True
            if isinstance(s, ast.Try):
                for h in s.handlers:
                    nb, ch = self._block(h.body)
                    if ch:
                        h.body = nb
                        changed = True
            out.append(s)
        return out, changed

    def _own_exprs(self, s):
        """Expression children evaluated by the statement itself (not its
        nested blocks)."""
        if isinstance(s, (ast.If, ast.While)):
            return [s.test]
        if isinstance(s, ast.For):
            return [s.iter]
        if isinstance(s, ast.With):
            return [i.context_expr for i in s.items]
        if isinstance(s, (ast.Try, ast.FunctionDef, ast.AsyncFunctionDef,
                          ast.ClassDef)):
            return []
        return [c for c in ast.iter_child_nodes(s)
                if isinstance(c, ast.expr)]

    def _find_call(self, s):
        """First call of an introduced helper among the statement's own
        expressions: (call node, helper, guarded) where guarded means the
        call is evaluated conditionally (operand of and/or, arm of a
        conditional expression, inside a comprehension or lambda)."""
        for root in self._own_exprs(s):
            r = self._find_in(root, False)
            if r:
                return r
        return None

    def _find_in(self, e, guarded):
        if isinstance(e, ast.Call) and not getattr(e, '_no_inline', False):
            h = self._match(e)
            if h is not None:
                return e, h, guarded
        if isinstance(e, ast.BoolOp):
            for i, v in enumerate(e.values):
                r = self._find_in(v, guarded or i > 0)
                if r:
                    return r
            return None
        if isinstance(e, ast.IfExp):
            r = self._find_in(e.test, guarded)
            if r:
                return r
            for v in (e.body, e.orelse):
                r = self._find_in(v, True)
                if r:
                    return r
            return None
        if isinstance(e, (ast.ListComp, ast.SetComp, ast.DictComp,
                          ast.GeneratorExp, ast.Lambda)):
            for c in ast.iter_child_nodes(e):
                if isinstance(c, ast.expr):
                    r = self._find_in(c, True)
                    if r:
                        return r
                elif isinstance(c, ast.comprehension):
                    for c2 in [c.iter] + c.ifs:
                        r = self._find_in(c2, True)
                        if r:
                            return r
            return None
        for c in ast.iter_child_nodes(e):
            if isinstance(c, ast.expr):
                r = self._find_in(c, guarded)
                if r:
                    return r
        return None

    def _imports(self, mname):
        """local name -> (source module, original name) for the names a
        module imports at top level."""
        cache = self.__dict__.setdefault('_import_cache', {})
        if mname not in cache:
            d = {}
            for st in self.trees[mname].body:
                if isinstance(st, ast.ImportFrom):
                    for a in st.names:
                        d[a.asname or a.name] = ((st.module or ''), a.name,
                                                 st.level)
                elif isinstance(st, ast.Import):
                    for a in st.names:
                        d[a.asname or a.name.split('.')[0]] = (a.name, None,
                                                               0)
            cache[mname] = d
        return cache[mname]

    def _same_names(self, h, mname):
        """Every global name the helper refers to means the same in module
        `mname`: both modules import it from the same place under the same
        name."""
        a, b = self._imports(h.module), self._imports(mname)
        return all(n in a and a.get(n) == b.get(n) for n in h.free)

    def _match(self, call):
        f = call.func
        if isinstance(f, ast.Name):
            hs = [h for h in self.by_name.get(f.id, ())
                  if h.cls is None and h.module == self._cur_mod]
            if not hs:
                # a helper of another h2 module imported by name
                imp = self._imports(self._cur_mod).get(f.id)
                if imp is not None and imp[2] == 1 and imp[1] is not None:
                    hs = [h for h in self.by_name.get(imp[1], ())
                          if h.cls is None and h.module == imp[0] and
                          self._same_names(h, self._cur_mod)]
            return hs[0] if len(hs) == 1 and hs[0].ok else None
        if isinstance(f, ast.Attribute):
            hs = [h for h in self.by_name.get(f.attr, ())
                  if h.cls is not None]
            if len(hs) != 1 or not hs[0].ok:
                return None
            h = hs[0]
            if h.module != self._cur_mod and not self._same_names(
                    h, self._cur_mod):
                return None
            if isinstance(f.value, ast.Name) and f.value.id == 'super':
                return None
            if isinstance(f.value, ast.Call):
                return None
            if h.qual == self._cur:
                return None        # recursion
            return h
        return None

    # ------------------------------------------------------------------
    def _bind(self, call, h):
        """-> (mapping param->expr, prelude statements, rename) or Fail."""
        self.counter += 1
        tag = '_inl%d_' % self.counter
        params = list(h.params)
        args = list(call.args)
        if any(isinstance(a, ast.Starred) for a in args) or \
                any(k.arg is None for k in call.keywords):
            raise Fail('star arguments')
        bound = {}
        f = call.func
        if h.cls is not None and not h.static:
            if not params:
                raise Fail('no receiver parameter')
            recv = params.pop(0)
            if h.classm:
                bound[recv] = ast.Name(id=h.cls, ctx=ast.Load())
            elif isinstance(f, ast.Attribute) and isinstance(
                    f.value, ast.Name) and f.value.id == h.cls:
                # Class.method(obj, ...) form
                if not args:
                    raise Fail('unbound call without receiver')
                bound[recv] = args.pop(0)
            else:
                bound[recv] = f.value
        if len(args) > len(params):
            raise Fail('too many arguments')
        for p, a in zip(params, args):
            bound[p] = a
        for k in call.keywords:
            if k.arg in bound or k.arg not in params + h.kwonly:
                raise Fail('keyword mismatch')
            bound[k.arg] = k.value
        for p in params + h.kwonly:
            if p not in bound:
                if p in h.defaults:
                    bound[p] = h.defaults[p]
                else:
                    raise Fail('missing argument')
        mapping, prelude, rename = {}, [], {}
        for p, e in bound.items():
            uses = sum(1 for n in _own_walk(h.node)
                       if isinstance(n, ast.Name) and n.id == p and
                       isinstance(n.ctx, ast.Load))
            if p not in h.assigned and (_simple(e) or uses <= 1 and
                                        h.single_expr):
                mapping[p] = e
            else:
                nm = tag + p
                rename[p] = nm
                a = ast.Assign(targets=[ast.Name(id=nm, ctx=ast.Store())],
                               value=copy.deepcopy(e))
                ast.copy_location(a, call)
                ast.fix_missing_locations(a)
                _setfile(a, getattr(call, '_file', None))
                prelude.append(a)
        for nm in h.assigned:
            if nm not in rename:
                rename[nm] = tag + nm
        return mapping, prelude, rename, tag

    def _body(self, h, mapping, rename):
        sub = _Subst(mapping, rename)
        body = [sub.visit(copy.deepcopy(s)) for s in h.body]
        if any(isinstance(e, ast.Constant) for e in mapping.values()):
            body = _prune(body, h.body[0])
        return body

    # ------------------------------------------------------------------
    def _stmt(self, s):
        """-> replacement statement list, or None to keep the statement."""
        found = self._find_call(s)
        if not found:
            return None
        call, h, guarded = found
        try:
            if h.single_expr:
                return self._inline_expr(s, call, h)
            if guarded or isinstance(s, (ast.While, ast.For, ast.With)):
                raise Fail('call is evaluated conditionally or repeatedly')
            mapping, prelude, rename, tag = self._bind(call, h)
            body = self._body(h, mapping, rename)
            if isinstance(s, ast.Return) and s.value is call:
                if _falls_through(body):
                    r = ast.Return(value=ast.Constant(value=None))
                    ast.copy_location(r, s)
                    ast.fix_missing_locations(r)
                    _setfile(r, getattr(s, '_file', None))
                    body.append(r)
                self.inlined.append((self._cur, h.qual, 'tail'))
                return prelude + body
            if isinstance(s, ast.Expr) and s.value is call:
                body = self._elim(body, None, True, s)
                self.inlined.append((self._cur, h.qual, 'statement'))
                return prelude + body
            ret = tag + 'ret'
            body = self._elim(body, ret, True, s)
            if _falls_through_orig(h.body):
                init = _assign(ret, ast.Constant(value=None), s)
                body = [init] + body
            _replace(s, call, ast.Name(id=ret, ctx=ast.Load()))
            self.inlined.append((self._cur, h.qual, 'value'))
            return prelude + body + [s]
        except Fail as e:
            self.kept.append((self._cur, h.qual, str(e)))
            # make sure the same call is not tried again for ever
            call._no_inline = True
            return None

    def _inline_expr(self, s, call, h):
        mapping, prelude, rename, tag = self._bind(call, h)
        if prelude:
            # needs temporaries before the statement: only where the
            # statement's expression is evaluated exactly once, first
            if isinstance(s, (ast.While, ast.For)):
                raise Fail('temporaries needed in a loop header')
        e = _Subst(mapping, rename).visit(copy.deepcopy(h.body[0].value))
        if any(isinstance(x, ast.Constant) for x in mapping.values()):
            e = _Prune().visit(e)
        _replace(s, call, e)
        self.inlined.append((self._cur, h.qual, 'expression'))
        return prelude + [s]

    def _elim(self, stmts, ret, tail, at):
        """Eliminate `return` from a helper body (see module docstring)."""
        out = []
        for i, s in enumerate(stmts):
            rest = stmts[i + 1:]
            if not _has_return(s):
                out.append(s)
                continue
            if isinstance(s, ast.Return):
                if ret is not None:
                    v = s.value if s.value is not None else \
                        ast.Constant(value=None)
                    out.append(_assign(ret, v, s))
                elif s.value is not None and not _simple(s.value):
                    x = ast.Expr(value=s.value)
                    ast.copy_location(x, s)
                    _setfile(x, getattr(s, '_file', None))
                    out.append(x)
                if not out:
                    p = ast.Pass()
                    ast.copy_location(p, s)
                    _setfile(p, getattr(s, '_file', None))
                    out.append(p)
                return out
            if isinstance(s, ast.If):
                b = list(s.body)
                o = list(s.orelse)
                if _falls_through(b):
                    b = b + copy.deepcopy(rest)
                if _falls_through(o):
                    o = o + (rest if not _falls_through(s.body)
                             else copy.deepcopy(rest))
                s.body = self._elim(b, ret, tail, at) or [_pass(s)]
                s.orelse = self._elim(o, ret, tail, at)
                out.append(s)
                if len(list(ast.walk(ast.Module(body=out,
                                                type_ignores=[])))) > 4000:
                    raise Fail('helper too large after return elimination')
                return out
            if isinstance(s, (ast.Try, ast.With)) and not rest and tail:
                if isinstance(s, ast.Try):
                    if s.orelse and _has_return(
                            ast.Module(body=s.body, type_ignores=[])):
                        raise Fail('return in try body with else clause')
                    if s.finalbody and _has_return(
                            ast.Module(body=s.finalbody, type_ignores=[])):
                        raise Fail('return in finally')
                    s.body = self._elim(s.body, ret, True, at)
                    s.orelse = self._elim(s.orelse, ret, True, at)
                    for hd in s.handlers:
                        hd.body = self._elim(hd.body, ret, True, at)
                else:
                    s.body = self._elim(s.body, ret, True, at)
                out.append(s)
                return out
            raise Fail('return inside %s not in tail position'
                       % type(s).__name__)
        return out

    # ------------------------------------------------------------------
    def _drop_unused(self):
        used = set()
        for tree in self.trees.values():
            for n in ast.walk(tree):
                if isinstance(n, ast.Name) and isinstance(n.ctx, ast.Load):
                    used.add(n.id)
                elif isinstance(n, ast.Attribute):
                    used.add(n.attr)
        for h in self.helpers.values():
            if h.name in used:
                continue
            tree = self.trees[h.module]
            if h.cls is None:
                tree.body = [s for s in tree.body if s is not h.node]
            else:
                for st in tree.body:
                    if isinstance(st, ast.ClassDef) and st.name == h.cls:
                        st.body = [s for s in st.body if s is not h.node]
                        if not st.body:
                            st.body = [ast.Pass()]
            self.dropped.append(h.qual)


def _falls_through_orig(body):
    return _falls_through(body)


def _setfile(node, f):
    for n in ast.walk(node):
        if not hasattr(n, '_file'):
            n._file = f


def _assign(name, value, at):
    a = ast.Assign(targets=[ast.Name(id=name, ctx=ast.Store())], value=value)
    ast.copy_location(a, at)
    ast.fix_missing_locations(a)
    _setfile(a, getattr(at, '_file', None))
    return a


def _pass(at):
    p = ast.Pass()
    ast.copy_location(p, at)
    _setfile(p, getattr(at, '_file', None))
    return p


def _replace(stmt, old, new):
    """Replace expression node `old` by `new` inside statement `stmt`."""
    ast.copy_location(new, old)
    ast.fix_missing_locations(new)
    _setfile(new, getattr(old, '_file', None))
    for parent in ast.walk(stmt):
        for fld, val in ast.iter_fields(parent):
            if val is old:
                setattr(parent, fld, new)
                return
            if isinstance(val, list):
                for i, x in enumerate(val):
                    if x is old:
                        val[i] = new
                        return
    raise Fail('call node not found in its statement')


# ----------------------------------------------------------------------
# Loops over a literal tuple of callables ("apply these stages in order")
# are unrolled: `for f in (a, b, c): x = f(x, y)` is the chain of calls.

def _literal_seq(fnode, it):
    """The literal tuple/list the loop iterates over, or None."""
    if isinstance(it, (ast.Tuple, ast.List)):
        return it
    if not isinstance(it, ast.Name):
        return None
    binds = []
    for n in _own_walk(fnode):
        if isinstance(n, ast.Name) and n.id == it.id and \
                isinstance(n.ctx, (ast.Store, ast.Del)):
            binds.append(n)
        if isinstance(n, ast.Attribute) and isinstance(n.value, ast.Name) \
                and n.value.id == it.id and n.attr in (
                    'append', 'extend', 'insert', 'pop', 'remove', 'sort',
                    'reverse', 'clear'):
            return None
    if not binds and it.id not in [a.arg for a in fnode.args.args] and \
            _MODULE_SEQS is not None:
        # a module-level tuple assigned once and never touched again
        return _MODULE_SEQS.get((getattr(fnode, '_file', None), it.id))
    if len(binds) != 1 or it.id in [a.arg for a in fnode.args.args]:
        return None
    for n in _own_walk(fnode):
        if isinstance(n, ast.Assign) and len(n.targets) == 1 and \
                n.targets[0] is binds[0] and \
                isinstance(n.value, (ast.Tuple, ast.List)):
            return n.value
    return None


class _AnyAll(ast.NodeTransformer):
    """any(<test of x> for x in (a, b, c))  ->  test(a) or test(b) or
    test(c)   (all -> and), when the sequence is a literal of simple
    expressions and the element expression is a truth value (comparison,
    not, isinstance, and/or of those), so that the value is the same bool."""
    n = 0

    def _boolish(self, e):
        if isinstance(e, ast.Compare):
            return True
        if isinstance(e, ast.UnaryOp) and isinstance(e.op, ast.Not):
            return True
        if isinstance(e, ast.BoolOp):
            return all(self._boolish(v) for v in e.values)
        if isinstance(e, ast.Call) and isinstance(e.func, ast.Name) and \
                e.func.id in ('isinstance', 'bool', 'callable'):
            return True
        return False

    def visit_Call(self, node):
        self.generic_visit(node)
        if not (isinstance(node.func, ast.Name) and
                node.func.id in ('any', 'all') and len(node.args) == 1 and
                not node.keywords and
                isinstance(node.args[0], (ast.GeneratorExp, ast.ListComp))):
            return node
        g = node.args[0]
        if len(g.generators) != 1:
            return node
        c = g.generators[0]
        if c.ifs or c.is_async or not isinstance(c.iter, (ast.Tuple,
                                                          ast.List)):
            return node
        if not self._boolish(g.elt) or len(c.iter.elts) > 8:
            return node

        def simple(e):
            return isinstance(e, (ast.Name, ast.Attribute, ast.Constant))
        if isinstance(c.target, ast.Name):
            if not all(simple(e) for e in c.iter.elts):
                return node
            rows = [{c.target.id: e} for e in c.iter.elts]
        elif isinstance(c.target, ast.Tuple) and all(
                isinstance(x, ast.Name) for x in c.target.elts):
            rows = []
            for e in c.iter.elts:
                if not (isinstance(e, ast.Tuple) and
                        len(e.elts) == len(c.target.elts) and
                        all(simple(x) for x in e.elts)):
                    return node
                rows.append(dict(zip([x.id for x in c.target.elts],
                                     e.elts)))
        else:
            return node
        vals = [_Subst(r, {}).visit(copy.deepcopy(g.elt)) for r in rows]
        _AnyAll.n += 1
        if not vals:
            return ast.copy_location(
                ast.Constant(value=node.func.id == 'all'), node)
        if len(vals) == 1:
            return ast.copy_location(vals[0], node)
        op = ast.Or() if node.func.id == 'any' else ast.And()
        return ast.copy_location(ast.BoolOp(op=op, values=vals), node)


_MODULE_SEQS = None


def _module_seqs(trees):
    """(file, name) -> the literal tuple a module-level name is bound to,
    for names bound exactly once in the module and never mutated or rebound
    anywhere in it."""
    out = {}
    for tree in trees.values():
        f = getattr(tree, '_file', None)
        if f is None and tree.body:
            f = getattr(tree.body[0], '_file', None)
        stores = {}
        for n in ast.walk(tree):
            if isinstance(n, ast.Name) and isinstance(n.ctx, (ast.Store,
                                                               ast.Del)):
                stores[n.id] = stores.get(n.id, 0) + 1
            elif isinstance(n, ast.Global):
                for x in n.names:
                    stores[x] = stores.get(x, 0) + 2
        for st in tree.body:
            if isinstance(st, ast.Assign) and len(st.targets) == 1 and \
                    isinstance(st.targets[0], ast.Name) and \
                    isinstance(st.value, ast.Tuple) and \
                    stores.get(st.targets[0].id) == 1:
                out[(f, st.targets[0].id)] = st.value
    return out


def unroll_callable_loops(trees):
    global _MODULE_SEQS
    n_unrolled = 0
    _MODULE_SEQS = _module_seqs(trees)
    for tree in trees.values():
        _AnyAll().visit(tree)
        ast.fix_missing_locations(tree)
    for tree in trees.values():
        for fnode in [n for n in ast.walk(tree)
                      if isinstance(n, (ast.FunctionDef,
                                        ast.AsyncFunctionDef))]:
            n_unrolled += _unroll_in(fnode, fnode.body, fnode)
    return n_unrolled


def _unroll_in(fnode, stmts, owner):
    n = 0
    i = 0
    while i < len(stmts):
        s = stmts[i]
        for fld in ('body', 'orelse', 'finalbody'):
            b = getattr(s, fld, None)
            if isinstance(b, list) and b and isinstance(b[0], ast.stmt) \
                    and not isinstance(s, (ast.FunctionDef,
                                           ast.AsyncFunctionDef,
                                           ast.ClassDef)):
                n += _unroll_in(fnode, b, s)
        if isinstance(s, ast.Try):
            for h in s.handlers:
                n += _unroll_in(fnode, h.body, h)
        rep = _unroll(fnode, s) if isinstance(s, ast.For) else None
        if rep is not None:
            stmts[i:i + 1] = rep
            i += len(rep)
            n += 1
            continue
        i += 1
    return n


def _unroll(fnode, loop):
    if loop.orelse:
        return None
    if isinstance(loop.target, ast.Name):
        tvars = [loop.target.id]
    elif isinstance(loop.target, ast.Tuple) and all(
            isinstance(x, ast.Name) for x in loop.target.elts):
        tvars = [x.id for x in loop.target.elts]
    else:
        return None
    seq = _literal_seq(fnode, loop.iter)
    if seq is None or not (0 < len(seq.elts) <= 16):
        return None

    def simple(e):
        return isinstance(e, (ast.Name, ast.Attribute, ast.Constant))
    rows = []
    for e in seq.elts:
        if isinstance(loop.target, ast.Name):
            if not (simple(e) or (isinstance(e, ast.Tuple) and
                                  all(simple(x) for x in e.elts))):
                return None
            rows.append([e])
        else:
            if not (isinstance(e, ast.Tuple) and
                    len(e.elts) == len(tvars) and
                    all(simple(x) for x in e.elts)):
                return None
            rows.append(list(e.elts))
    # "first match, then stop": the one `break` allowed is the last statement
    # of an else-less `if` that ends the loop body; the later rows then go
    # into that if's else branch
    breaks = [n for st in loop.body for n in ast.walk(st)
              if isinstance(n, ast.Break)]
    tail_break = False
    if breaks:
        last = loop.body[-1]
        if len(breaks) == 1 and isinstance(last, ast.If) and \
                not last.orelse and last.body[-1] is breaks[0]:
            tail_break = True
        else:
            return None
    for st in loop.body:
        for n in ast.walk(st):
            # (a return leaves the function from the unrolled copy exactly
            # as it did from the loop)
            if isinstance(n, (ast.Continue, ast.Yield, ast.YieldFrom)):
                return None
            if isinstance(n, ast.Name) and n.id in tvars and \
                    isinstance(n.ctx, (ast.Store, ast.Del)):
                return None
    if tail_break:
        rest = []
        for row in reversed(rows):
            sub = _Subst(dict(zip(tvars, row)), {})
            cur = [sub.visit(copy.deepcopy(st)) for st in loop.body]
            tail = cur[-1]
            tail.body = tail.body[:-1] or [_pass(tail)]
            tail.orelse = rest
            rest = cur
        return rest
    out = []
    for row in rows:
        sub = _Subst(dict(zip(tvars, row)), {})
        for st in loop.body:
            out.append(sub.visit(copy.deepcopy(st)))
    return out


# ----------------------------------------------------------------------
# Renamed or moved functions and renamed attributes are mapped back to the
# names of the pinned tree (spec/known_fingerprints.json), so that a rule
# anchored in `connection.H2Connection._terminate_connection` still finds
# the code after a maintainer has called it something else or moved it to
# another module.  The mapping is structural (the body is the same modulo
# the names of locals; or, failing that, the one function of the same scope
# used from exactly the same functions), unique, and printed with every
# report.

class _Alpha(ast.NodeTransformer):
    """Alpha-rename locals/parameters, drop docstrings, forget own name."""

    def __init__(self):
        self.names = {}
        self.locals = set()

    def _n(self, x):
        if x not in self.names:
            self.names[x] = 'v%d' % len(self.names)
        return self.names[x]

    def visit_arg(self, n):
        return ast.arg(arg=self._n(n.arg), annotation=None)

    def visit_Name(self, n):
        if n.id in self.locals:
            return ast.Name(id=self._n(n.id), ctx=n.ctx)
        return ast.Name(id=n.id, ctx=n.ctx)

    def visit_ExceptHandler(self, n):
        self.generic_visit(n)
        if n.name:
            n.name = self._n(n.name)
        return n


def fingerprint(fnode, loose=False):
    """Hash of the function body, independent of the function's own name,
    of the names of its locals and parameters, of docstrings, annotations
    and positions.  loose=True also forgets attribute and global names (used
    only to pick the unique most similar candidate)."""
    import hashlib
    node = copy.deepcopy(fnode)
    a = _Alpha()
    loc = {x.arg for x in node.args.args + node.args.kwonlyargs +
           node.args.posonlyargs}
    if node.args.vararg:
        loc.add(node.args.vararg.arg)
    if node.args.kwarg:
        loc.add(node.args.kwarg.arg)
    for n in _own_walk(node):
        if isinstance(n, ast.Name) and isinstance(n.ctx, (ast.Store,
                                                           ast.Del)):
            loc.add(n.id)
        elif isinstance(n, ast.ExceptHandler) and n.name:
            loc.add(n.name)
    a.locals = loc
    body = [s for i, s in enumerate(node.body)
            if not (i == 0 and isinstance(s, ast.Expr) and
                    isinstance(s.value, ast.Constant) and
                    isinstance(s.value.value, str))]
    node.body = body or [ast.Pass()]
    node.returns = None
    for x in node.args.args + node.args.kwonlyargs + node.args.posonlyargs:
        x.annotation = None
    node.name = '_'
    node = a.visit(node)
    if loose:
        for n in ast.walk(node):
            if isinstance(n, ast.Attribute):
                n.attr = '_'
            elif isinstance(n, ast.Name) and not n.id.startswith('v'):
                n.id = '_'
            elif isinstance(n, ast.Constant) and isinstance(n.value, str):
                n.value = ''
    txt = ast.dump(node, annotate_fields=False, include_attributes=False)
    return hashlib.sha1(txt.encode()).hexdigest()[:16]


def function_table(trees):
    """qual -> (FunctionDef, module, class or None)"""
    out = {}
    for mname, tree in trees.items():
        for st in tree.body:
            if isinstance(st, (ast.FunctionDef, ast.AsyncFunctionDef)):
                out['%s.%s' % (mname, st.name)] = (st, mname, None)
            elif isinstance(st, ast.ClassDef):
                for s2 in st.body:
                    if isinstance(s2, (ast.FunctionDef,
                                       ast.AsyncFunctionDef)):
                        q = '%s.%s.%s' % (mname, st.name, s2.name)
                        if any(_dec(d) == 'setter'
                               for d in s2.decorator_list):
                            q += '.setter'
                        out[q] = (s2, mname, st.name)
    return out


def class_attrs(trees):
    """'module.Class' -> set of attributes assigned through self.X = ..."""
    out = {}
    for mname, tree in trees.items():
        for st in tree.body:
            if not isinstance(st, ast.ClassDef):
                continue
            s = out.setdefault('%s.%s' % (mname, st.name), set())
            for n in ast.walk(st):
                if isinstance(n, ast.Attribute) and isinstance(
                        n.ctx, ast.Store) and isinstance(
                        n.value, ast.Name) and n.value.id == 'self':
                    s.add(n.attr)
    return out


def callers_of(trees, table):
    """qual -> sorted list of functions (quals) that mention its name."""
    by_name = {}
    for q, (node, mname, cls) in table.items():
        by_name.setdefault(node.name, []).append(q)
    out = {q: set() for q in table}
    for q, (node, mname, cls) in table.items():
        for n in _own_walk(node):
            nm = None
            if isinstance(n, ast.Attribute):
                nm = n.attr
            elif isinstance(n, ast.Name):
                nm = n.id
            if nm in by_name and nm != node.name:
                for tq in by_name[nm]:
                    out[tq].add(q)
    return {q: sorted(v) for q, v in out.items()}


def load_pinned():
    import json
    p = os.path.join(VERIF_DIR, 'h2verif', 'spec', 'known_fingerprints.json')
    with open(p) as fh:
        return json.load(fh)


class Aliases:
    def __init__(self):
        self.renamed = []       # (pinned qual, current name)
        self.moved = {}         # current qual -> pinned qual
        self.attrs = []         # (class, pinned attr, current attr)


def _rename_everywhere(trees, old, new):
    for tree in trees.values():
        for n in ast.walk(tree):
            if isinstance(n, (ast.FunctionDef, ast.AsyncFunctionDef)) and \
                    n.name == old:
                n.name = new
            elif isinstance(n, ast.Attribute) and n.attr == old:
                n.attr = new
            elif isinstance(n, ast.Name) and n.id == old:
                n.id = new
            elif isinstance(n, ast.alias):
                if n.name == old:
                    n.name = new
                if n.asname == old:
                    n.asname = new


def map_back(trees):
    """Detect renamed / moved functions and renamed attributes against the
    pinned tree and undo the renames in the syntax trees."""
    pinned = load_pinned()
    al = Aliases()
    for _ in range(24):
        cur = function_table(trees)
        known = set(pinned['functions'])
        missing = sorted(q for q in known if q not in cur and
                         al.moved.get(q) is None and
                         q not in al.moved.values())
        introduced = sorted(q for q in cur if q not in known and
                            q not in al.moved)
        if not missing or not introduced:
            break
        fp = {q: fingerprint(cur[q][0]) for q in introduced}
        fpl = {q: fingerprint(cur[q][0], loose=True) for q in introduced}
        done = False
        for k in missing:
            pk = pinned['functions'][k]
            kname = k.split('.')[-1] if not k.endswith('.setter') \
                else k.split('.')[-2]
            kcls = pk.get('cls')
            cands = [q for q in introduced if fp[q] == pk['fp']]
            if len(cands) != 1:
                # the body may mention other renamed names: the loose form,
                # within the same class (or among module-level functions)
                cands = [q for q in introduced if fpl[q] == pk['fpl'] and
                         cur[q][2] == kcls]
            if len(cands) != 1 and pk.get('callers'):
                # renamed and reshaped at once: the one introduced function
                # of the same scope that is used from exactly the functions
                # that used the pinned one
                cc = callers_of(trees, cur)
                cands = [q for q in introduced if cur[q][2] == kcls and
                         cur[q][1] == k.split('.')[0] and
                         cc.get(q) == pk['callers'] and
                         len(cur[q][0].args.args) == pk.get('nargs')]
            if len(cands) != 1:
                continue
            q = cands[0]
            node, mname, cls = cur[q]
            if node.name != kname:
                if any(isinstance(n, (ast.Name, ast.Attribute)) and
                       (getattr(n, 'id', None) == kname or
                        getattr(n, 'attr', None) == kname)
                       for t in trees.values() for n in ast.walk(t)):
                    # the old name is used for something else: the function
                    # keeps its new name in the trees and is only indexed
                    # under its pinned qualified name
                    if fp[q] == pk['fp']:
                        al.renamed.append((k, node.name))
                        al.moved[q] = k
                        done = True
                        break
                    continue
                al.renamed.append((k, node.name))
                _rename_everywhere(trees, node.name, kname)
            newq = '%s.%s.%s' % (mname, cls, kname) if cls else \
                '%s.%s' % (mname, kname)
            if newq != k.replace('.setter', ''):
                al.moved[newq] = k
            done = True
            break           # recompute the tables after each mapping
        if not done:
            break
    # attributes
    cur_attrs = class_attrs(trees)
    for cq, attrs in sorted(pinned['attrs'].items()):
        now = cur_attrs.get(cq)
        if now is None:
            continue
        gone = sorted(set(attrs) - now)
        new = sorted(now - set(attrs))
        if len(gone) == 1 and len(new) == 1:
            used = any(isinstance(n, ast.Attribute) and n.attr == gone[0]
                       for t in trees.values() for n in ast.walk(t))
            if not used:
                al.attrs.append((cq, gone[0], new[0]))
                for t in trees.values():
                    for n in ast.walk(t):
                        if isinstance(n, ast.Attribute) and \
                                n.attr == new[0]:
                            n.attr = gone[0]
    return al


# ----------------------------------------------------------------------
# A computation moved from the callers into a pinned helper (the helper is
# handed the ingredients and builds the value first thing) is moved back.

def hoist_param_prologue(trees):
    """A non-public function of the pinned tree whose body now begins by
    re-binding one of its parameters from itself (`flags = self._build(flags)`
    after canon_params; written `flags = self._build(events)` with the
    parameter called `events`) has had a computation moved in from its
    callers.  It is moved back: the statement goes, every call passes the
    computed value.  Only where the pinned function does not start that way
    itself, every call site is found, and the expression reads nothing but
    parameters and self."""
    pinned = load_pinned()['functions']
    table = function_table(trees)
    done = []
    for q, (node, mname, cls) in sorted(table.items()):
        pk = pinned.get(q)
        if pk is None or not node.name.startswith('_') or \
                node.name.startswith('__') or node.decorator_list:
            continue
        body = list(node.body)
        if body and isinstance(body[0], ast.Expr) and isinstance(
                body[0].value, ast.Constant) and isinstance(
                    body[0].value.value, str):
            body = body[1:]
        if not body:
            continue
        st = body[0]
        if not (isinstance(st, ast.Assign) and len(st.targets) == 1 and
                isinstance(st.targets[0], ast.Name)):
            continue
        P = st.targets[0].id
        params = [a.arg for a in node.args.args]
        if node.args.vararg or node.args.kwarg:
            continue
        names = {n.id for n in ast.walk(st.value) if isinstance(n, ast.Name)}
        Q = P
        if P in params:
            # `headers = self._prepare(headers, flags)`: an extracted helper
            # applied to a parameter in place - the inliner's business, the
            # function's contract is what it was
            continue
        if P not in params:
            # the parameter was renamed for what is now passed: P is a
            # parameter of the pinned function that is gone, Q the one
            # parameter the pinned function does not have
            try:
                pt0 = ast.parse(textwrap.dedent(pk.get('src') or ''))
                pparams = [a.arg for a in pt0.body[0].args.args]
            except (SyntaxError, IndexError, AttributeError):
                continue
            newp = [p for p in params if p not in pparams]
            if P not in pparams or len(newp) != 1 or \
                    len(params) != len(pparams) or \
                    params.index(newp[0]) != pparams.index(P):
                continue
            Q = newp[0]
            uses = sum(1 for n in _own_walk(node) if isinstance(n, ast.Name)
                       and n.id == Q)
            inexpr = sum(1 for n in ast.walk(st.value)
                         if isinstance(n, ast.Name) and n.id == Q)
            if uses != inexpr or inexpr == 0:
                continue
        if Q not in names or not names <= set(params):
            continue
        # the pinned function must not begin like this itself
        try:
            pt = ast.parse(textwrap.dedent(pk.get('src') or ''))
            pbody = [s for s in pt.body[0].body]
            if pbody and isinstance(pbody[0], ast.Expr) and isinstance(
                    pbody[0].value, ast.Constant):
                pbody = pbody[1:]
            if pbody and ast.unparse(pbody[0]) == ast.unparse(st):
                continue
        except (SyntaxError, IndexError):
            continue
        # P is not assigned again
        if sum(1 for n in _own_walk(node) if isinstance(n, ast.Name) and
               n.id == P and isinstance(n.ctx, ast.Store)) != 1:
            continue
        # call sites
        idx = params.index(Q)
        method = bool(cls) and params and params[0] in ('self', 'cls')
        sites = []
        ok = True
        for t in trees.values():
            for n in ast.walk(t):
                if not isinstance(n, ast.Call):
                    continue
                f = n.func
                if method and isinstance(f, ast.Attribute) and \
                        f.attr == node.name:
                    recv = f.value
                    pos = idx - 1
                elif not method and isinstance(f, ast.Name) and \
                        f.id == node.name:
                    recv = None
                    pos = idx
                else:
                    continue
                if any(isinstance(a, ast.Starred) for a in n.args) or \
                        any(k.arg is None for k in n.keywords):
                    ok = False
                    continue
                if pos < len(n.args):
                    sites.append((n, 'pos', pos, recv))
                else:
                    kw = [k for k in n.keywords if k.arg == Q]
                    if len(kw) != 1:
                        ok = False
                        continue
                    sites.append((n, 'kw', kw[0], recv))
        # other references to the function (passed around): give up
        refs = sum(1 for t in trees.values() for n in ast.walk(t)
                   if (isinstance(n, ast.Attribute) and n.attr == node.name)
                   or (isinstance(n, ast.Name) and n.id == node.name))
        if not ok or not sites or refs != len(sites):
            continue
        other = [p for p in params if p != Q]
        # the expression may read other parameters only if the call passes
        # simple expressions for them (evaluated once more in the caller)
        for call, how, where, recv in sites:
            mapping = {}
            for i, p in enumerate(params):
                j = i - 1 if method else i
                if method and i == 0:
                    mapping[p] = recv
                    continue
                if j < len(call.args):
                    mapping[p] = call.args[j]
                else:
                    kw = [k.value for k in call.keywords if k.arg == p]
                    if kw:
                        mapping[p] = kw[0]
            if any(p in names and (p not in mapping or not _simple(
                    mapping[p])) for p in other):
                ok = False
        if not ok:
            continue
        for call, how, where, recv in sites:
            mapping = {}
            for i, p in enumerate(params):
                j = i - 1 if method else i
                if method and i == 0:
                    mapping[p] = recv
                elif j < len(call.args):
                    mapping[p] = call.args[j]
                else:
                    kw = [k.value for k in call.keywords if k.arg == p]
                    if kw:
                        mapping[p] = kw[0]
            new = _Subst(mapping, {}).visit(copy.deepcopy(st.value))
            ast.copy_location(new, call)
            ast.fix_missing_locations(new)
            fl = getattr(call, '_file', None)
            for x in ast.walk(new):
                if getattr(x, '_file', None) is None:
                    _setfile(x, fl)
            if how == 'pos':
                call.args[where] = new
            else:
                where.value = new
        node.body.remove(st)
        if Q != P:
            for a0 in node.args.args:
                if a0.arg == Q:
                    a0.arg = P
            for call, how, where, recv in sites:
                if how == 'kw':
                    where.arg = P
        if not node.body:
            node.body.append(_pass(node))
        done.append(q)
    return done



def demote_changed(trees, al, keep_whole=frozenset()):
    """A non-public function of the pinned tree that kept its name but now
    takes another number of arguments is no longer the function the rules
    know.  It is renamed (definition and calls) so that it is treated like
    any helper the pinned tree does not have: inlined into its callers,
    where the second outlining pass can recognise the pinned body and put
    the pinned function back."""
    pinned = load_pinned()
    cur = function_table(trees)
    out = []
    missing_by_name = {}
    for k0 in pinned['functions']:
        if k0 not in cur and k0 not in al.moved.values() and \
                not k0.endswith('.setter'):
            missing_by_name.setdefault(k0.split('.')[-1], []).append(k0)
    for q in sorted(cur):
        node, mname, cls = cur[q]
        k = al.moved.get(q, q)
        pk = pinned['functions'].get(k)
        if pk is None and len(missing_by_name.get(node.name, ())) == 1:
            # a method made a module-level function (or the reverse) under
            # the same name
            k = missing_by_name[node.name][0]
            pk = pinned['functions'][k]
        if pk is None or pk.get('nargs') is None or k in keep_whole or \
                not node.name.startswith('_') or node.name.startswith('__') \
                or q.endswith('.setter') or node.decorator_list:
            continue
        a = node.args
        own = len(a.args) - (1 if cls and a.args and
                             a.args[0].arg in ('self', 'cls') else 0)
        pin = pk['nargs'] - (1 if pk.get('cls') else 0)
        if a.vararg or a.kwarg or own == pin:
            continue
        old = node.name
        new = old + '__resigned'
        tree = trees[mname]
        if cls:
            cnode = next((s for s in tree.body if isinstance(s, ast.ClassDef)
                          and s.name == cls), None)
            if cnode is None:
                continue
            # uses other than self.<old>(...) inside the class: leave alone
            uses = [n for t in trees.values() for n in ast.walk(t)
                    if isinstance(n, ast.Attribute) and n.attr == old]
            inside = {id(n) for n in ast.walk(cnode)
                      if isinstance(n, ast.Attribute) and n.attr == old and
                      isinstance(n.value, ast.Name) and n.value.id == 'self'}
            same_name_elsewhere = any(
                c2 != cls and n2.name == old
                for (n2, m2, c2) in cur.values())
            if same_name_elsewhere:
                # another class has a method of this name: only the calls
                # through `self` inside this class are certainly ours
                outside = [n for n in uses if id(n) not in inside]
                # calls on other receivers stay as they are
            else:
                outside = [n for n in uses if id(n) not in inside]
                if outside:
                    continue
            node.name = new
            for n in ast.walk(cnode):
                if id(n) in inside:
                    n.attr = new
        else:
            imported = any(isinstance(n, ast.alias) and n.name == old
                           for t in trees.values() for n in ast.walk(t))
            if imported:
                continue
            node.name = new
            for n in ast.walk(tree):
                if isinstance(n, ast.Name) and n.id == old:
                    n.id = new
        out.append(k)
    return out


def canon_params(trees, al):
    """Parameters of non-public functions that were renamed (same number, same
    positions) get the names of the pinned tree back, inside the function and
    in keyword arguments of its calls.  Public signatures are left alone: a
    renamed public parameter is a change of behaviour for keyword callers."""
    pinned = load_pinned()
    cur = function_table(trees)
    done = []
    for q in sorted(cur):
        node, mname, cls = cur[q]
        k = al.moved.get(q, q)
        pk = pinned['functions'].get(k)
        if pk is None or not pk.get('src') or not node.name.startswith('_') \
                or node.name.startswith('__'):
            continue
        try:
            knode = ast.parse(pk['src']).body[0]
        except SyntaxError:
            continue
        if not isinstance(knode, (ast.FunctionDef, ast.AsyncFunctionDef)):
            continue

        def plist(fn):
            a = fn.args
            if a.vararg or a.kwarg or a.posonlyargs:
                return None
            return [x.arg for x in a.args + a.kwonlyargs]
        pp, cp = plist(knode), plist(node)
        if pp is None or cp is None or len(pp) != len(cp) or pp == cp or \
                len(knode.args.args) != len(node.args.args):
            continue
        ren = {c: p for c, p in zip(cp, pp) if c != p}
        used = {n.id for n in ast.walk(node) if isinstance(n, ast.Name)} | \
            {a.arg for n in ast.walk(node)
             if isinstance(n, (ast.FunctionDef, ast.AsyncFunctionDef,
                               ast.Lambda)) and n is not node
             for a in n.args.args + n.args.kwonlyargs}
        if any(p in used and p not in ren for p in ren.values()) or \
                len(set(ren.values())) != len(ren) or \
                set(ren.values()) & (set(cp) - set(ren)):
            continue        # a pinned name is taken by something else
        # simultaneous renaming (a swap of two names is a mapping as well)
        for a in node.args.args + node.args.kwonlyargs:
            a.arg = ren.get(a.arg, a.arg)
        for n in ast.walk(node):
            if isinstance(n, ast.Name) and n.id in ren:
                n.id = ren[n.id]
        for t in trees.values():
            for c in ast.walk(t):
                if not isinstance(c, ast.Call):
                    continue
                f = c.func
                nm = f.id if isinstance(f, ast.Name) else (
                    f.attr if isinstance(f, ast.Attribute) else None)
                if nm == node.name:
                    for kw in c.keywords:
                        if kw.arg in ren:
                            kw.arg = ren[kw.arg]
        done.append((k, sorted(ren.items())))
    return done


# ----------------------------------------------------------------------
# A helper of the pinned tree that was inlined into its callers and deleted
# is put back: where the caller contains the pinned body statement for
# statement (parameters as pattern variables, locals renamed one-to-one) the
# run is replaced by a call and the pinned definition is re-inserted.  The
# match is exact - anything short of it leaves the anchor missing (exit 2).

class _NoMatch(Exception):
    pass


class _Unifier:
    def __init__(self, params, locals_):
        self.params = set(params)
        self.locals = set(locals_)
        self.pbind = {}         # param -> target expr
        self.lbind = {}         # local -> target name
        self.lrev = {}

    def node(self, p, t):
        if isinstance(p, ast.Name) and p.id in self.params:
            if not isinstance(p.ctx, ast.Load) or not isinstance(t, ast.expr):
                raise _NoMatch
            if p.id in self.pbind:
                if ast.dump(self.pbind[p.id]) != ast.dump(t):
                    raise _NoMatch
            else:
                self.pbind[p.id] = t
            return
        if isinstance(p, ast.Name) and p.id in self.locals:
            if not isinstance(t, ast.Name) or \
                    type(p.ctx) is not type(t.ctx):
                raise _NoMatch
            if self.lbind.setdefault(p.id, t.id) != t.id or \
                    self.lrev.setdefault(t.id, p.id) != p.id:
                raise _NoMatch
            return
        if type(p) is not type(t):
            raise _NoMatch
        for fld in p._fields:
            if fld in ('ctx', 'type_comment'):
                continue
            a, b = getattr(p, fld, None), getattr(t, fld, None)
            if isinstance(p, ast.ExceptHandler) and fld == 'name' and \
                    a in self.locals:
                if self.lbind.setdefault(a, b) != b or \
                        self.lrev.setdefault(b, a) != a:
                    raise _NoMatch
                continue
            self.value(a, b)

    def value(self, a, b):
        if isinstance(a, ast.AST):
            if not isinstance(b, ast.AST):
                raise _NoMatch
            self.node(a, b)
        elif isinstance(a, list):
            if not isinstance(b, list) or len(a) != len(b):
                raise _NoMatch
            for x, y in zip(a, b):
                self.value(x, y)
        else:
            if a != b or type(a) is not type(b):
                raise _NoMatch


def _strip_doc(body):
    return [s for i, s in enumerate(body)
            if not (i == 0 and isinstance(s, ast.Expr) and
                    isinstance(s.value, ast.Constant) and
                    isinstance(s.value.value, str))]


def _blocks(fnode):
    """Every statement list inside the function (not nested defs)."""
    out = [fnode.body]
    stack = list(fnode.body)
    while stack:
        s = stack.pop()
        if isinstance(s, (ast.FunctionDef, ast.AsyncFunctionDef,
                          ast.ClassDef)):
            continue
        for fld in ('body', 'orelse', 'finalbody'):
            b = getattr(s, fld, None)
            if isinstance(b, list) and b and isinstance(b[0], ast.stmt):
                out.append(b)
                stack.extend(b)
        if isinstance(s, ast.Try):
            for h in s.handlers:
                out.append(h.body)
                stack.extend(h.body)
    return out


def outline_back(trees, al):
    pinned = load_pinned()
    cur = function_table(trees)
    restored = []
    for k in sorted(pinned['functions']):
        pk = pinned['functions'][k]
        if k in cur or k in al.moved.values() or not pk.get('src') or \
                not pk.get('callers') or k.endswith('.setter'):
            continue
        try:
            knode = ast.parse(pk['src']).body[0]
        except SyntaxError:
            continue
        if not isinstance(knode, ast.FunctionDef) or knode.decorator_list:
            continue
        body = _strip_doc(knode.body)
        params = [a.arg for a in knode.args.args]
        is_method = pk.get('cls') is not None
        if is_method and params and params[0] == 'self':
            params = params[1:]
        assigned = set()
        for n in _own_walk(knode):
            if isinstance(n, ast.Name) and isinstance(n.ctx, (ast.Store,
                                                               ast.Del)):
                assigned.add(n.id)
            elif isinstance(n, ast.ExceptHandler) and n.name:
                assigned.add(n.name)
        if assigned & set(params) or knode.args.vararg or knode.args.kwarg:
            continue
        no_fall = not _falls_through(body)
        has_ret = any(isinstance(n, ast.Return) for n in _own_walk(knode))
        kname = knode.name
        mname = k.split('.')[0]
        sites = []
        for cq in pk['callers']:
            if cq not in cur:
                continue
            cnode = cur[cq][0]
            for blk in _blocks(cnode):
                i = 0
                while i + len(body) <= len(blk):
                    seg = blk[i:i + len(body)]
                    form = None
                    u = _Unifier(params, assigned)
                    try:
                        if no_fall or not has_ret:
                            u.value(body, seg)
                            form = 'return' if no_fall else 'stmt'
                        elif isinstance(body[-1], ast.Return) and \
                                body[-1].value is not None and \
                                sum(isinstance(n, ast.Return)
                                    for n in _own_walk(knode)) == 1 and \
                                isinstance(seg[-1], ast.Assign):
                            u.value(body[:-1], seg[:-1])
                            u.node(body[-1].value, seg[-1].value)
                            form = 'assign'
                    except _NoMatch:
                        form = None
                    if form is None:
                        i += 1
                        continue
                    args = [copy.deepcopy(u.pbind.get(p_))
                            if p_ in u.pbind else ast.Constant(value=None)
                            for p_ in params]
                    fn = ast.Attribute(value=ast.Name(id='self',
                                                      ctx=ast.Load()),
                                       attr=kname, ctx=ast.Load()) \
                        if is_method else ast.Name(id=kname, ctx=ast.Load())
                    call = ast.Call(func=fn, args=args, keywords=[])
                    if form == 'return':
                        new = ast.Return(value=call)
                    elif form == 'stmt':
                        new = ast.Expr(value=call)
                    else:
                        new = ast.Assign(targets=seg[-1].targets, value=call)
                    ast.copy_location(new, seg[0])
                    ast.fix_missing_locations(new)
                    _setfile(new, getattr(seg[0], '_file', None))
                    blk[i:i + len(body)] = [new]
                    sites.append((cq, form))
                    i += 1
        if not sites:
            continue
        # put the pinned definition back (file attribute: the caller's)
        f0 = getattr(cur[sites[0][0]][0], '_file', None)
        for n in ast.walk(knode):
            n._file = f0
        tree = trees[mname]
        if is_method:
            for st in tree.body:
                if isinstance(st, ast.ClassDef) and st.name == pk['cls']:
                    st.body.append(knode)
        else:
            tree.body.append(knode)
        restored.append((k, sites))
    return restored
