"""Checker self-test: the property checks run against scratch copies of
/repo's current source with one catalogued change applied (DESIGN.md 7)."""
