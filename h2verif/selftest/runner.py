"""Runs the property checks on scratch copies of the CURRENT /repo source,
each with one catalogued change applied.

Catalogue:
  /verif/seeded/<id>/patch.diff   changes confirmed (demo.py) to break a
                                  property while the repository's tests pass;
                                  /verif/seeded/EXPECTED.json freezes which
                                  checks must flag which change
  /verif/benign/<name>.diff       behaviour-preserving refactorings: every
                                  check must stay silent

The scratch copies live in a temporary directory that is removed at once.  A
change that no longer applies to the current tree is skipped (and said so).
Nothing of h2 is executed: the checks are the same static checks.
"""
import glob
import json
import os
import shutil
import subprocess
import sys
import tempfile
from concurrent.futures import ThreadPoolExecutor

from ..core import VERIF_DIR, REPO

ALL = ['C%02d' % i for i in range(1, 30)]


def expected():
    p = os.path.join(VERIF_DIR, 'seeded', 'EXPECTED.json')
    if os.path.exists(p):
        with open(p) as fh:
            return json.load(fh)
    return {}


def catalogue():
    exp = expected()
    out = []
    for d in sorted(glob.glob(os.path.join(VERIF_DIR, 'seeded', '*', ''))):
        sid = os.path.basename(os.path.dirname(d))
        pf = os.path.join(d, 'patch.diff')
        if os.path.exists(pf):
            out.append(('break', sid, pf, exp.get(sid, [sid.split('-')[0]])))
    for pf in sorted(glob.glob(os.path.join(VERIF_DIR, 'benign', '*.diff'))):
        out.append(('benign', os.path.basename(pf)[:-5], pf, []))
    return out


def run_variant(patch, props, repo):
    """-> None when the patch does not apply, else {prop: (rc, [first
    lines of reports])}."""
    tmp = tempfile.mkdtemp(prefix='h2verif-selftest-')
    try:
        os.makedirs(os.path.join(tmp, 'src'))
        shutil.copytree(os.path.join(repo, 'src', 'h2'),
                        os.path.join(tmp, 'src', 'h2'),
                        ignore=shutil.ignore_patterns('__pycache__'))
        r = subprocess.run(['patch', '-s', '-p1', '-f',
                            '--no-backup-if-mismatch', '-i', patch],
                           cwd=tmp, capture_output=True, text=True)
        if r.returncode != 0:
            return None
        env = dict(os.environ)
        env['H2VERIF_NOEVIDENCE'] = '1'
        env['H2VERIF_REPLAY_DIR'] = os.path.join(tmp, 'replay')
        arg = props[0] if len(props) == 1 else 'all'
        r = subprocess.run([sys.executable, '-m', 'h2verif.cli', arg,
                            '--summary', '--repo', tmp],
                           cwd=VERIF_DIR, env=env, capture_output=True,
                           text=True)
        res = {}
        if arg == 'all':
            for ln in r.stdout.splitlines():
                w = ln.split(' ', 2)
                if len(w) >= 2 and w[0] in ALL and w[1].startswith('rc='):
                    res[w[0]] = (int(w[1][3:]), w[2] if len(w) > 2 else '')
        else:
            rep = [ln.strip() for ln in r.stdout.splitlines()
                   if ln.startswith('  ') and not ln.startswith('    ')
                   or ln.startswith('ANALYSIS-ERROR')]
            res[arg] = (r.returncode, ' || '.join(rep[:3])[:400])
        return res
    finally:
        shutil.rmtree(tmp, ignore_errors=True)


def main(prop=None, jobs=16, quiet=False, repo=None, results=None,
         benign_share=None):
    """Exit code 0: every catalogued change that applies was judged as
    expected; 3 otherwise.  benign_share=(i, n): run only every n-th benign
    change, offset i (the thorough tier of one property takes its share; the
    29 properties together cover the whole catalogue several times)."""
    repo = repo or REPO
    props = ALL if prop in (None, 'all') else [prop]
    cat = catalogue()
    todo = []
    nb = 0
    for kind, name, pf, exp in cat:
        if kind == 'break' and not (set(exp) & set(props)):
            continue
        if kind != 'break':
            nb += 1
            if benign_share is not None and \
                    nb % benign_share[1] != benign_share[0] % benign_share[1]:
                continue
        todo.append((kind, name, pf, exp))
    bad = []
    skipped = []
    n_break = n_benign = 0
    with ThreadPoolExecutor(max_workers=max(1, jobs)) as ex:
        outs = list(ex.map(lambda t: run_variant(t[2], props, repo), todo))
    lines = []
    for (kind, name, pf, exp), res in zip(todo, outs):
        if res is None:
            skipped.append(name)
            lines.append('selftest %s %s: skipped, does not apply to the '
                         'current tree' % (kind, name))
            continue
        if kind == 'break':
            n_break += 1
            for p in props:
                if p not in exp:
                    continue
                rc, rep = res.get(p, (None, ''))
                if rc == 1:
                    lines.append('selftest break %s: flagged by %s (%s)'
                                 % (name, p, rep[:120]))
                else:
                    bad.append('%s not flagged by %s (rc=%s %s)'
                               % (name, p, rc, rep[:200]))
            extra = sorted(p for p in props if p not in exp and
                           res.get(p, (0, ''))[0] != 0)
            if extra and not quiet:
                lines.append('selftest break %s: also reported by %s'
                             % (name, ' '.join(extra)))
        else:
            n_benign += 1
            wrong = sorted(p for p in props if res.get(p, (0, ''))[0] != 0)
            if wrong:
                for p in wrong:
                    bad.append('benign %s reported by %s (rc=%s %s)'
                               % (name, p, res[p][0], res[p][1][:300]))
            else:
                lines.append('selftest benign %s: silent' % name)
    w = sys.stdout.write
    if not quiet:
        for ln in lines:
            w(ln + '\n')
    for b in bad:
        w('SELFTEST-FAIL %s\n' % b)
    w('selftest: %d breaking changes, %d benign changes, %d skipped, '
      '%d unexpected verdicts\n' % (n_break, n_benign, len(skipped),
                                     len(bad)))
    if results is not None:
        results.update({'breaking_changes_run': n_break,
                        'benign_changes_run': n_benign,
                        'skipped_not_applicable_to_tree': skipped,
                        'unexpected_verdicts': bad})
    return 3 if bad else 0
