"""Typestate layer 1 (DESIGN.md section 2.5): the two transition tables, the
guarded commands of the stream machine's side-effect methods, the generic
step semantics of process_input, and step_impl on the abstract state space.
Everything is extracted from the current source; nothing is executed."""
import ast

from . import terms as T
from .core import AnalysisError
from .srcmodel import EnumVal, NotConst, unparse
from .spec.rfc7540_stream import S, INITIAL

FLAG_ATTRS = {'client': 'client', 'headers_sent': 'hs', 'trailers_sent': 'ts',
              'headers_received': 'hr', 'trailers_received': 'tr',
              'stream_closed_by': 'cb'}


class Table:
    """A {(state, input): (func, next_state)} dictionary: a literal, or one
    built up at module/class level (modeval evaluates the construction)."""

    def __init__(self, model, name, module, cls=None, first_node=None):
        from .modeval import ModEval, FuncRef
        self.cells = {}     # (state name, input name) -> (func name|None,
        #                      next state name, node)
        self.node = first_node
        self.duplicates = []
        self.malformed = []     # rows that are not (state, input): (f, state)
        ev = ModEval(model, module, cls)
        try:
            table = ev.value_of(name)
        except NotConst:
            raise AnalysisError('cannot evaluate the construction of %s.%s'
                                % (cls or module, name))
        except RecursionError:
            raise AnalysisError('construction of %s too deep' % name)
        if not isinstance(table, dict) or not table:
            raise AnalysisError('%s is not a non-empty dict' % name)
        self.state_enum = self.input_enum = None
        for kv, v in table.items():
            if not (isinstance(kv, tuple) and len(kv) == 2 and
                    all(isinstance(x, EnumVal) for x in kv)):
                # a row no (state, input) lookup can find: the cell it was
                # meant for is absent
                self.malformed.append('key %r' % (kv,))
                continue
            if not (isinstance(v, (tuple, list)) and len(v) == 2):
                # unpacking `func, target = row` fails when the row is used
                self.malformed.append('value of %s: %r' % (
                    '/'.join(x.name for x in kv), v))
                continue
            fn, nv = v
            if fn is None:
                fname = None
            elif isinstance(fn, FuncRef):
                fname = fn.name
            else:
                raise AnalysisError('transition function: %r' % (fn,))
            if not isinstance(nv, EnumVal):
                raise AnalysisError('transition target: %r' % (nv,))
            key = (kv[0].name, kv[1].name)
            self.cells[key] = (fname, nv.name,
                               ev.origin.get(kv, first_node))
            if self.state_enum is None:
                self.state_enum, self.input_enum = kv[0].cls, kv[1].cls
            elif (kv[0].cls, kv[1].cls) != (self.state_enum,
                                            self.input_enum):
                raise AnalysisError('transition key of another enum: %r'
                                    % (kv,))
        for kv in ev.duplicates:
            if isinstance(kv, tuple) and len(kv) == 2 and \
                    all(isinstance(x, EnumVal) for x in kv):
                self.duplicates.append((kv[0].name, kv[1].name))


class GuardedCmd:
    """One side-effect method as guarded commands over the machine's flags."""

    def __init__(self, fsm, fi, paths):
        self.fi = fi
        self.alts = []
        for p in paths:
            conds = [e.cond for e in p.events if e.kind == 'assume']
            writes = []
            for e in p.events:
                if e.kind == 'write' and e.base == ('p', 'self'):
                    writes.append((e.attr, e.value, e))
            outcome = fsm._outcome(p)
            self.alts.append((conds, writes, outcome, p))


class FSM:
    def __init__(self, eng):
        self.eng = eng
        m = eng.m
        self.m = m
        # ---- stream table
        smod = m.modules.get('stream')
        if smod is None:
            raise AnalysisError('module stream not found')
        tnodes = smod.assigns.get('_transitions')
        if not tnodes:
            raise AnalysisError('stream._transitions not found')
        self.stream = Table(m, '_transitions', 'stream', None, tnodes[0])
        # ---- connection table
        cm = m.cls('connection.H2ConnectionStateMachine')
        tn = cm.attrs.get('_transitions')
        if tn is None:
            raise AnalysisError('H2ConnectionStateMachine._transitions '
                                'not found')
        self.conn = Table(m, '_transitions', cm.module, cm.qual, tn)
        self.sm_cls = m.cls('stream.H2StreamStateMachine')
        self.states = list(m.enum_members(
            m.cls('stream.StreamState').qual).keys())
        self.inputs = list(m.enum_members(
            m.cls('stream.StreamInputs').qual).keys())
        self.conn_states = list(m.enum_members(
            m.cls('connection.ConnectionState').qual).keys())
        self.conn_inputs = list(m.enum_members(
            m.cls('connection.ConnectionInputs').qual).keys())
        self.stream_open = self._stream_open()
        self.cmds = {}
        for fname in sorted({c[0] for c in self.stream.cells.values()
                             if c[0]}):
            fi = m.lookup_method(self.sm_cls.qual, fname)
            if fi is None:
                raise AnalysisError('side-effect method %s not found' % fname)
            paths = eng.I.run(fi)
            self.cmds[fname] = GuardedCmd(self, fi, paths)

    # ------------------------------------------------------------------
    def _stream_open(self):
        """Evaluate the module-level construction of STREAM_OPEN."""
        from .modeval import ModEval
        m = self.m
        members = m.enum_members(m.cls('stream.StreamState').qual)
        try:
            vals = ModEval(m, 'stream').value_of('STREAM_OPEN')
        except NotConst:
            raise AnalysisError('cannot evaluate STREAM_OPEN')
        out = {}
        if isinstance(vals, dict):
            for name, v in members.items():
                k = [x for x in vals if isinstance(x, EnumVal) and
                     x.name == name]
                if not k:
                    raise AnalysisError('STREAM_OPEN does not cover %s'
                                        % name)
                out[name] = bool(vals[k[0]])
            return out
        if not isinstance(vals, (list, tuple)):
            raise AnalysisError('STREAM_OPEN is neither list nor dict')
        for name, v in members.items():
            if v is None or int(v) >= len(vals):
                raise AnalysisError('STREAM_OPEN does not cover %s' % name)
            out[name] = bool(vals[int(v)])
        return out

    # ------------------------------------------------------------------
    def _outcome(self, p):
        """-> ('return', (event class names), objs) | ('raise', exc name,
        (event class names), objs)"""
        st = p.state

        def classes(term):
            if term is None or term == T.NONE:
                return (), ()
            if term[0] == 'obj' and '$elems' in st.objs.get(term, {}):
                els = st.objs[term]['$elems']
                names = []
                for e in els:
                    if e[0] == 'obj':
                        names.append(e[2])
                    else:
                        names.append('?' + T.show(e))
                return tuple(names), tuple(els)
            if term[0] == 'c' and term[1] in ((), None):
                return (), ()
            return ('?' + T.show(term),), ()
        if p.exit in ('return', 'fall'):
            names, objs = classes(p.value)
            return ('return', names, objs)
        names = sorted(p.exc['names'])
        obj = p.exc.get('obj')
        evs = ((), ())
        if obj is not None and obj[0] == 'obj':
            evs = classes(st.objs.get(obj, {}).get('_events'))
        return ('raise', names[0] if len(names) == 1 else '|'.join(names),
                evs[0], evs[1])

    def eval_cond(self, t, s, prev):
        """Evaluate a path condition on abstract state s -> True/False/None"""
        k = t[0]
        if k == 'c':
            return bool(t[1])
        if k == 'not':
            v = self.eval_cond(t[1], s, prev)
            return None if v is None else not v
        if k == 'truth':
            v = self.eval_val(t[1], s, prev)
            return None if v is _UNK else bool(v)
        if k in ('is', 'eq', 'ne'):
            a = self.eval_val(t[1], s, prev)
            b = self.eval_val(t[2], s, prev)
            if a is _UNK or b is _UNK:
                return None
            if k == 'is':
                return a is b or (a == b and type(a) is type(b))
            return (a == b) if k == 'eq' else (a != b)
        if k == 'and':
            vs = [self.eval_cond(x, s, prev) for x in t[1]]
            if any(v is False for v in vs):
                return False
            return None if any(v is None for v in vs) else True
        if k == 'or':
            vs = [self.eval_cond(x, s, prev) for x in t[1]]
            if any(v is True for v in vs):
                return True
            return None if any(v is None for v in vs) else False
        if k == 'in':
            a = self.eval_val(t[1], s, prev)
            if a is _UNK:
                return None
            c = t[2]
            if c[0] == 'tuple':
                vals = [self.eval_val(x, s, prev) for x in c[1]]
                if any(v is _UNK for v in vals):
                    return None
                return a in vals
            if c[0] == 'c':
                try:
                    return a in c[1]
                except Exception:
                    return None
            return None
        return None

    def eval_val(self, t, s, prev):
        if t[0] == 'c':
            v = t[1]
            if isinstance(v, EnumVal):
                return v.name
            return v
        if t[0] == 'a' and t[1] == ('p', 'self'):
            f = FLAG_ATTRS.get(t[2])
            if f is not None:
                return getattr(s, f)
            if t[2] == 'state':
                return s.st
            return _UNK
        if t[0] == 'p' and t[1] == 'previous_state':
            return prev
        return _UNK

    def apply_cmd(self, fname, s, prev):
        """-> (new flags state, outcome) for the unique enabled alternative"""
        cmd = self.cmds[fname]
        hits = []
        for conds, writes, outcome, p in cmd.alts:
            ok = True
            for c in conds:
                v = self.eval_cond(c, s, prev)
                if v is None:
                    raise AnalysisError(
                        'guard of %s not evaluable on the abstract state: %s'
                        % (fname, T.show(c)))
                if not v:
                    ok = False
                    break
            if ok:
                hits.append((writes, outcome, p))
        if len(hits) != 1:
            raise AnalysisError('%d enabled alternatives in %s for %r'
                                % (len(hits), fname, s))
        writes, outcome, p = hits[0]
        upd = {}
        for attr, val, ev in writes:
            f = FLAG_ATTRS.get(attr)
            if f is None:
                if attr == 'state':
                    v = self.eval_val(val, s, prev)
                    upd['st'] = v
                continue
            v = self.eval_val(val, s, prev)
            if v is _UNK:
                raise AnalysisError('flag update in %s not constant: %s'
                                    % (fname, T.show(val)))
            upd[f] = v
        return s._replace(**upd), outcome

    def norm(self, s):
        """Flags are used for truthiness only (client and cb apart)."""
        return s._replace(hs=bool(s.hs), ts=bool(s.ts), hr=bool(s.hr),
                          tr=bool(s.tr))

    def step_impl(self, s, inp):
        """Generic step semantics of process_input + table + guarded
        commands -> (kind, events, next state, exc name)."""
        cell = self.stream.cells.get((s.st, inp))
        if cell is None:
            return ('refuse', (), s._replace(st='CLOSED'), 'ProtocolError')
        fname, nxt, _ = cell
        prev = s.st
        s1 = s._replace(st=nxt)
        if fname is None:
            return ('ok', (), s1, None)
        s2, outcome = self.apply_cmd(fname, s1, prev)
        s2 = self.norm(s2)
        if outcome[0] == 'return':
            return ('ok', outcome[1], s2, None)
        exc = outcome[1]
        if exc == 'AssertionError':
            return ('refuse', (), s2._replace(st='CLOSED'), 'ProtocolError')
        if self.m.exc_is_subclass(exc, 'ProtocolError'):
            s3 = s2._replace(st='CLOSED')
            if self.m.exc_is_subclass(exc, 'StreamClosedError'):
                if outcome[2]:
                    return ('reset', outcome[2], s3, exc)
                return ('closed', (), s3, exc)
            return ('refuse', outcome[2], s3, exc)
        return ('error:' + exc, outcome[2], s2, exc)

    def reachable(self, feedable):
        """Breadth-first closure of the initial abstract state under the
        inputs the stream API can feed."""
        cache = self.__dict__.setdefault('_reach_cache', {})
        if id(feedable) in cache and cache[id(feedable)][0] is feedable:
            return cache[id(feedable)][1]
        res = self._reachable(feedable)
        cache[id(feedable)] = (feedable, res)
        return res

    def _reachable(self, feedable):
        init = INITIAL
        seen = {init}
        order = [init]
        trans = []
        i = 0
        while i < len(order):
            s = order[i]
            i += 1
            for inp in self.inputs:
                if not feedable(s, inp):
                    continue
                r = self.step_impl(s, inp)
                trans.append((s, inp, r))
                n = r[2]
                if n not in seen:
                    seen.add(n)
                    order.append(n)
        return order, trans


class _Unk:
    def __repr__(self):
        return '<unk>'


_UNK = _Unk()


def describe(states, universe):
    """Smallest conjunction of flag literals that picks exactly `states`
    out of `universe` (both sets of S); falls back to a listing."""
    states = set(states)
    universe = set(universe)
    if states == universe:
        return 'always'
    fields = ['client', 'hs', 'ts', 'hr', 'tr', 'cb']
    lits = []
    for f in fields:
        for v in sorted({getattr(s, f) for s in universe}, key=repr):
            lits.append((f, v))
    import itertools
    for n in (1, 2, 3):
        for combo in itertools.combinations(lits, n):
            if len({f for f, _ in combo}) < n:
                continue
            sel = {s for s in universe
                   if all(getattr(s, f) == v for f, v in combo)}
            if sel == states:
                return ','.join('%s=%s' % (f, _short(v)) for f, v in combo)
    return ';'.join(sorted(
        ','.join('%s=%s' % (f, _short(getattr(s, f))) for f in fields)
        for s in states))


def _short(v):
    if v is True:
        return '1'
    if v is False:
        return '0'
    return str(v)
