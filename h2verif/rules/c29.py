"""C29 - API misuse is reported only through documented exceptions and emits
nothing.

Decides: for each public method and property of H2Connection the escape set
is within H2Error plus ValueError/TypeError raised by an explicit argument
check of that method (never KeyError / IndexError / AssertionError / library
internals); every use of self.streams[...] in a public method is dominated
by a successful lookup; forgotten vs never-used ids are distinguished; no
raise can follow an append to the output buffer in a public call (including
the post-append size assertion of _prepare_for_sending, decided per emit
site by the frame-size budget).
"""
from ..raises import format_witness
from . import budget
from . import common as cm
from .c09 import lookup_rule

H = 'connection.H2Connection.'


def public_entries(eng):
    cls = eng.m.cls('connection.H2Connection')
    out = []
    for name, fi in sorted(eng.m.methods_of(cls.qual).items()):
        if name.startswith('_'):
            continue
        out.append(fi)
    return out


def run(ctx, eng):
    ctx.rule('ESC: escape set of each public entry point of H2Connection; '
             'ATOM(OUT): no raise after an append to the output buffer; '
             'ARITH.budget: frame-size bound established before the append '
             'at every emit site')
    m = eng.m
    entries = public_entries(eng)
    ctx.record('public_entry_points', len(entries))
    ctx.floor('public_entry_points', 20)
    from . import c17
    reach = set()
    for fi in entries:
        reach |= c17.reachable_from(eng, fi.qual)
    c17.require_summaries(ctx, eng, reach)
    cm.attrs_initialised(ctx, eng)
    for fi in entries:
        esc = eng.R.of(fi.qual)
        bad = []
        for x, w in esc.items():
            if m.exc_is_subclass(x, 'H2Error'):
                continue
            for org, pth in w.origins.items():
                if x in ('ValueError', 'TypeError') and \
                        org[0] == fi.qual and org[2].startswith('raise '):
                    continue        # the method's own argument check
                bad.append((x, org, pth))
        for x, org, pth in sorted(bad):
            ctx.ob('ESC', fi.qual, '%s<-%s|%s' % (
                x, org[0], ' '.join(org[2].split())[:80]), False,
                '%s can leave %s: %s' % (x, fi.name, format_witness(pth)),
                loc=org[1])
        if not bad:
            ctx.ob('ESC', fi.qual, 'documented exceptions only', True,
                   'escape set %s' % sorted(esc), node=fi.node)
    # ---- lookup discipline (already implied by the escape sets: an
    # unguarded self.streams[x] shows up as KeyError); stated per site
    n = 0
    for fi in entries:
        for op in eng.D.ops.get(fi.qual, ()):
            if op.kind == 'subscript' and 'self.streams' in op.desc:
                n += 1
                ok = id(op.node) in eng.D.reasons
                ctx.ob('ESC.lookup', fi.qual, 'self.streams[...] guarded', ok,
                       eng.D.reasons.get(id(op.node)) or
                       eng.D.open[id(op.node)][1], node=op.node)
    ctx.record('direct_stream_table_uses', n)
    lookup_rule(ctx, eng)
    # ---- ATOM(OUT)
    sites, header_ok, why = budget.emit_sites(eng)
    ctx.ob('ARITH.budget', 'stream.H2Stream._build_headers_frames',
           'header blocks are sliced to the frame-size limit', header_ok,
           '; '.join(why) or 'first frame + CONTINUATIONs, every block a '
           'slice of at most max_outbound_frame_size')
    pub = {fi.qual for fi in entries}
    n_sites = 0
    for (q, ln), s in sorted(sites.items()):
        if q not in pub:
            continue
        n_sites += 1
        for desc, ok, reason in sorted(s['frames']):
            ctx.ob('ATOM.OUT', q, 'post-append assertion|%s' % desc, ok,
                   ('%s: %s' % (desc, reason)) if ok else
                   '%s is appended to the output buffer and only then '
                   'checked by an assertion: %s' % (desc, reason),
                   node=s['node'])
    ctx.record('emit_sites', n_sites)
    ctx.floor('emit_sites', 10)
    # explicit raises / raising calls after an append
    from . import flow
    I = flow.stream_inliner(eng)
    for fi in entries:
        try:
            paths = I.run(fi)
        except Exception:
            paths = eng.I.run(fi)
        late = {}
        for p in cm.raise_paths(paths):
            outs = [i for i, e in enumerate(p.events) if
                    (cm.is_call_to(e, '_prepare_for_sending') and
                     e.frame == fi.qual and p.exc.get('via_call') is not e)
                    or (e.kind == 'write' and e.attr == '_data_to_send' and
                        e.get('aug') == '+' and e.frame == fi.qual)]
            if not outs:
                continue
            if p.exc.get('assert') and id(p.exc['node']) in \
                    eng.D.assert_reasons:
                continue
            via = p.exc.get('via_call')
            what = 'explicit raise' if via is None else '/'.join(
                sorted(cm.ev_callee_names(via)))
            late.setdefault((what, '/'.join(sorted(p.exc['names']))), p)
        for (what, names), p in sorted(late.items()):
            ctx.ob('ATOM.OUT', fi.qual, 'raise after append|%s|%s'
                   % (what, names), False,
                   '%s can raise %s (%s) after bytes were appended to the '
                   'output buffer' % (fi.name, names, what),
                   node=p.exc['node'])
        if not late:
            ctx.ob('ATOM.OUT', fi.qual, 'no raise after an append', True,
                   '%d paths' % len(paths), node=fi.node,
                   nontrivial=any(cm.calls_to(p, '_prepare_for_sending')
                                  for p in paths))
    ctx.assume('integer arguments fit their wire width; arguments have the '
               'documented types')
    # a call on a stream that is gone says so: no public method swallows
    # the lookup's refusal (acknowledge_received_data alone ignores a
    # forgotten stream, and then only the closed kind)
    n_lookup = 0
    for fi in entries:
        paths = eng.I.run(fi)
        swallowed = set()
        looked = False
        for p in paths:
            if cm.calls_to(p, '_get_stream_by_id'):
                looked = True
            got = [e for e in p.events if e.kind == 'catch' and
                   e.frame == fi.qual and set(e.names) &
                   {'NoSuchStreamError', 'StreamClosedError'}]
            if not got:
                continue
            names = set(got[0].names) & {'NoSuchStreamError',
                                         'StreamClosedError'}
            if fi.name == 'acknowledge_received_data' and \
                    names == {'StreamClosedError'}:
                continue
            if p.exit == 'raise' and (p.exc.get('reraise') or
                                      set(p.exc['names']) <= names):
                continue
            swallowed |= names
        if not looked:
            continue
        n_lookup += 1
        ctx.ob('ESC.lookup', fi.qual, 'a stream that is gone is reported',
               not swallowed, 'catches %s from the stream lookup and goes on'
               % sorted(swallowed) if swallowed else 'the lookup\'s '
               'NoSuchStreamError / StreamClosedError leaves the call',
               node=fi.node)
    ctx.record('entries_with_stream_lookup', n_lookup)
    ctx.floor('entries_with_stream_lookup', 6)
    cm.include(ctx, eng, 'C02',
               lambda o: o.rule == 'COH.frame-size' or (
                   o.rule == 'COH.apply-map' and 'MAX_FRAME_SIZE' in o.desc),
               'the per-stream frame-size cache that slices header blocks '
               'is the peer\'s current limit on every stream (otherwise '
               'the post-append assertion fires in a public call)')
    cm.include(ctx, eng, 'C03', {'ARITH.assert', 'ARITH.guard', 'FLOW.min'},
               'the assertions after the window decrements of send_data can '
               'only hold because the guard refuses every amount above the '
               'true (possibly negative) minimum of the two windows')
    cm.include(ctx, eng, 'C22', {'ORD.lookup-first'},
               'push_stream on a parent that is gone reports it as gone')
    cm.include(ctx, eng, 'C09', {'ORD.id-bookkeeping', 'ARITH.lookup',
                                 'FLOW.lookup'},
               'closed-and-forgotten and never-used ids are told apart by '
               'the watermarks: a creation that is refused must leave them '
               'alone, and the lookup reads the watermark of the id\'s own '
               'direction')
    cm.include(ctx, eng, 'C24', {'ORD.args', ('FLOW.send',
                                              'advertise_alternative_service')},
               'advertise_alternative_service: exactly one of origin / '
               'stream_id, decided by `is None` (an empty origin is still an '
               'origin), or the stream lookup is reached with None')
