"""C20 - frames racing a local stream reset never break the connection.

Decides: (a) for every API-reachable abstract state closed by a local reset
and every receive input a peer may have in flight, the extracted machine
answers "ignored" or StreamClosedError without events - never a plain
ProtocolError and never an event; for forgotten streams every frame
handler's lookup ends in StreamClosedError / StreamIDTooLowError with no
connection-level refusal evaluated first; (b) every RST_STREAM emitted for a
refused push leaves the promised stream recorded; (c) header blocks are
decoded before any stream-level outcome; DATA that charged the connection
window always reaches the refill.
"""
from .. import terms as T
from . import common as cm
from .c06 import feedable_from_source

H = 'connection.H2Connection.'
IN_FLIGHT = ['RECV_HEADERS', 'RECV_INFORMATIONAL_HEADERS', 'RECV_DATA',
             'RECV_WINDOW_UPDATE', 'RECV_RST_STREAM', 'RECV_PUSH_PROMISE',
             'RECV_ALTERNATIVE_SERVICE', 'RECV_END_STREAM']


def run(ctx, eng):
    ctx.rule('FSM.reset-race: in-flight receive inputs on every abstract '
             'state closed by SEND_RST_STREAM give ignore/StreamClosedError')
    ctx.rule('ORD.decode-first / ORD.classify-first / PAIR.rst-record / '
             'PAIR.refill by path analysis of the frame handlers')
    fsm = eng.fsm
    feedable = feedable_from_source(eng, ctx)
    order, trans = fsm.reachable(feedable)
    ctx.states = len(order)
    ctx.transitions = len(trans)
    reset_states = [s for s in order if s.cb == 'SEND_RST_STREAM']
    ctx.record('reset_closed_states', len(reset_states))
    ctx.floor('reset_closed_states', 3)
    # every local reset is remembered as one: wherever SEND_RST_STREAM is
    # accepted the machine ends CLOSED with closed_by = SEND_RST_STREAM
    # (otherwise the frames racing that reset are judged as if the stream
    # had ended normally)
    bad = {}
    n_rst = 0
    for s, inp, r in trans:
        if inp != 'SEND_RST_STREAM' or r[0] != 'ok':
            continue
        n_rst += 1
        nxt = r[2]
        if nxt.st != 'CLOSED' or nxt.cb != 'SEND_RST_STREAM':
            bad.setdefault(s.st, set()).add('%s/closed_by=%s' % (nxt.st,
                                                                  nxt.cb))
    for st in sorted({s.st for s, inp, r in trans
                      if inp == 'SEND_RST_STREAM' and r[0] == 'ok'}):
        cell = fsm.stream.cells.get((st, 'SEND_RST_STREAM'))
        ctx.ob('FSM.reset-record', 'stream', '%s|SEND_RST_STREAM' % st,
               st not in bad, 'a local reset must end in CLOSED with '
               'closed_by=SEND_RST_STREAM%s' % (
                   ' (found %s)' % sorted(bad[st]) if st in bad else ''),
               node=cell[2] if cell else fsm.stream.node)
    ctx.require(n_rst >= 5, 'no accepted SEND_RST_STREAM transition found')
    for inp in IN_FLIGHT:
        bad = []
        for s in reset_states:
            kind, events, nxt, exc = fsm.step_impl(s, inp)
            if kind == 'refuse' or kind.startswith('error'):
                bad.append('plain %s' % exc)
            elif events:
                bad.append('events %s' % ','.join(events))
            elif nxt.cb != 'SEND_RST_STREAM' or nxt.st != 'CLOSED':
                bad.append('leaves the reset-closed state')
        cell = fsm.stream.cells.get(('CLOSED', inp))
        ctx.ob('FSM.reset-race', 'stream', 'CLOSED|%s' % inp, not bad,
               'on %d states closed by a local reset: %s' % (
                   len(reset_states), '; '.join(sorted(set(bad))) or
                   'ignored or StreamClosedError without events'),
               node=cell[2] if cell else fsm.stream.node)
    ctx.exhaustive = True

    # ---- forgotten streams: lookups and their order (layer 3)
    H = 'connection.H2Connection.'
    # _get_stream_by_id: forgotten => StreamClosedError, above the
    # watermark of the id's OWN direction => NoSuchStreamError (the rule of
    # C09, with the direction test seen through inlining)
    from .c09 import lookup_rule
    lookup_rule(ctx, eng)
    check_lookup_contracts(ctx, eng)
    # ---- (a) ORD: no connection-level refusal before the classification
    fi = eng.m.func(H + '_receive_headers_frame')
    paths = eng.I.run(fi)
    early = []
    for p in paths:
        r = cm.explicit_raise(p)
        if r is None:
            continue
        if cm.calls_to(p, '_get_or_create_stream', '_get_stream_by_id'):
            continue
        names = sorted(p.exc['names'])
        early.append(','.join(names))
    ctx.ob('ORD.classify-first', fi.qual,
           'refusal before closed-stream classification',
           not early,
           'a connection-level refusal (%s) is evaluated before the stream '
           'is classified: late HEADERS for a reset, forgotten stream meet '
           'it first' % ', '.join(sorted(set(early))), node=fi.node)
    # ---- (c) decode before any stream-level outcome
    for name in ('_receive_headers_frame', '_receive_push_promise_frame'):
        fi = eng.m.func(H + name)
        bad = []
        n = 0
        for p in eng.I.run(fi):
            look = cm.calls_to(p, '_get_or_create_stream',
                               '_get_stream_by_id', '_begin_new_stream')
            dec = cm.calls_to(p, '_decode_headers')
            if p.exit != 'raise' and not dec:
                # the connection lives on: the compression context must
                # have seen this block, whatever becomes of the stream
                bad.append('a path on which the connection survives does '
                           'not decode the header block')
            if not look:
                continue
            n += 1
            if not dec or p.index(dec[0]) > p.index(look[0]):
                bad.append('stream lookup before the header block is '
                           'decoded')
            for d in dec:
                a = d.args
                if len(a) < 2 or cm.attr_chain(a[0]) != 'self.decoder' or \
                        cm.attr_chain(a[1]) != 'frame.data':
                    bad.append('decodes something else than frame.data with '
                               'self.decoder')
        ctx.ob('ORD.decode-first', fi.qual,
               'header block decoded before stream-level outcome',
               n > 0 and not bad, '; '.join(sorted(set(bad))) or
               '%d paths decode before looking the stream up' % n,
               node=fi.node)
    # ---- (b) refused pushes leave a record
    fi = eng.m.func(H + '_receive_push_promise_frame')
    sites = {}
    for p in eng.I.run(fi):
        if p.exit == 'raise':
            continue
        for e in p.events:
            if e.kind == 'new' and e.cls == 'RstStreamFrame':
                f = p.state.objs.get(e.obj, {})
                if cm.attr_chain(f.get('stream_id')) != \
                        'frame.promised_stream_id':
                    continue
                code = cm.enum_name(f.get('error_code'))
                how = 'parent-forgotten' if any(
                    x.kind == 'catch' and 'NoSuchStreamError' in x.names
                    for x in p.events) else 'parent-closed'
                recorded = False
                for x in p.events:
                    if x.kind == 'store' and \
                            cm.attr_chain(x.container) == \
                            'self._closed_streams' and \
                            cm.attr_chain(x.key) == \
                            'frame.promised_stream_id' and \
                            cm.enum_name(x.value) == 'SEND_RST_STREAM':
                        recorded = True
                    if cm.is_call_to(x, '_begin_new_stream') and x.args and \
                            cm.attr_chain(x.args[0]) == \
                            'frame.promised_stream_id':
                        recorded = True
                sites.setdefault(how, []).append((recorded, code, e))
    for how, lst in sorted(sites.items()):
        ctx.ob('PAIR.rst-record', fi.qual,
               'RstStreamFrame(frame.promised_stream_id)|%s' % how,
               all(r for r, _, _ in lst),
               'the push is refused with RST_STREAM(%s) for the promised id '
               'but the promised stream is not recorded as reset: the '
               'response the server already sent on it becomes a connection '
               'error' % lst[0][1], node=lst[0][2].node)
        ctx.ob('FLOW.refusal-code', fi.qual, 'REFUSED_STREAM|%s' % how,
               all(c == 'REFUSED_STREAM' for _, c, _ in lst),
               'refused pushes are reset with REFUSED_STREAM',
               node=lst[0][2].node)
    ctx.record('push_refusal_sites', len(sites))
    ctx.floor('push_refusal_sites', 1)
    # whether HEADERS open a stream is decided on the table as it stands:
    # counting the open streams also forgets the closed ones, and a stream we
    # have just reset would then look new (and be held against the limit)
    fh = eng.m.func(H + '_receive_headers_frame')
    bad = []
    n = 0
    for p in eng.I.run(fh):
        cnt = [i for i, e in enumerate(p.events) if e.kind == 'call' and
               e.get('is_prop') and e.frame == fh.qual and
               cm.ev_callee_names(e) & {'open_inbound_streams',
                                        'open_outbound_streams'}]
        if not cnt:
            continue
        n += 1
        mem = [i for i, e in enumerate(p.events) if e.kind == 'assume' and
               'in self.streams)' in cm.show0(e.cond)]
        if not mem or mem[0] > cnt[0]:
            bad.append('the open streams are counted (and the closed ones '
                       'forgotten) before the frame\'s stream is looked for in '
                       'the table')
    ctx.ob('ORD.membership-first', fh.qual, 'the stream is looked up before '
           'closed streams are forgotten', n > 0 and not bad,
           '; '.join(sorted(set(bad))) or '`stream_id in self.streams` '
           'precedes the count on all %d counting paths' % n, node=fh.node)
    check_push_leniency(ctx, eng)
    # ---- (c) DATA refill
    fi = eng.m.func(H + '_receive_data_frame')
    bad = []
    charged = 0
    for p in eng.I.run(fi):
        wc = cm.calls_to(p, 'window_consumed')
        if not wc:
            continue
        charged += 1
        if p.exit == 'raise' and 'StreamClosedError' in p.exc['names']:
            bad.append('StreamClosedError leaves _receive_data_frame after '
                       'the connection window was charged, without the '
                       'refill')
        if any(e.kind == 'catch' and 'StreamClosedError' in e.names
               for e in p.events) and p.exit != 'raise':
            if not cm.calls_to(p, '_handle_data_on_closed_stream') and \
                    not [e for e in cm.calls_to(p, 'process_bytes')
                         if cm.attr_chain(e.recv) ==
                         'self._inbound_flow_control_window_manager']:
                bad.append('closed-stream path without '
                           '_handle_data_on_closed_stream')
    ctx.ob('PAIR.refill', fi.qual, 'DATA on closed stream refills', charged
           > 0 and not bad, '; '.join(sorted(set(bad))) or
           'every path that charged the window and met a closed stream goes '
           'through _handle_data_on_closed_stream', node=fi.node)
    fd = fi
    fi = eng.m.func(H + '_handle_data_on_closed_stream', required=False)
    # (read through the call, in the DATA handler's terms)
    I4 = eng.interp({fi.qual}, depth=1) if fi is not None else eng.I
    refill_paths = [p for p in cm.normal_paths(I4.run(fd)) if any(
        e.kind == 'catch' and 'StreamClosedError' in e.names
        for e in p.events)]
    if fi is None:
        fi = fd     # written out in the DATA handler
    # on every path, whatever the frame carries: an empty padded DATA frame
    # still costs its padding
    ok = bool(refill_paths)
    for p in refill_paths:
        pb = cm.calls_to(p, 'process_bytes')
        if not (pb and pb[0].args and cm.attr_chain(pb[0].args[0]) ==
                'frame.flow_controlled_length' and
                cm.attr_chain(pb[0].recv) ==
                'self._inbound_flow_control_window_manager'):
            ok = False
            break
    ctx.ob('FLOW.refill-amount', fi.qual,
           'acknowledges frame.flow_controlled_length', ok,
           'the connection manager is credited with the flow-controlled '
           'length (padding included) of the refused DATA frame',
           node=fi.node)
    # the stream that is closed by _open_streams keeps its closed_by
    fi = eng.m.func(H + '_open_streams')
    ok = None
    why = ''
    for p in eng.I.run(fi):
        for e in p.events:
            if e.kind == 'store' and cm.attr_chain(e.container) == \
                    'self._closed_streams':
                v = e.value
                good = v[0] == 'a' and v[2] == 'closed_by' and \
                    _stream_at(v[1], e.key)
                if not good:
                    why = ' (found _closed_streams[%s] = %s)' % (
                        cm.show0(e.key)[:40], cm.show0(v)[:80])
                ok = good if ok is None else (ok and good)
    ctx.ob('PAIR.closed-record', fi.qual, 'cleanup keeps closed_by', bool(ok),
           'a stream removed from `streams` is stored in `_closed_streams` '
           'under its id with its own closed_by' + why, node=fi.node)
    cm.include(ctx, eng, 'C27', {'OWN.fifo', 'TAB.cap', 'ARITH.evict'},
               'the record of a reset survives as long as the documented '
               'bound says: MAX_CLOSED_STREAMS entries, the oldest '
               'inserted going first')
    ctx.assume('schedules as such are not enumerated; the bound of '
               '_closed_streams is taken as documented')


def _stream_at(term, key):
    """term reads the stream table at `key`: streams[key], streams.pop(key)
    or streams.get(key)."""
    def table(t):
        return t[0] == 'a' and t[2] == 'streams'
    if term[0] == 'sub':
        return table(term[1]) and term[2] == key
    if term[0] == 'call' and term[1] in ('.pop', '.get') and \
            len(term[2]) >= 2:
        return table(term[2][0]) and term[2][1] == key
    if term[0] == 'lv' and key[0] == 'lv' and len(term) == 4 and \
            len(key) == 4:
        # the value and the key of the same step of one loop over
        # streams.items()
        it = term[2]
        while it[0] == 'call' and it[1] in ('list', 'tuple', 'sorted') and \
                it[2]:
            it = it[2][0]
        return term[1] == key[1] and term[2] == key[2] and \
            (key[3], term[3]) == (0, 1) and it[0] == 'call' and \
            it[1] == '.items' and bool(it[2]) and table(it[2][0])
    return False


def check_push_leniency(ctx, eng):
    """A PUSH_PROMISE on a parent that is gone from the stream table is
    refused quietly (RST_STREAM on the promised id) only when WE reset the
    parent; a parent the peer reset, or one that ended, is a connection
    error (RFC 7540 5.1, 6.6).  Shared by C06, C20 and C22."""
    fi = eng.m.func(H + '_receive_push_promise_frame')
    bad = []
    n = 0
    for p in eng.I.run(fi):
        if p.exit == 'raise':
            continue
        # a quiet refusal (RST_STREAM for the promised id) that is not the
        # stream machine's own answer for a live, closed parent
        rst = [x for x in p.events if x.kind == 'new' and
               x.cls == 'RstStreamFrame' and cm.attr_chain(
                   p.state.objs.get(x.obj, {}).get('stream_id')) ==
               'frame.promised_stream_id']
        if not rst or cm.calls_to(p, 'receive_push_promise_in_band'):
            continue
        n += 1
        ok = False
        for e in p.events:
            if e.kind != 'assume' or e.cond[0] != 'eq':
                continue
            a, b = e.cond[1], e.cond[2]
            for x, y in ((a, b), (b, a)):
                if cm.enum_name(x) == 'SEND_RST_STREAM' and y[0] == 'call' \
                        and y[1].endswith('_stream_closed_by') and \
                        cm.attr_chain(y[2][-1]) == 'frame.stream_id':
                    ok = True
        if not ok:
            conds = [cm.show0(e.cond) for e in p.events
                     if e.kind == 'assume'][1:]
            bad.append('refused quietly under %s' % (conds or 'no condition'))
    ctx.ob('FSM.push-leniency', fi.qual, 'forgotten parent: quiet refusal '
           'only after a local reset', n > 0 and not bad,
           '; '.join(sorted(set(bad))) or 'the quiet path requires '
           '_stream_closed_by(frame.stream_id) == SEND_RST_STREAM; anything '
           'else is a connection error', node=fi.node)


UNCONDITIONAL_TOLERANCE = {'_receive_rst_stream_frame',
                           '_receive_window_update_frame',
                           '_receive_alt_svc_frame'}


def check_lookup_contracts(ctx, eng):
    """Which lookup each frame handler uses and which lookup failures it
    tolerates: a frame on a forgotten (closed) stream may be tolerated where
    the RFC says so, a frame on an idle stream never is.  Shared by C06 and
    C20."""
    # handlers: which lookup, tolerated exceptions
    contracts = {
        '_receive_data_frame': ('_get_stream_by_id', {'StreamClosedError'}),
        '_receive_window_update_frame': ('_get_stream_by_id',
                                         {'StreamClosedError'}),
        '_receive_rst_stream_frame': ('_get_stream_by_id',
                                      {'NoSuchStreamError'}),
        '_receive_push_promise_frame': ('_get_stream_by_id',
                                        {'NoSuchStreamError'}),
        '_receive_alt_svc_frame': ('_get_stream_by_id',
                                   {'NoSuchStreamError',
                                    'StreamClosedError'}),
        '_receive_headers_frame': ('_get_or_create_stream', set()),
        '_receive_naked_continuation': ('_get_stream_by_id', set()),
    }
    for name, (lookup, tolerated) in sorted(contracts.items()):
        fi = eng.m.func(H + name)
        paths = eng.I.run(fi)
        uses = 0
        caught = set()
        argok = True
        for p in paths:
            for e in cm.calls_to(p, lookup):
                uses += 1
                if not e.args or cm.attr_chain(e.args[0]) != \
                        'frame.stream_id':
                    argok = False
            for e in p.events:
                if e.kind == 'catch' and e.frame == fi.qual:
                    org = e.get('origin')
                    caught |= set(e.names)
        # only classes the lookup can raise matter
        caught &= {'NoSuchStreamError', 'StreamClosedError',
                   'StreamIDTooLowError', 'ProtocolError'}
        exp = set(tolerated)
        if 'NoSuchStreamError' in exp:
            exp.add('StreamClosedError')      # subclass
        # what the handler tolerates it tolerates from the stream itself as
        # well as from the lookup: a closed stream that is still in the
        # table answers with the same StreamClosedError, and that must not
        # leave the handler either
        # (decided for the DATA handler, where the stream machine really
        # answers a closed stream with StreamClosedError; the escape sets of
        # the other handlers are not specialised by input and would
        # over-approximate)
        if name != '_receive_data_frame':
            pass
        elif 'StreamClosedError' in tolerated and \
                'StreamClosedError' in eng.R.of(fi.qual):
            w = eng.R.of(fi.qual)['StreamClosedError']
            ctx.ob('FSM.layer3', fi.qual, 'closed-stream answer is complete',
                   False, 'StreamClosedError can still leave the handler '
                   '(%s): a stream closed but not yet forgotten is treated '
                   'differently from a forgotten one' % '; '.join(sorted(
                       '%s %s' % (o[0].split('.')[-1], o[2])
                       for o in w.origins))[:300], node=fi.node)
        elif 'StreamClosedError' in tolerated:
            ctx.ob('FSM.layer3', fi.qual, 'closed-stream answer is complete',
                   True, 'no StreamClosedError leaves the handler',
                   node=fi.node)
        if name in UNCONDITIONAL_TOLERANCE:
            # tolerated means tolerated: once the handler has caught the
            # lookup's refusal it does not turn it back into an error (a
            # frame for a stream that is gone - however it went - is legal
            # here: RFC 7540 sections 5.1 "closed", 6.4, 6.9)
            worse = []
            for p in paths:
                got = [e for e in p.events if e.kind == 'catch' and
                       e.frame == fi.qual and set(e.names) & exp]
                if not got or p.exit != 'raise':
                    continue
                r = cm.explicit_raise(p)
                if p.exc.get('reraise') or (
                        r is not None and r.frame == fi.qual and
                        p.index(r) > p.index(got[0])):
                    worse.append(sorted(p.exc['names']))
            ctx.ob('FSM.layer3', fi.qual, 'tolerance is unconditional',
                   not worse, 'after catching %s the handler goes on '
                   'normally%s' % (sorted(exp), (
                       ' (raises %s)' % worse[:2]) if worse else ''),
                   node=fi.node)
        ctx.ob('FSM.layer3', fi.qual, 'stream lookup contract',
               uses > 0 and argok and caught == exp,
               'looks the stream up with %s(frame.stream_id) and tolerates '
               '%s (found: %d uses, tolerates %s)' % (
                   lookup, sorted(exp) or 'nothing', uses, sorted(caught)),
               node=fi.node)
