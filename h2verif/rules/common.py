"""Helpers shared by the property rules."""
import ast

from .. import terms as T
from ..core import AnalysisError
from ..srcmodel import EnumVal, unparse, walk_own


def short(qual):
    return qual.split('.')[-1]


def ev_callee_names(ev):
    """Simple names of the callees of a call/enter event."""
    if ev.kind == 'enter':
        return {short(ev.callee)}
    out = set()
    for n in ev.d.get('names', ()):
        for part in str(n).split('|'):
            part = part.replace('prop:', '').replace('setter:', '')
            out.add(part.split('.')[-1])
    return out


def is_call_to(ev, *names):
    if ev.kind not in ('call', 'enter'):
        return False
    return bool(ev_callee_names(ev) & set(names))


def calls_to(path, *names):
    return [e for e in path.events if is_call_to(e, *names)]


def process_inputs(path, machine_attr='state_machine'):
    """Ordered (input name, event) of state-machine steps on a path."""
    out = []
    for e in path.events:
        if is_call_to(e, 'process_input'):
            args = e.d.get('args', ())
            if not args:
                continue
            a = args[0]
            name = None
            if a[0] == 'c' and isinstance(a[1], EnumVal):
                name = a[1].name
            out.append((name, e, a))
    return out


def fact_polarity(path, term):
    """True / False / None: was `term` assumed (truth) on this path?"""
    t = T.truth(term)
    for e in path.events:
        if e.kind == 'assume':
            if e.cond == t:
                return True
            if e.cond == T.negate(t):
                return False
    return None


def param_truth(path, name):
    return fact_polarity(path, ('p', name))


def enum_name(term):
    if term is not None and term[0] == 'c' and isinstance(term[1], EnumVal):
        return term[1].name
    return None


def const_of(term):
    if term is not None and term[0] == 'c':
        return term[1]
    return None


def list_elems(path, term):
    """Elements of a tracked list object at the end of the path, or None."""
    if term is None:
        return None
    if term[0] == 'obj':
        o = path.state.objs.get(term, {})
        if '$elems' in o:
            # the marker "other loop iterations may have added elements" is
            # not an element
            return tuple(x for x in o['$elems']
                         if not (x[0] == 'splat' and x[1][0] == 'phi'))
    if term[0] == 'c' and term[1] == ():
        return ()
    return None


def obj_fields(path, term):
    if term is not None and term[0] == 'obj':
        return path.state.objs.get(term, {})
    return {}


def find_funcs_calling(eng, name):
    """FuncInfos whose body contains a call resolved to a function with this
    simple name (or an external of that dotted name)."""
    out = []
    for fi in eng.m.funcs.values():
        for n in walk_own(fi.node):
            if isinstance(n, ast.Call):
                for tg in eng.r.targets(n):
                    q = tg.fi.qual if tg.fi is not None else (tg.name or '')
                    if q.split('.')[-1] == name or q == name:
                        out.append((fi, n))
                        break
    return out


def loc(node):
    return '%s:%s' % (getattr(node, '_file', '?'),
                      getattr(node, 'lineno', '?'))


def normal_paths(paths):
    return [p for p in paths if p.exit in ('return', 'fall')]


FSM_ENUMS = ('connection.ConnectionState', 'connection.ConnectionInputs',
             'connection.AllowedStreamIDs', 'stream.StreamState',
             'stream.StreamInputs', 'stream.StreamClosedBy')


def enums_distinct(ctx, eng, classes=FSM_ENUMS):
    """No two members of an enumeration the machines are keyed by share a
    value: Enum makes the second an alias of the first, the rows of two
    states or inputs collapse into one and every comparison with either
    name holds for both."""
    ctx.rule('TAB.enum: members of the state/input enumerations have '
             'pairwise distinct (folded) values')
    for q in classes:
        c = eng.m.cls(q)
        members = eng.m.enum_members(c.qual)
        byval = {}
        for k, v in members.items():
            if k.startswith('_'):
                continue
            byval.setdefault(repr(v), []).append(k)
        dup = sorted(ks for v, ks in byval.items() if len(ks) > 1 or
                     v == 'None')
        ctx.ob('TAB.enum', c.qual, 'members are distinct', not dup,
               '%d members; aliases or unfolded values: %s' % (
                   len(members), dup) if dup else
               '%d members with distinct values' % len(members), node=c.node)
    # ... and every row of the two tables is (state, input): (function or
    # None, state) - a row of another shape is a cell that does not exist,
    # or one whose use fails at the unpacking
    for nm, tab in (('stream._transitions', eng.fsm.stream),
                    ('connection.H2ConnectionStateMachine._transitions',
                     eng.fsm.conn)):
        ctx.ob('TAB.rows', nm, 'rows are well-formed', not tab.malformed,
               '; '.join(tab.malformed)[:300] or '%d rows' % len(tab.cells),
               node=tab.node)


def attrs_initialised(ctx, eng):
    """No AttributeError from state that was never set: an attribute that a
    class reads through `self` and that only the class's own methods ever
    assign (through `self`) is assigned in __init__ or at class level -
    otherwise a read before the first of those assignments raises."""
    import ast
    m = eng.m
    stores = {}
    for q, fi in m.funcs.items():
        for n in ast.walk(fi.node):
            if isinstance(n, ast.Attribute) and isinstance(n.ctx, ast.Store):
                own = isinstance(n.value, ast.Name) and n.value.id == 'self'
                stores.setdefault(n.attr, set()).add(
                    (fi.cls, own))
    n_cls = 0
    for cq, c in sorted(m.classes.items()):
        meths = m.methods_of(cq)
        init = meths.get('__init__')
        if init is None or init.cls != cq:
            continue
        n_cls += 1
        inited = {n.attr for n in ast.walk(init.node)
                  if isinstance(n, ast.Attribute) and
                  isinstance(n.ctx, ast.Store) and
                  isinstance(n.value, ast.Name) and n.value.id == 'self'}
        inited |= {t.id for st in c.node.body if isinstance(st, ast.Assign)
                   for t in st.targets if isinstance(t, ast.Name)}
        # ... or by what __init__ runs on self: a property setter it assigns
        # through, a method of the class it calls
        via = {n.func.attr for n in ast.walk(init.node)
               if isinstance(n, ast.Call) and
               isinstance(n.func, ast.Attribute) and
               isinstance(n.func.value, ast.Name) and
               n.func.value.id == 'self'} | set(inited)
        for st in c.node.body:
            if isinstance(st, (ast.FunctionDef, ast.AsyncFunctionDef)) and \
                    st.name in via and st.name != '__init__':
                inited |= {n.attr for n in ast.walk(st)
                           if isinstance(n, ast.Attribute) and
                           isinstance(n.ctx, ast.Store) and
                           isinstance(n.value, ast.Name) and
                           n.value.id == 'self'}
        loads = set()
        for fi in meths.values():
            for n in ast.walk(fi.node):
                if isinstance(n, ast.Attribute) and \
                        isinstance(n.ctx, ast.Load) and \
                        isinstance(n.value, ast.Name) and n.value.id == 'self':
                    loads.add(n.attr)
        missing = sorted(
            a for a in loads if a in stores and a not in inited and
            all(s == (cq, True) for s in stores[a]))
        ctx.ob('ESC.attr-init', cq, 'state read through self is initialised',
               not missing, 'read through self, assigned only by methods of '
               'the class, but not in __init__: %s' % missing if missing else
               '%d attributes assigned in __init__' % len(inited),
               node=c.node)
    ctx.record('classes_with_init', n_cls)
    ctx.floor('classes_with_init', 8)


def event_fields(ctx, eng):
    """Every public event class gives each of its documented fields a value
    when it is constructed (its own __init__ or the one it inherits): the
    library sets several of them only on some paths (stream_ended,
    priority_updated, additional_data ...), and an application that reads a
    documented field of an event it was handed must find it.  The documented
    fields are those of the pinned tree (spec/known_fingerprints.json)."""
    import ast
    from .. import normalise
    pinned = normalise.load_pinned().get('attrs', {})
    m = eng.m
    n = 0
    for cq, want in sorted(pinned.items()):
        if not cq.startswith('events.') or cq.split('.')[-1].startswith('_'):
            continue
        c = m.classes.get(cq)
        if c is None or not want:
            continue
        have = set()
        seen = set()
        cur = c
        while cur is not None and cur.qual not in seen:
            seen.add(cur.qual)
            # (a default at class level is a value too)
            have |= {t.id for st in cur.node.body
                     if isinstance(st, (ast.Assign, ast.AnnAssign))
                     for t in (st.targets if isinstance(st, ast.Assign)
                               else [st.target])
                     if isinstance(t, ast.Name) and (
                         isinstance(st, ast.Assign) or st.value is not None)}
            init = cur.methods.get('__init__')
            if init is not None:
                have |= {x.attr for x in ast.walk(init.node)
                         if isinstance(x, ast.Attribute) and
                         isinstance(x.ctx, ast.Store) and
                         isinstance(x.value, ast.Name) and
                         x.value.id == 'self'}
                # (an __init__ that calls super().__init__ goes on upwards)
                if not any(isinstance(x, ast.Call) and
                           isinstance(x.func, ast.Attribute) and
                           x.func.attr == '__init__'
                           for x in ast.walk(init.node)):
                    break
            nxt = None
            for b in cur.bases:
                nxt = m.classes.get('events.' + b) or nxt
            cur = nxt
        n += 1
        missing = sorted(set(want) - have)
        ctx.ob('TAB.event-fields', cq, 'documented fields are initialised',
               not missing, 'not given a value at construction: %s' % missing
               if missing else '%d fields' % len(want), node=c.node)
    ctx.record('event_classes', n)
    ctx.floor('event_classes', 15)


class Every:
    """Verdict over the paths (or sites) of one obligation: it holds when at
    least one was judged and none failed.  `ok = Every()`, `ok(verdict)` per
    path, `ok` as the obligation's truth value - so that a path added by a
    change is judged like the others instead of the last one deciding."""
    __slots__ = ('n', 'bad')

    def __init__(self):
        self.n = 0
        self.bad = 0

    def __call__(self, verdict):
        self.n += 1
        if not verdict:
            self.bad += 1
        return verdict

    def __bool__(self):
        return self.n > 0 and self.bad == 0


def raise_paths(paths):
    return [p for p in paths if p.exit == 'raise']


def explicit_raise(path):
    """The explicit raise statement event that ends the path, if any."""
    if path.exit != 'raise':
        return None
    for e in reversed(path.events):
        if e.kind == 'raise':
            return e
        if e.kind == 'leave':
            continue        # unwinding out of a callee that was walked into
        if e.kind == 'call':
            return None
    return None


def path_raises_only(path, *classes):
    return path.exit == 'raise' and set(path.exc['names']) <= set(classes)


def is_attr(term, base, attr):
    """term is base.attr, whatever its version stamp."""
    return term is not None and term[0] == 'a' and term[1] == base and \
        term[2] == attr


def is_self_attr(term, attr):
    return is_attr(term, ('p', 'self'), attr)


def attr_chain(term):
    """'self.a.b' for attribute chains over a parameter, else None."""
    parts = []
    while term is not None and term[0] == 'a':
        parts.append(term[2])
        term = term[1]
    if term is not None and term[0] == 'p':
        parts.append(term[1])
        return '.'.join(reversed(parts))
    return None


def tuple_items(term):
    """Element terms of a tuple term (literal or folded constant)."""
    if term is None:
        return None
    if term[0] == 'tuple':
        return list(term[1])
    if term[0] == 'c' and isinstance(term[1], (tuple, frozenset)):
        return [T.C(x) for x in term[1]]
    return None


def aff_key(cond):
    """Order-independent key of an affine comparison `sum(c_i*atom_i)+k op 0`:
    (op, frozenset((show(atom), coef)), k); None for other terms."""
    if cond is None or cond[0] != 'cmp0':
        return None
    f = T.to_aff(cond[2])
    if f is None:
        return None
    return (cond[1], frozenset((show0(a), c) for a, c in f[0].items()),
            f[1])


def aff(op, k=0, **atoms):
    """Expected key: aff('>', 1, **{'self.x': 1, 'self.y': -1})"""
    return (op, frozenset(atoms.items()), k)


def mk_aff_key(op, atoms, k=0):
    return (op, frozenset(atoms.items()), k)


def assume_keys(path, upto=None):
    evs = path.events if upto is None else path.events[:upto]
    return [aff_key(e.cond) for e in evs if e.kind == 'assume']


def literal(cond):
    """An assumed condition as (atom, polarity): affine comparisons become
    the atoms ('ge', L) [L >= 0] / ('gt', L) [L > 0] over a sign-canonical
    linear form L, so that `a > b` on one path and `b >= a` on another are
    the same atom with opposite polarity; (in)equalities with a constant and
    truth tests are atoms by their text."""
    pol = True
    c = cond
    while c[0] == 'not':
        pol = not pol
        c = c[1]
    k = aff_key(c)
    if k is not None and k[0] in ('>', '>='):
        return key_literal(k, pol)
    if c[0] == 'ne':
        return (('eq', show0(c[1]), show0(c[2])), not pol)
    if c[0] == 'eq':
        return (('eq', show0(c[1]), show0(c[2])), pol)
    if c[0] == 'truth':
        return (('truth', show0(c[1])), pol)
    return (('other', show0(c)), pol)


def key_literal(k, pol=True):
    """The literal of an affine key (op, coefficients, constant)."""
    items = sorted(k[1])
    const = k[2]
    flip = bool(items) and items[0][1] < 0
    if flip:
        items = [(v, -co) for v, co in items]
        const = -const
    L = (tuple(items), const)
    if not flip:
        return (('ge' if k[0] == '>=' else 'gt', L), pol)
    # -L >= 0  <=>  not (L > 0) ;  -L > 0  <=>  not (L >= 0)
    return (('gt' if k[0] == '>=' else 'ge', L), not pol)


def decision_mismatches(cases, reference, limit=10):
    """cases: [(literals {atom: polarity}, outcome)], one per path.
    reference: function from an assignment {atom: bool} to the expected
    outcome.  Every assignment of the atoms that occur is tried; where a
    path is consistent with it, its outcome must be the reference's.
    -> list of (assignment, path outcome, expected)."""
    import itertools
    atoms = sorted({a for lits, _ in cases for a in lits}, key=repr)
    if len(atoms) > limit:
        return [('too many atoms', len(atoms), None)]
    bad = []
    for vals in itertools.product((False, True), repeat=len(atoms)):
        asg = dict(zip(atoms, vals))
        for lits, out in cases:
            if all(asg[a] == p for a, p in lits.items()):
                exp = reference(asg)
                if exp is not None and out != exp:
                    bad.append((asg, out, exp))
    return bad


def store_base_attr(ev):
    """For a 'store'/'del' event: the attribute name of the subscripted
    container as written in the source (self.X[k] = v -> 'X'), else None."""
    n = ev.node
    tgts = []
    if isinstance(n, ast.Assign):
        tgts = n.targets
    elif isinstance(n, (ast.AugAssign, ast.AnnAssign)):
        tgts = [n.target]
    elif isinstance(n, ast.Delete):
        tgts = n.targets
    for t in tgts:
        if isinstance(t, ast.Subscript) and \
                isinstance(t.value, ast.Attribute):
            return t.value.attr
    return None


def is_field_of_self_attr(path, term, owner, attr):
    """term is self.<owner>.<attr>, where self.<owner> may have been assigned
    earlier on the same path (then the read returns the assigned object)."""
    if term is None or term[0] != 'a' or term[2] != attr:
        return False
    b = term[1]
    if attr_chain(b) == 'self.' + owner:
        return True
    for e in path.events:
        if e.kind == 'write' and e.attr == owner and e.base == ('p', 'self') \
                and e.value == b:
            return True
    return False


def aff_of(term):
    """Order-independent form of an integer term:
    (frozenset((show(atom), coef)), const) or None."""
    if term is None:
        return None
    f = T.to_aff(term)
    if f is None:
        return None
    return (frozenset((show0(a), c) for a, c in f[0].items()), f[1])


def aff_is(term, atoms, k=0):
    return aff_of(term) == (frozenset(atoms.items()), k)


_VER = __import__('re').compile(r'@\d+')


def show0(term):
    """T.show without the version stamps of attribute reads."""
    return _VER.sub('', T.show(term))


def include(ctx, eng, prop, select, why):
    """Clauses decided by a sibling property's check that are necessary
    conditions of this property as well: the sibling's rule is run and the
    selected obligations are recorded under this property (keys carry this
    property's id).  `select` is a set of rule names, of (rule, function
    name) pairs, or a predicate over the obligation."""
    import importlib
    from ..core import Ctx, AnalysisError
    # A sibling's clauses are computed once per engine and nesting depth and
    # then shared: at depth 1 the sibling runs with its own includes (depth
    # 2), at depth 2 with none.  What a check sees therefore does not depend
    # on who asks, and the cost is at most two runs per property.
    depth = getattr(eng, '_inc_depth', 0)
    if depth >= 2 or prop == ctx.prop:
        return 0
    cache = eng.__dict__.setdefault('_inc_cache', {})
    key = (prop, depth + 1)
    if key not in cache:
        eng._inc_depth = depth + 1
        try:
            sub = Ctx(prop, ctx.tier, ctx.seed, eng.m)
            try:
                importlib.import_module(
                    'h2verif.rules.%s' % prop.lower()).run(sub, eng)
                cache[key] = list(sub.obligations)
            except AnalysisError as exc:
                cache[key] = exc
            except Exception as exc:       # the sibling met a shape it
                # does not know: it cannot decide, which is its own check's
                # business to report; this property's clauses go on
                cache[key] = AnalysisError('internal error in %s: %r'
                                           % (prop, exc))
        finally:
            eng._inc_depth = depth
    got = cache[key]
    if isinstance(got, AnalysisError):
        # the sibling lost an anchor: its clauses cannot be taken over, this
        # property's own clauses are decided all the same (the sibling's own
        # check reports the analysis error)
        ctx.note('clauses shared with %s were not decided on this tree '
                 '(%s)' % (prop, got))
        ctx.count('shared_clause_sets_skipped', 1)
        return 0

    class _Sub:
        obligations = got
    sub = _Sub
    if callable(select):
        pred = select
    else:
        sel = set(select)

        def pred(o):
            fn = o.where.split('.')[-1] if isinstance(o.where, str) else ''
            return o.rule in sel or (o.rule, fn) in sel
    n = 0
    have = {(o.rule, o.where, o.desc) for o in ctx.obligations}
    for o in sub.obligations:
        if pred(o):
            n += 1
            if (o.rule, o.where, o.desc) not in have:
                have.add((o.rule, o.where, o.desc))
                ctx.obligations.append(o)
    if n == 0:
        if depth > 0:
            return 0    # clauses the sibling itself takes from elsewhere
        raise AnalysisError('no clause of %s matched the selection %r'
                            % (prop, select))
    ctx.rule('from %s, %d clauses: %s' % (prop, n, why))
    ctx.count('clauses_shared_with_%s' % prop, n)
    return n


def comp_terms(term, out=None):
    """All ('comp', elt, iterable, conds, site) sub-terms of a term."""
    if out is None:
        out = []
    if isinstance(term, tuple):
        if term and term[0] == 'comp' and len(term) >= 4:
            out.append(term)
        for x in term:
            if isinstance(x, tuple):
                comp_terms(x, out)
    return out


def filter_conditions(path):
    """The conditions under which elements of an iteration are selected on
    this path, whichever way the selection is written: `if` tests inside
    `for` loops (assume events) and the `if` clauses of comprehensions that
    occur in any value computed on the path.  -> list of shown strings."""
    conds = [show0(e.cond) for e in path.events if e.kind == 'assume']
    seen = set()
    vals = [path.value] if path.value is not None else []
    for e in path.events:
        for k in ('value', 'iterable', 'operand'):
            v = e.get(k)
            if isinstance(v, tuple):
                vals.append(v)
        for a in (e.get('args') or ()):
            if isinstance(a, tuple):
                vals.append(a)
    for v in vals:
        for c in comp_terms(v):
            if c[4] in seen:
                continue
            seen.add(c[4])
            for x in c[3]:
                conds.extend(show0(a) for a in _conjuncts(x))
    return conds


def _conjuncts(t):
    if isinstance(t, tuple) and t and t[0] == 'and' and len(t) == 2 and \
            isinstance(t[1], tuple):
        out = []
        for x in t[1]:
            out.extend(_conjuncts(x))
        return out
    return [t]


def member_form(term):
    """`x in (A, B, ..)`, `x == A or x == B ..` (any nesting of `or`), or a
    single `x == A`  ->  (x, {names of the enum constants}) ; None otherwise."""
    if term is None:
        return None
    if term[0] == 'in' and tuple_items(term[2]) is not None:
        names = {enum_name(x) for x in tuple_items(term[2])}
        if None in names:
            return None
        return term[1], names
    if term[0] == 'eq':
        for x, y in ((term[1], term[2]), (term[2], term[1])):
            if enum_name(y) is not None:
                return x, {enum_name(y)}
        return None
    if term[0] == 'or' and len(term) == 2 and isinstance(term[1], tuple):
        subj = None
        names = set()
        for t in term[1]:
            mf = member_form(t)
            if mf is None:
                return None
            if subj is not None and show0(subj) != show0(mf[0]):
                return None
            subj = mf[0]
            names |= mf[1]
        return (subj, names) if subj is not None else None
    return None


def _get_call_on(term, table_name):
    return isinstance(term, tuple) and len(term) >= 3 and \
        term[0] == 'call' and isinstance(term[1], str) and \
        term[1].endswith('.get') and isinstance(term[2], tuple) and \
        term[2] and table_name in show0(term[2][0])


def lookup_miss_paths(paths, table_name):
    """Paths on which a lookup in the named table found nothing: the
    KeyError handler of `table[key]`, or the `is None` branch of
    `table.get(key)`."""
    out = []
    for p in paths:
        hit = any(e.kind == 'catch' and 'KeyError' in e.names
                  for e in p.events)
        for e in p.events:
            if e.kind != 'assume':
                continue
            c, pos = (e.cond[1], False) if e.cond[0] == 'not' \
                else (e.cond, True)
            if c[0] == 'is' and T.NONE in (c[1], c[2]):
                other = c[2] if c[1] == T.NONE else c[1]
                if _get_call_on(other, table_name) and pos:
                    hit = True
            if c[0] == 'truth' and _get_call_on(c[1], table_name) and \
                    not pos:
                hit = True
        if hit:
            out.append(p)
    return out


def lookup_keys(paths, table_name):
    """Shown keys with which the named table is consulted (subscript or
    .get)."""
    out = set()
    for p in paths:
        for e in p.events:
            if e.kind == 'load' and table_name in show0(e.container):
                out.add(show0(e.key))
            if e.kind == 'call' and e.get('result') is not None and \
                    _get_call_on(e.result, table_name) and \
                    len(e.result[2]) >= 2:
                out.add(show0(e.result[2][1]))
            for k in ('cond', 'value'):
                v = e.get(k)
                for t in _subterms(v):
                    if _get_call_on(t, table_name) and len(t[2]) >= 2:
                        out.add(show0(t[2][1]))
    return out


def _subterms(t, depth=0):
    if isinstance(t, tuple) and depth < 8:
        yield t
        for x in t:
            if isinstance(x, tuple):
                for y in _subterms(x, depth + 1):
                    yield y


def reads_entry_value(term, attr):
    """Every read of <x>.attr inside the term is of the value the attribute
    had when the function was entered (version stamp 0) - not of a value
    that a call made in between may have changed."""
    found = False
    for t in _subterms(term):
        if len(t) == 4 and t[0] == 'a' and t[2] == attr:
            found = True
            if t[3] != 0:
                return False
    return found


def decrement_operand(e):
    """For a write event of the form `x.attr -= d` or `x.attr = x.attr - d`
    (in any arithmetically equal spelling) return the term d; None when the
    write is not a decrement of the written location."""
    if e.get('aug') == '-':
        return e.operand
    if e.get('aug') is not None:
        return None
    f = T.to_aff(e.value)
    if f is None:
        return None
    atoms, k = f
    me = None
    for a, c in atoms.items():
        if a[0] == 'a' and a[2] == e.attr and \
                show0(a[1]) == show0(e.base):
            me = (a, c)
    if me is None or me[1] != 1:
        return None
    rest = {a: -c for a, c in atoms.items() if a is not me[0]}
    return T.mk_aff(rest, -k)


def role_fact(path):
    """True (client) / False (server) / None: what the path has assumed about
    config.client_side."""
    for e in path.events:
        if e.kind == 'assume':
            s = show0(e.cond)
            if s.endswith('config.client_side') and '(' not in s:
                return not s.startswith('not ')
    return None


def parity_class(path, term):
    """Whose parity is this AllowedStreamIDs argument?  'own' (the parity of
    streams this endpoint opens), 'peer', or the constant 'EVEN' / 'ODD' when
    the path says nothing about the role.  AllowedStreamIDs(client_side) and
    an if/else over client_side that picks ODD for clients are the same."""
    s = show0(term) if term is not None else '?'
    if s == 'enum:AllowedStreamIDs(self.config.client_side)' or \
            s.endswith('AllowedStreamIDs(config.client_side)'):
        return 'own'
    if s == 'enum:AllowedStreamIDs(not self.config.client_side)' or \
            s.endswith('AllowedStreamIDs(not config.client_side)'):
        return 'peer'
    nm = enum_name(term)
    if nm in ('EVEN', 'ODD'):
        role = role_fact(path)
        if role is None:
            return nm
        own = 'ODD' if role else 'EVEN'
        return 'own' if nm == own else 'peer'
    return s


def increment_operand(e):
    """For `x.attr += d` or `x.attr = x.attr + d` (any equal spelling) the
    term d; None when the write is not an increment of the location."""
    if e.get('aug') == '+':
        return e.operand
    if e.get('aug') is not None:
        return None
    f = T.to_aff(e.value)
    if f is None:
        return None
    atoms, k = f
    me = None
    for a, c in atoms.items():
        if a[0] == 'a' and a[2] == e.attr and \
                show0(a[1]) == show0(e.base):
            me = (a, c)
    if me is None or me[1] != 1:
        return None
    rest = {a: c for a, c in atoms.items() if a is not me[0]}
    return T.mk_aff(rest, k)


def check_event_classes(ctx, eng, names=None):
    """Applications tell events apart with isinstance: the public event
    classes are pairwise unrelated (each derives from Event and from nothing
    else), so that no event is also an instance of another kind of event."""
    bad = []
    n = 0
    for cq, c in sorted(eng.m.classes.items()):
        if c.module != 'events' or c.name.startswith('_') or \
                c.name == 'Event':
            continue
        if names is not None and c.name not in names:
            continue
        n += 1
        if list(c.bases) != ['Event']:
            bad.append('%s derives from %s' % (c.name, list(c.bases)))
    ctx.ob('TAB.event-classes', 'events', 'event classes are unrelated',
           n > 0 and not bad, '; '.join(bad) or '%d public event classes, '
           'each deriving from Event only' % n)
