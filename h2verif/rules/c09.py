"""C09 - stream identifiers per RFC 7540 section 5.1.1.

Decides: in _begin_new_stream the three refusals (id not above the watermark
of its own direction, wrong parity for the caller's argument, id above
2**31-1) as affine/parity forms, that they all precede every bookkeeping
write, and that the watermark of the id's own direction becomes the id;
every caller passes the right parity; get_next_available_stream_id;
PRIORITY handling writes no stream table and no watermark; the
StreamIDTooLowError three-way split and the forgotten/never-used lookup.
"""
from .. import terms as T
from . import common as cm
from .c06 import check_receive_frame

H = 'connection.H2Connection.'
LIMIT = 2 ** 31 - 1


DIRECTION = ('((stream_id % 2) == int(self.config.client_side))',
             '(int(self.config.client_side) == (stream_id % 2))')


def outbound_fact(path):
    """Did the path decide "this id is one of ours"?  Through the helper,
    or through its body seen by inlining (method or module-level function
    given config.client_side: the same test)."""
    for e in path.events:
        if e.kind == 'assume':
            c, neg = (e.cond[1], True) if e.cond[0] == 'not' \
                else (e.cond, False)
            if c[0] == 'truth' and c[1][0] == 'call' and \
                    c[1][1].endswith('_stream_id_is_outbound'):
                return not neg
            if cm.show0(c) in DIRECTION:
                return not neg
            if c[0] == 'ne' and cm.show0(('eq', c[1], c[2])) in DIRECTION:
                return neg
    return None


def direction_interp(eng):
    f = eng.m.func(H + '_stream_id_is_outbound')
    return eng.interp({f.qual}, depth=1)


def lookup_rule(ctx, eng):
    fi = eng.m.func(H + '_get_stream_by_id')
    kinds = {}
    for p in direction_interp(eng).run(fi):
        r = cm.explicit_raise(p)
        if r is None:
            continue
        ob = outbound_fact(p)
        cmpf = None
        for e in p.events:
            if e.kind == 'assume' and e.cond[0] == 'cmp0':
                cmpf = cm.show0(e.cond)
        kinds.setdefault(tuple(sorted(p.exc['names'])), set()).add((ob,
                                                                   cmpf))
    exp_no = {(True, '(-self.highest_outbound_stream_id + stream_id > 0)'),
              (False, '(-self.highest_inbound_stream_id + stream_id > 0)')}
    exp_cl = {(True, '(self.highest_outbound_stream_id - stream_id >= 0)'),
              (False, '(self.highest_inbound_stream_id - stream_id >= 0)')}
    ok = kinds.get(('NoSuchStreamError',)) == exp_no and \
        kinds.get(('StreamClosedError',)) == exp_cl
    ctx.ob('ARITH.lookup', fi.qual, 'forgotten vs never-used ids', ok,
           'NoSuchStreamError iff stream_id > watermark of its own '
           'direction, else StreamClosedError (found %s)' % {
               k: sorted(v, key=repr) for k, v in kinds.items()},
           node=fi.node)
    # a live stream is returned
    ok = any(p.exit == 'return' and p.value[0] == 'sub' and
             cm.attr_chain(p.value[1]) == 'self.streams' and
             p.value[2] == ('p', 'stream_id') for p in eng.I.run(fi))
    ctx.ob('FLOW.lookup', fi.qual, 'live streams are returned', ok,
           'returns self.streams[stream_id]', node=fi.node)


def run(ctx, eng):
    ctx.rule('ARITH: guards of _begin_new_stream and '
             'get_next_available_stream_id as affine normal forms against '
             'folded constants; ORD/ATOM: guards before bookkeeping writes; '
             'FLOW: parity argument of every caller; OWN: write sets of the '
             'PRIORITY paths')
    fi = eng.m.func(H + '_begin_new_stream')
    paths = eng.I.run(fi)
    # ---- refusals
    seen = {}
    for p in paths:
        r = cm.explicit_raise(p)
        if r is None:
            continue
        ob = outbound_fact(p)
        last = [e for e in p.events if e.kind == 'assume'][-1]
        seen.setdefault(tuple(sorted(p.exc['names'])), set()).add(
            (ob, cm.show0(last.cond)))
        if any(e.kind in ('write', 'store') and e.frame == fi.qual
               for e in p.events):
            ctx.ob('ATOM.STR', fi.qual,
                   'bookkeeping before refusal|%s' % '/'.join(
                       sorted(p.exc['names'])), False,
                   'a refused id has already changed the stream table or a '
                   'watermark when %s is raised' % sorted(p.exc['names']),
                   node=p.exc['node'])
    low = seen.get(('StreamIDTooLowError',), set())
    ok_low = low == {
        (True, '(self.highest_outbound_stream_id - stream_id >= 0)'),
        (False, '(self.highest_inbound_stream_id - stream_id >= 0)')}
    ctx.ob('ARITH.id-low', fi.qual, 'id must exceed its own watermark',
           ok_low, 'StreamIDTooLowError iff stream_id <= watermark of the '
           'id\'s own direction (found %s)' % sorted(low, key=repr),
           node=fi.node)
    pe = {c for _, c in seen.get(('ProtocolError',), set())}
    ok_par = '((stream_id % 2) != int(allowed_ids))' in pe
    ctx.ob('ARITH.id-parity', fi.qual, 'parity test', ok_par,
           'ProtocolError iff stream_id %% 2 != int(allowed_ids) (found %s)'
           % sorted(pe), node=fi.node)
    ok_hi = '(stream_id - %d > 0)' % LIMIT in pe
    ctx.ob('ARITH.id-high', fi.qual, 'upper bound 2**31-1', ok_hi,
           'ProtocolError iff stream_id > 2**31-1 (found %s)' % sorted(pe),
           node=fi.node)
    # ---- normal paths: guards then writes; right watermark
    bad = []
    n = 0
    for p in cm.normal_paths(paths):
        n += 1
        ob = outbound_fact(p)
        conds = [cm.show0(e.cond) for e in p.events if e.kind == 'assume']
        need = ['(-self.highest_%s_stream_id + stream_id > 0)'
                % ('outbound' if ob else 'inbound'),
                '((stream_id % 2) == int(allowed_ids))',
                '(-stream_id + %d >= 0)' % LIMIT]
        first_w = None
        for i, e in enumerate(p.events):
            if e.kind in ('write', 'store') and e.frame == fi.qual:
                first_w = i
                break
        before = [cm.show0(e.cond) for e in p.events[:first_w]
                  if e.kind == 'assume']
        for c in need:
            if c not in conds:
                bad.append('guard %s missing on an accepting path' % c)
            elif c not in before:
                bad.append('guard %s evaluated after a bookkeeping write'
                           % c)
        wm = [e for e in p.events if e.kind == 'write' and
              e.attr.startswith('highest_')]
        exp_attr = 'highest_outbound_stream_id' if ob \
            else 'highest_inbound_stream_id'
        if len(wm) != 1 or wm[0].attr != exp_attr or \
                wm[0].value != ('p', 'stream_id') or \
                wm[0].base != ('p', 'self'):
            bad.append('watermark update: expected %s = stream_id'
                       % exp_attr)
        st = [e for e in p.events if e.kind == 'store' and
              cm.attr_chain(e.container) == 'self.streams']
        if len(st) != 1 or st[0].key != ('p', 'stream_id') or \
                not (st[0].value[0] == 'obj' and
                     st[0].value[2] == 'H2Stream'):
            bad.append('stream table: expected streams[stream_id] = '
                       'H2Stream(...)')
        elif p.value != st[0].value:
            bad.append('the created stream is not returned')
        else:
            o = p.state.objs.get(st[0].value, {})
            args = o.get('$args', ())
            if not args or args[0] != ('p', 'stream_id'):
                bad.append('H2Stream not constructed with stream_id')
    ctx.ob('ORD.id-bookkeeping', fi.qual, 'guards precede bookkeeping',
           n > 0 and not bad, '; '.join(sorted(set(bad))) or
           'all three refusals are decided before the stream table and the '
           'watermark of the id\'s own direction are updated', node=fi.node)
    if not any(o.rule == 'ATOM.STR' for o in ctx.obligations):
        ctx.ob('ATOM.STR', fi.qual, 'no bookkeeping before a refusal', True,
               'raise paths write nothing', node=fi.node)
    # direction test
    fi2 = eng.m.func(H + '_stream_id_is_outbound')
    # decided where the test is used (the helper inlined): a method reading
    # self.config.client_side and a function that is handed it are the same
    ok = any(cm.show0(e.cond) in DIRECTION or (
        e.cond[0] == 'not' and cm.show0(e.cond[1]) in DIRECTION)
        for p in direction_interp(eng).run(
            eng.m.func(H + '_get_stream_by_id'))
        for e in p.events if e.kind == 'assume')
    ctx.ob('ARITH.direction', fi2.qual, 'outbound iff own parity', ok,
           'stream_id % 2 == int(config.client_side)', node=fi2.node)
    # ---- callers' parity
    want = {
        'send_headers': 'own',
        '_receive_headers_frame': 'peer',
        'push_stream': 'EVEN',
        '_receive_push_promise_frame': 'EVEN',
        'initiate_upgrade_connection': 'ODD',
    }
    # push_stream runs on servers only and the promise handler on clients
    # only: written with the role spelt out, EVEN is 'own' resp. 'peer'
    also = {'push_stream': {'own'}, '_receive_push_promise_frame': {'peer'},
            'initiate_upgrade_connection': {'own', 'peer'}}
    got = {}
    for name in want:
        f3 = eng.m.func(H + name)
        for p in eng.I.run(f3):
            for e in cm.calls_to(p, '_begin_new_stream',
                                 '_get_or_create_stream'):
                a = e.kwargs.get('allowed_ids',
                                 e.args[1] if len(e.args) > 1 else None)
                got.setdefault(name, set()).add(cm.parity_class(p, a))
    # _get_or_create_stream forwards its argument
    f4 = eng.m.func(H + '_get_or_create_stream')
    fw = any(e.args[:2] == (('p', 'stream_id'), ('p', 'allowed_ids'))
             for p in eng.I.run(f4)
             for e in cm.calls_to(p, '_begin_new_stream'))
    ctx.ob('FLOW.parity', f4.qual, 'forwards id and parity', fw,
           '_begin_new_stream(stream_id, allowed_ids)', node=f4.node)
    for name, exp in sorted(want.items()):
        ctx.ob('FLOW.parity', H + name, 'parity argument',
               bool(got.get(name)) and
               got[name] <= {exp} | also.get(name, set()),
               'creates streams with %s (found %s)' % (
                   exp, sorted(got.get(name, []))),
               node=eng.m.func(H + name).node)
    ctx.record('creation_call_sites', sum(len(v) for v in got.values()))
    # other creators?
    callers = {f.qual for f, _ in cm.find_funcs_calling(eng,
                                                        '_begin_new_stream')}
    allowed = {H + n for n in want} | {f4.qual}
    allowed.discard(H + 'send_headers')
    allowed.discard(H + '_receive_headers_frame')
    ctx.ob('OWN.creators', 'connection.H2Connection',
           'callers of _begin_new_stream', callers <= allowed,
           'called from %s' % sorted(c.split('.')[-1] for c in callers))
    # ---- next id
    fi = eng.m.func(H + 'get_next_available_stream_id')
    vals = {}
    exh = set()
    for p in eng.I.run(fi):
        hw = cs = None
        for e in p.events:
            if e.kind == 'assume':
                s = cm.show0(e.cond)
                if s == 'self.highest_outbound_stream_id':
                    hw = True
                elif s == 'not self.highest_outbound_stream_id':
                    hw = False
                elif s == 'self.config.client_side':
                    cs = True
                elif s == 'not self.config.client_side':
                    cs = False
        if p.exit == 'return':
            # every returning path is judged: one value per case
            vals.setdefault((hw, None if hw else cs), set()).add(
                cm.show0(p.value))
        elif cm.explicit_raise(p) is not None and \
                p.exc['names'] == {'NoAvailableStreamIDError'}:
            last = [e for e in p.events if e.kind == 'assume'][-1]
            exh.add(cm.show0(last.cond))
    ok = vals == {(False, True): {'1'}, (False, False): {'2'},
                  (True, None): {'self.highest_outbound_stream_id + 2'}}
    vals = {k: sorted(v) for k, v in vals.items()}
    ctx.ob('ARITH.next-id', fi.qual, 'smallest unused id of own parity', ok,
           '1/2 by role when nothing was opened, else watermark + 2 '
           '(found %s)' % vals, node=fi.node)
    ok = '(self.highest_outbound_stream_id - %d > 0)' % (LIMIT - 2) in exh
    ctx.ob('ARITH.next-id', fi.qual, 'exhaustion', ok,
           'NoAvailableStreamIDError iff the next id exceeds 2**31-1 '
           '(found %s)' % sorted(exh), node=fi.node)
    # ---- PRIORITY paths write no stream bookkeeping
    W = eng.I.writes
    for name in ('_receive_priority_frame', 'prioritize'):
        f5 = eng.m.func(H + name)
        w = W.attrs(f5.qual) & {'streams', 'highest_inbound_stream_id',
                                'highest_outbound_stream_id',
                                '_closed_streams'}
        ctx.ob('OWN.priority', f5.qual, 'no stream bookkeeping', not w,
               'PRIORITY neither opens nor closes streams (writes %s)'
               % sorted(w), node=f5.node)
        lk = [1 for p in eng.I.run(f5) for e in cm.calls_to(
            p, '_get_stream_by_id', '_get_or_create_stream',
            '_begin_new_stream')]
        ctx.ob('OWN.priority', f5.qual, 'no stream lookup', not lk,
               'PRIORITY is handled without touching the stream table',
               node=f5.node)
    lookup_rule(ctx, eng)
    check_receive_frame(eng, ctx)
    cm.include(ctx, eng, 'C20', {'FSM.reset-record', 'PAIR.closed-record'},
               'HEADERS for a stream that was reset are a stream error only '
               'because every local reset is recorded as one, and stays '
               'recorded under its own id when the stream is forgotten')
    cm.include(ctx, eng, 'C27', {'OWN.fifo', 'TAB.cap', 'ARITH.evict'},
               'how an old stream ended is remembered for the documented '
               'MAX_CLOSED_STREAMS streams, oldest forgotten first')
    cm.include(ctx, eng, 'C01',
               lambda o: o.rule == 'ATOM.STR' and isinstance(o.desc, str) and
               (o.desc.startswith('raise after allocation|explicit raise') or
                o.desc.startswith('no raise after')),
               'an open that the connection itself refuses (limit, gate) '
               'must be refused before the id is taken: the next available '
               'id is the smallest one never used')
    cm.include(ctx, eng, 'C22',
               lambda o: o.rule in ('ORD.gates', 'ORD.gate') and
               o.where.endswith(('_receive_push_promise_frame',
                                 'push_stream')),
               'a promised id is checked like any new stream id: the promise '
               'handler creates it through _begin_new_stream, never re-uses '
               'an existing stream')
