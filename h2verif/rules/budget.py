"""Frame-size budget of every emit site (rule ARITH.budget; C02, C13, C22,
C29): at each call of _prepare_for_sending the body length of every frame
must be bounded by max_outbound_frame_size *before* the bytes are appended -
by a fixed size, a dominating guard on the same quantity, or a slice bound
minus the per-flag overhead from the hyperframe summary.  The only check in
the code is an assertion after the append.
"""
from .. import extlib, terms as T
from . import common as cm
from . import flow

H = 'connection.H2Connection.'


def build_headers_facts(eng):
    """Shape of what H2Stream._build_headers_frames returns, from its own
    paths: element 0 is the first_frame argument, the rest are
    ContinuationFrame objects, every data field is a slice of at most
    self.max_outbound_frame_size bytes (or the empty block)."""
    fi = eng.m.func('stream.H2Stream._build_headers_frames')
    ok = True
    why = []
    n = 0
    for p in cm.normal_paths(eng.I.run(fi)):
        n += 1
        el = cm.list_elems(p, p.value)
        if el is None or not el or el[0] != ('p', 'first_frame'):
            ok = False
            why.append('first element is not first_frame')
            continue
        for x in el[1:]:
            if x[0] == 'splat' and x[1][0] == 'comp':
                x = x[1][1]     # extend(<frame> for block in ...)
            if not (x[0] == 'obj' and x[2] == 'ContinuationFrame'):
                ok = False
                why.append('non-CONTINUATION frame after the first')
            else:
                d = p.state.objs.get(x, {}).get('data')
                if d is not None and not _bounded_block(p, d):
                    ok = False
                    why.append('frame data %s is not a bounded slice'
                               % cm.show0(d)[:60])
        # data assignments
        for e in p.events:
            if e.kind == 'write' and e.attr == 'data':
                v = e.value
                if not _bounded_block(p, v):
                    ok = False
                    why.append('frame data %s is not a bounded slice'
                               % cm.show0(v)[:60])
    return ok and n > 0, sorted(set(why))


def _bounded_block(p, v):
    """v is header_blocks[k] / an element of header_blocks[1:], where
    header_blocks is the comprehension of slices of width
    self.max_outbound_frame_size, or the literal [b'']."""
    if v == T.C(b''):
        return True
    if v[0] in ('lv', 'sub'):
        # a loop variable over / an element of a sequence of blocks
        return _bounded_seq(p, v[2] if v[0] == 'lv' else v[1])
    return False


def _bounded_seq(p, base):
    """Every element of the sequence is a bounded block."""
    if base[0] == 'sub':
        base = base[1]
    if base[0] == 'slice':
        return _bounded_seq(p, base[1])
    if base[0] == 'or' and isinstance(base[1], tuple):
        # `blocks or [b'']`
        return all(_bounded_seq(p, alt) for alt in base[1])
    if base[0] == 'obj':
        el = p.state.objs.get(base, {}).get('$elems')
        if el is None:
            return False
        # a list filled by a loop: every value appended to it anywhere on
        # the path must be a slice of the bounded width (or b'')
        apps = [e.value for e in p.events
                if e.kind == 'append' and e.get('container') == base]
        lits = [x for x in el if x[0] != 'splat']
        return all(x == T.C(b'') or _bounded_slice(x) for x in lits) and \
            all(x == T.C(b'') or _bounded_slice(x) for x in apps)
    if base[0] == 'comp':
        return _bounded_slice(base[1])
    return False


def block_comps(p):
    """The comprehensions whose elements end up as frame data on the path."""
    out = []

    def walk(t):
        if not isinstance(t, tuple) or not t:
            return
        if t[0] == 'comp':
            if t not in out:
                out.append(t)
            return
        if t[0] in ('lv',):
            walk(t[2])
        elif t[0] in ('sub', 'slice'):
            walk(t[1])
        elif t[0] == 'or' and isinstance(t[1], tuple):
            for a in t[1]:
                walk(a)
    for e in p.events:
        if e.kind == 'write' and e.attr == 'data':
            walk(e.value)
        elif e.kind == 'new' and e.get('cls') == 'ContinuationFrame':
            d = p.state.objs.get(e.obj, {}).get('data')
            if d is not None:
                walk(d)
    return out


def exact_partition(comp):
    """[X[i:i+W] for i in range(0, len(X), W)]: consecutive slices of width
    W that cover X exactly - ceil(len(X)/W) of them, none empty."""
    elt, it = comp[1], comp[2]
    if elt[0] != 'slice' or elt[2] is None or elt[3] is None:
        return False
    x, lo, hi = elt[1], elt[2], elt[3]
    if not (it[0] == 'call' and it[1] == 'range' and len(it[2]) == 3):
        return False
    a, b, c = it[2]
    width = T.add(hi, lo, -1)
    return a == T.C(0) and b[0] == 'call' and b[1] == 'len' and \
        b[2] == (x,) and width is not None and c == width and \
        lo[0] == 'lv' and lo[2] == it


def _bounded_slice(elt):
    # encoded_headers[i:i + self.max_outbound_frame_size]
    if elt[0] == 'slice' and elt[2] is not None and elt[3] is not None:
        width = T.add(elt[3], elt[2], -1)
        return width is not None and \
            cm.show0(width) == 'self.max_outbound_frame_size'
    return False


def classify_site(eng, fi, p, ev, header_ok):
    """-> list of (frame description, bounded?, why)"""
    a = ev.args[0] if ev.args else None
    el = cm.list_elems(p, a)
    out = []
    if el is None:
        # an untracked list: frames returned by a stream method
        terms = [a]
        if a is not None and a[0] == 'concat':
            terms = [a[1], a[2]]
        for t in terms:
            out.extend(_opaque_frames(eng, fi, p, t, header_ok))
        return out
    for x in el:
        if x[0] == 'splat':
            out.extend(_opaque_frames(eng, fi, p, x[1], header_ok))
        elif x[0] == 'obj':
            out.append(_frame_obj(eng, p, x))
        else:
            out.append((cm.show0(x)[:40], False, 'unknown frame'))
    return out


def _frame_obj(eng, p, x):
    cls = x[2]
    f = p.state.objs.get(x, {})
    fixed = extlib.fixed_body_size(cls)
    if fixed is not None:
        return (cls, True, 'fixed body of %d bytes' % fixed)
    if cls == 'SettingsFrame':
        s = f.get('settings')
        fl = f.get('flags', ('set', frozenset()))
        if s is None or s == T.NONE:
            return ('SettingsFrame(ACK)' if T.C('ACK') in fl[1]
                    else 'SettingsFrame()', True, 'empty body')
        return ('SettingsFrame(settings)', False,
                '6 bytes per setting of a caller-supplied mapping')
    if cls == 'GoAwayFrame':
        ad = f.get('additional_data')
        if ad is None or ad == T.C(b''):
            return ('GoAwayFrame', True, '8 bytes')
        return ('GoAwayFrame(additional_data)', False,
                '8 bytes plus caller-supplied additional_data')
    if cls == 'AltSvcFrame':
        return ('AltSvcFrame', False, '2 bytes plus origin and field value '
                'of any length')
    if cls == 'DataFrame':
        if 'data' not in f:
            return ('DataFrame()', True, 'empty body')
        # guarded by the frame-size check on the same amount (rule C03)
        amount = None
        ln = ('call', 'len', (f['data'],), None)
        fl = f.get('flags', ('set', frozenset()))
        if T.C('PADDED') in fl[1]:
            amount = T.add(T.add(ln, f.get('pad_length', T.C(0))), T.C(1))
        else:
            amount = ln
        fa = T.to_aff(amount)
        atoms = {cm.show0(k): -c for k, c in fa[0].items()}
        atoms['self.max_outbound_frame_size'] = 1
        key = cm.mk_aff_key('>=', atoms, -fa[1])
        if key in cm.assume_keys(p):
            return ('DataFrame', True, 'dominating frame-size guard')
        return ('DataFrame', False, 'no dominating guard on its length')
    return (cls, False, 'no size bound known')


def _opaque_frames(eng, fi, p, t, header_ok):
    """Frames behind an untracked list term (result of a stream method)."""
    tuple_index = None
    if t is not None and t[0] == 'sub' and t[1][0] == 'call' and \
            T.is_int_const(t[2]):
        tuple_index = t[2][1]
        t = t[1]
    if t is None or t[0] != 'call':
        return [(cm.show0(t)[:40] if t else '?', False, 'unknown frames')]
    out = []
    for q in t[1].split('|'):
        callee = eng.m.funcs.get(q)
        if callee is None:
            out.append((q, False, 'unknown callee'))
            continue
        if tuple_index is not None:
            out.extend(_returned_frames(eng, callee, tuple_index))
            continue
        if callee.qual in ('stream.H2Stream.send_headers',
                           'stream.H2Stream.push_stream_in_band',
                           'stream.H2Stream._build_headers_frames'):
            first = 'HeadersFrame' if callee.name == 'send_headers' \
                else 'PushPromiseFrame'
            if callee.name == '_build_headers_frames':
                a0 = t[2][3] if len(t[2]) > 3 else None
                first = a0[2] if (a0 is not None and a0[0] == 'obj') \
                    else 'PushPromiseFrame'
                cl = {first}
            else:
                cl = eng.D.elem_classes(callee, 0, 0)
            if cl != {first} or not header_ok:
                out.append((first, False, 'header frames of unknown shape'))
                continue
            over = 0
            why = 'block sliced to max_outbound_frame_size'
            if first == 'PushPromiseFrame':
                over = extlib.FRAME_OVERHEAD['PushPromiseFrame']['_fixed']
            # PRIORITY flag added on this path?
            for e in p.events:
                if e.kind == 'call' and cm.ev_callee_names(e) & {'add'} and \
                        e.args and e.args[0] == T.C('PRIORITY') and \
                        e.frame == fi.qual:
                    over += extlib.FRAME_OVERHEAD['HeadersFrame']['PRIORITY']
            if over:
                out.append((first + '(+%d)' % over, False,
                            'the block is sliced to max_outbound_frame_size '
                            'but the frame body carries %d more bytes'
                            % over))
            else:
                out.append((first + '/CONTINUATION', True, why))
            continue
        # other stream methods: inline them
        I = flow.stream_inliner(eng)
        shapes = set()
        for p2 in cm.normal_paths(I.run(callee)):
            el = cm.list_elems(p2, p2.value)
            if el is None:
                shapes.add(('?', False, 'untracked frames from %s' % q))
                continue
            for x in el:
                if x[0] == 'obj':
                    shapes.add(_frame_obj(eng, p2, x))
                else:
                    shapes.add((cm.show0(x)[:30], False, 'unknown frame'))
        out.extend(sorted(shapes))
    return out


def _returned_frames(eng, callee, tuple_index, depth=0):
    """Frames in element <tuple_index> of the tuple a handler returns."""
    I = flow.stream_inliner(eng)
    shapes = set()
    for p2 in cm.normal_paths(I.run(callee)):
        v = p2.value
        if v is None or v[0] != 'tuple' or tuple_index >= len(v[1]):
            if v is not None and v[0] == 'call' and depth < 2:
                # return self._handle_x(...): follow the callee
                for q in v[1].split('|'):
                    c2 = eng.m.funcs.get(q)
                    if c2 is not None:
                        shapes |= set(_returned_frames(eng, c2, tuple_index,
                                                       depth + 1))
                continue
            shapes.add(('?', False, 'handler does not return a tuple'))
            continue
        fr = v[1][tuple_index]
        el = cm.list_elems(p2, fr)
        if el is None:
            if fr[0] == 'sub' and fr[1][0] == 'call' and \
                    T.is_int_const(fr[2]) and depth < 2:
                for q in fr[1][1].split('|'):
                    c2 = eng.m.funcs.get(q)
                    if c2 is not None:
                        shapes |= set(_returned_frames(eng, c2, fr[2][1],
                                                       depth + 1))
                continue
            if fr[0] == 'call' and depth < 2:
                for q in fr[1].split('|'):
                    c2 = eng.m.funcs.get(q)
                    if c2 is None:
                        continue
                    for p3 in cm.normal_paths(I.run(c2)):
                        e3 = cm.list_elems(p3, p3.value)
                        if e3 is None:
                            shapes.add(('?', False, 'untracked frames from '
                                        '%s' % q))
                        else:
                            for x in e3:
                                shapes.add(_frame_obj(eng, p3, x)
                                           if x[0] == 'obj' else
                                           ('?', False, 'unknown frame'))
                continue
            shapes.add((cm.show0(fr)[:40], False, 'untracked frames'))
            continue
        for x in el:
            if x[0] == 'obj':
                shapes.add(_frame_obj(eng, p2, x))
            elif x[0] == 'splat':
                shapes.add((cm.show0(x[1])[:40], False, 'untracked frames'))
            else:
                shapes.add((cm.show0(x)[:40], False, 'unknown frame'))
    return sorted(shapes)


def emit_sites(eng):
    """Every call of _prepare_for_sending in H2Connection with the
    classification of its frames, per path.  -> list of dicts"""
    header_ok, why = build_headers_facts(eng)
    cls = eng.m.cls('connection.H2Connection')
    I = flow.stream_inliner(eng)
    sites = {}
    for name, fi in sorted(eng.m.methods_of(cls.qual).items()):
        if name == '_prepare_for_sending':
            continue
        try:
            paths = I.run(fi)
        except Exception:
            paths = eng.I.run(fi)
        for p in paths:
            for e in p.events:
                if e.frame != fi.qual or not cm.is_call_to(
                        e, '_prepare_for_sending'):
                    continue
                if p.exit == 'raise' and p.exc.get('via_call') is e:
                    continue
                frames = classify_site(eng, fi, p, e, header_ok)
                key = (fi.qual, e.node.lineno)
                s = sites.setdefault(key, {'fi': fi, 'node': e.node,
                                           'frames': set()})
                for fr in frames:
                    s['frames'].add(fr)
    return sites, header_ok, why
