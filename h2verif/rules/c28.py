"""C28 - output is a deterministic function of the call sequence.

Decides a sufficient condition: no module of the package imports or calls a
clock, a random source, the OS, the environment, threads, I/O, id() or
hash(); every iteration, join or formatting runs over an insertion-ordered
container, never over a set (sets are used for membership, truthiness and
set algebra only); no mutable object is shared between connections through
a class attribute, a module global or a default argument.
"""
import ast

from ..srcmodel import walk_own, unparse
from . import common as cm

FORBIDDEN_MODULES = {
    'time', 'datetime', 'random', 'secrets', 'os', 'sys', 'threading',
    'multiprocessing', 'asyncio', 'socket', 'select', 'selectors', 'uuid',
    'tempfile', 'subprocess', 'io', 'pathlib', 'signal', 'gc', 'weakref',
    'platform', 'getpass', 'locale', 'queue', 'concurrent', 'sched',
    'ctypes', 'mmap', 'resource', 'logging',
}
FORBIDDEN_CALLS = {'id', 'hash', 'input', 'open', 'print', 'globals',
                   'vars', 'exec', 'eval', '__import__', 'breakpoint'}
ORDER_SENSITIVE_CONSUMERS = {'list', 'tuple', 'join', 'enumerate', 'iter',
                             'next', 'zip', 'map', 'filter', 'str', 'repr',
                             'format', 'bytes', 'bytearray', 'extend'}


def is_setty(eng, e, fi, depth=0):
    """Is the expression a set / frozenset (by type, literal or algebra)?"""
    if depth > 6 or e is None:
        return False
    if isinstance(e, (ast.Set, ast.SetComp)):
        return True
    if isinstance(e, ast.Call) and isinstance(e.func, ast.Name) and \
            e.func.id in ('set', 'frozenset'):
        return True
    if isinstance(e, ast.BinOp) and isinstance(
            e.op, (ast.BitAnd, ast.BitOr, ast.Sub, ast.BitXor)):
        return is_setty(eng, e.left, fi, depth + 1) or \
            is_setty(eng, e.right, fi, depth + 1)
    if isinstance(e, ast.Call) and isinstance(e.func, ast.Attribute) and \
            e.func.attr in ('union', 'intersection', 'difference',
                            'symmetric_difference', 'copy') and \
            is_setty(eng, e.func.value, fi, depth + 1):
        return True
    for a in eng.r.type_of(e, fi):
        if a[0] == 'prim' and a[1] in ('set', 'frozenset'):
            return True
    if isinstance(e, ast.Name):
        # every binding of the name in this function is a set expression
        binds = []
        for n in walk_own(fi.node):
            if isinstance(n, ast.Assign) and any(
                    isinstance(t, ast.Name) and t.id == e.id
                    for t in n.targets):
                binds.append(n.value)
        if binds and any(is_setty(eng, b, fi, depth + 1) for b in binds):
            return True
        # a parameter: set-typed at some call site
        if e.id in fi.params:
            for f2, call in cm.find_funcs_calling(eng, fi.name):
                params = [p for p in fi.params if p != 'self']
                if e.id in params:
                    i = params.index(e.id)
                    if i < len(call.args) and is_setty(
                            eng, call.args[i], f2, depth + 1):
                        return True
    return False


def run(ctx, eng):
    ctx.rule('PURE: imports and calls of every module; iteration / join / '
             'formatting sites by container type; shared mutable objects')
    m = eng.m
    # ---- imports
    n_imp = 0
    for name, mod in sorted(m.modules.items()):
        bad = []
        for nd in ast.walk(mod.tree):
            mods = []
            if isinstance(nd, ast.Import):
                mods = [a.name for a in nd.names]
            elif isinstance(nd, ast.ImportFrom) and nd.level == 0:
                mods = [nd.module or '']
            for x in mods:
                n_imp += 1
                if x.split('.')[0] in FORBIDDEN_MODULES:
                    bad.append(x)
        ctx.ob('PURE.imports', name, 'no clock/random/OS/thread/IO import',
               not bad, 'imports %s' % sorted(set(bad)) if bad else
               'only data-structure, codec and protocol libraries',
               loc='src/h2/%s.py:1' % name)
    ctx.record('imports', n_imp)
    ctx.floor('imports', 20)
    # ---- calls
    bad = []
    n_calls = 0
    for q, fi in sorted(m.funcs.items()):
        for nd in walk_own(fi.node):
            if isinstance(nd, ast.Call):
                n_calls += 1
                if isinstance(nd.func, ast.Name) and \
                        nd.func.id in FORBIDDEN_CALLS and \
                        nd.func.id not in eng.r.env(fi):
                    bad.append((q, nd.func.id, nd))
    for q, nm, nd in bad:
        ctx.ob('PURE.calls', q, 'calls %s()' % nm, False,
               '%s() makes the result depend on the process' % nm, node=nd)
    ctx.ob('PURE.calls', 'h2', 'no id()/hash()/I/O calls', not bad,
           '%d calls examined' % n_calls)
    ctx.record('calls', n_calls)
    # ---- iteration / formatting over sets
    sites = 0
    def addressy(a, fi):
        """`self` (or a fresh object()) formatted with %s/%r in a class that
        defines neither __repr__ nor __str__: the default repr carries the
        object's address, which differs from run to run."""
        if isinstance(a, ast.Call) and isinstance(a.func, ast.Name) and \
                a.func.id == 'object':
            return True
        if isinstance(a, ast.Name) and a.id == 'self' and fi.cls:
            c = m.classes.get(fi.cls)
            seen = set()
            while c is not None and c.qual not in seen:
                seen.add(c.qual)
                if '__repr__' in c.methods or '__str__' in c.methods:
                    return False
                nxt = None
                for b in c.bases:
                    for cq, c2 in m.classes.items():
                        if cq.split('.')[-1] == b:
                            nxt = c2
                    if b in ('Enum', 'IntEnum', 'Exception', 'dict', 'int',
                             'MutableMapping', 'OrderedDict', 'tuple'):
                        return False    # a repr that shows the value
                c = nxt
            return True
        return False
    found = []
    for q, fi in sorted(m.funcs.items()):
        for nd in walk_own(fi.node):
            it = None
            how = None
            if isinstance(nd, (ast.For, ast.comprehension)):
                it, how = nd.iter, 'iterates'
            elif isinstance(nd, ast.Call):
                f = nd.func
                nm = f.id if isinstance(f, ast.Name) else (
                    f.attr if isinstance(f, ast.Attribute) else None)
                if nm in ORDER_SENSITIVE_CONSUMERS and nd.args:
                    it, how = nd.args[0], '%s()' % nm
                elif nm == 'pop' and not nd.args and \
                        isinstance(f, ast.Attribute):
                    # set.pop() hands out an arbitrary element
                    it, how = f.value, 'pop() picks an arbitrary element'
                elif nm == 'format' and isinstance(f, ast.Attribute) and \
                        isinstance(f.value, ast.Constant):
                    for a in list(nd.args) + [k.value for k in nd.keywords]:
                        sites += 1
                        if is_setty(eng, a, fi):
                            found.append((q, 'formats a set into a message',
                                          a, nd))
                    continue
            elif isinstance(nd, ast.BinOp) and isinstance(nd.op, ast.Mod) \
                    and isinstance(nd.left, ast.Constant) and \
                    isinstance(nd.left.value, (str, bytes)):
                args = nd.right.elts if isinstance(nd.right, ast.Tuple) \
                    else [nd.right]
                for a in args:
                    sites += 1
                    if is_setty(eng, a, fi):
                        found.append((q, 'formats a set into a message',
                                      a, nd))
                    if addressy(a, fi):
                        found.append((q, 'formats an object without a repr '
                                      'of its own (its address) into a '
                                      'message', a, nd))
                continue
            elif isinstance(nd, ast.FormattedValue):
                sites += 1
                if is_setty(eng, nd.value, fi):
                    found.append((q, 'formats a set into a message',
                                  nd.value, nd))
                continue
            elif isinstance(nd, ast.Starred):
                it, how = nd.value, 'unpacks'
            if it is None:
                continue
            sites += 1
            if is_setty(eng, it, fi):
                found.append((q, '%s over a set' % how, it, nd))
    ctx.record('ordered_consumption_sites', sites)
    ctx.floor('ordered_consumption_sites', 30)
    def what(q, expr):
        # a local is named by the expression it was (once) assigned, so that
        # the finding does not depend on what the local is called
        if isinstance(expr, ast.Name):
            v = eng.D._single_assign(m.funcs[q], expr.id)
            if v is not None:
                return unparse(v)
        return unparse(expr)
    for q, how, expr, nd in found:
        ctx.ob('PURE.set-order', q, '%s|%s' % (how, what(q, expr)[:50]),
               False, 'hash order of %s reaches an observable (%s): the '
               'result differs between PYTHONHASHSEED values'
               % (unparse(expr)[:60], how), node=nd)
    ctx.ob('PURE.set-order', 'h2', 'order-sensitive sites examined', True,
           '%d iteration/join/format sites examined, %d over sets'
           % (sites, len(found)))
    # ---- shared mutable objects
    def mutable_class(cq):
        c = m.classes.get(cq)
        if c is None:
            return False
        for name, f in m.methods_of(cq).items():
            if name == '__init__':
                continue
            for nd in ast.walk(f.node):
                if isinstance(nd, ast.Attribute) and \
                        isinstance(nd.ctx, ast.Store) and \
                        isinstance(nd.value, ast.Name) and \
                        nd.value.id == 'self':
                    return True
        for f in c.setters.values():
            return True
        return False

    shared = []
    for cq, c in sorted(m.classes.items()):
        if m.is_enum(c):
            continue
        for an, v in c.attrs.items():
            if isinstance(v, ast.Call):
                for a in eng.r.type_of(v, _Ctx(c.module, cq)):
                    if a[0] == 'inst' and mutable_class(a[1]):
                        shared.append(('%s.%s' % (cq, an), a[1], v))
            if isinstance(v, (ast.List, ast.Dict, ast.Set, ast.ListComp,
                              ast.DictComp, ast.SetComp)) or (
                    isinstance(v, ast.Call) and isinstance(
                        v.func, ast.Name) and v.func.id in (
                            'dict', 'list', 'set', 'OrderedDict',
                            'defaultdict', 'bytearray')):
                # a mutable container at class level is one object for all
                # connections; harmless as a constant table, shared state
                # as soon as anything writes into it (unless every instance
                # rebinds the name to its own object)
                rebound = any(
                    isinstance(n, ast.Attribute) and n.attr == an and
                    isinstance(n.ctx, ast.Store) and
                    isinstance(n.value, ast.Name) and n.value.id == 'self'
                    and not isinstance(getattr(n, '_parent', None),
                                       ast.Subscript)
                    for n in ast.walk(c.node))
                for q2, f2 in ([] if rebound else m.funcs.items()):
                    for nd in walk_own(f2.node):
                        tgt = None
                        if isinstance(nd, ast.Subscript) and isinstance(
                                nd.ctx, (ast.Store, ast.Del)):
                            tgt = nd.value
                        elif isinstance(nd, ast.Call) and isinstance(
                                nd.func, ast.Attribute) and nd.func.attr in (
                                    'append', 'add', 'update', 'pop',
                                    'clear', 'extend', 'remove',
                                    'setdefault', 'insert', 'popitem'):
                            tgt = nd.func.value
                        if isinstance(tgt, ast.Attribute) and \
                                tgt.attr == an and unparse(tgt.value) in (
                                    'self', 'cls', c.name, 'type(self)',
                                    'self.__class__'):
                            shared.append(('%s.%s' % (cq, an),
                                           'class-level container written '
                                           'by %s' % q2.split('.')[-1], nd))
    for q, fi in m.funcs.items():
        for p, d in fi.defaults().items():
            if isinstance(d, (ast.List, ast.Dict, ast.Set)) or (
                    isinstance(d, ast.Call) and not (
                        isinstance(d.func, ast.Name) and d.func.id in (
                            'frozenset', 'tuple', 'bytes', 'str', 'int'))):
                shared.append(('%s(%s=...)' % (q, p), 'default argument', d))
    for name, mod in m.modules.items():
        for gname, vals in mod.assigns.items():
            for v in vals:
                if isinstance(v, ast.Call):
                    for a in eng.r.type_of(v, _Ctx(name)):
                        if a[0] == 'inst' and mutable_class(a[1]):
                            shared.append(('%s.%s' % (name, gname), a[1], v))
    for what, cls, nd in shared:
        ctx.ob('PURE.shared', what, 'shared mutable %s' % cls.split('.')[-1],
               False, '%s is one mutable object shared by every connection: '
               'what one connection\'s owner changes leaks into the others'
               % what, node=nd)
    ctx.ob('PURE.shared', 'h2', 'no mutable object shared between '
           'connections', not shared, 'class attributes, module globals and '
           'default arguments examined')
    # module-level containers written from inside functions
    written = []
    for name, mod in m.modules.items():
        for gname, vals in mod.assigns.items():
            if not any(isinstance(v, (ast.List, ast.Dict, ast.Set,
                                      ast.ListComp)) for v in vals):
                continue
            for q, fi in m.funcs.items():
                if fi.module != name:
                    continue
                for nd in walk_own(fi.node):
                    if isinstance(nd, ast.Subscript) and \
                            isinstance(nd.ctx, (ast.Store, ast.Del)) and \
                            isinstance(nd.value, ast.Name) and \
                            nd.value.id == gname:
                        written.append((q, gname, nd))
                    if isinstance(nd, ast.Call) and \
                            isinstance(nd.func, ast.Attribute) and \
                            isinstance(nd.func.value, ast.Name) and \
                            nd.func.value.id == gname and nd.func.attr in (
                                'append', 'add', 'update', 'pop', 'clear',
                                'extend', 'remove', 'setdefault'):
                        written.append((q, gname, nd))
    for q, g, nd in written:
        ctx.ob('PURE.shared', q, 'writes module table %s' % g, False,
               'a module-level table is changed at run time', node=nd)
    ctx.ob('PURE.shared', 'h2', 'module tables are constant after import',
           not written, 'no function writes a module-level container')
    # process-wide memo caches: what a call returns then depends on what
    # other connections of the same process asked before (keys that compare
    # equal are conflated: a tuple and a tuple subclass, b'x' decoded under
    # two encodings, ...)
    memo = []
    for q, fi in sorted(m.funcs.items()):
        for d in fi.decorators:
            if d.split('.')[-1] in ('lru_cache', 'cache', 'cached_property',
                                    'memoize', 'memoized'):
                memo.append((q, d, fi.node))
    for q, d, nd in memo:
        ctx.ob('PURE.shared', q, 'memoised with %s' % d.split('.')[-1],
               False, 'the result cache of %s is shared by every connection '
               'of the process and outlives them: output depends on the '
               'process history' % q, node=nd)
    ctx.ob('PURE.shared', 'h2', 'no process-wide memo cache', not memo,
           'decorators of all functions examined')
    ctx.assume('hyperframe and hpack are deterministic')


class _Ctx:
    def __init__(self, module, cls=None):
        self.module = module
        self.cls = cls
        self.qual = '<module %s>' % module
        self.params = []
        self.kwonly = []
        self.parent = None
