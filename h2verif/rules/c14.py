"""C14 - outbound header blocks are normalised and RFC 7540 8.1.2 conformant.

Decides: the name sets (both spellings); the stages of
normalize_outbound_headers and validate_outbound_headers and their order
(lower-casing and stripping before any name comparison); every
normalisation stage transforms exactly what it names on every header it
yields and keeps the tuple class; _secure_headers marks exactly the secure
set and cookies shorter than 20 bytes; in _build_headers_frames
normalisation precedes validation, each under its config flag, and both
precede the encoding; the validation flags come from the event class of the
state-machine step; each validation clause has its refusal.
"""
from .. import terms as T
from . import common as cm
from . import headers as hd
from .headers import U, HDR, N0, V1

IS_HT = 'isinstance(%s, HeaderTuple)' % HDR


def transform_stage(ctx, eng, name, name_fn, value_fn, descr):
    """Every yielded header is class(name_fn(name), value_fn(value))."""
    fi, paths = hd.loop_paths(eng, U + name)
    bad = []
    kinds = set()
    for p in paths:
        if p.exit == 'raise':
            continue
        conds, ys = hd.body_facts(p)
        if len(ys) != 1:
            bad.append('%d headers yielded for one header' % len(ys))
            continue
        extra = [c for c in conds if c not in (IS_HT, 'not ' + IS_HT)]
        if extra:
            bad.append('some headers take another route (%s): every header '
                       'the stage yields must be transformed' % extra)
        v = ys[0].value
        want_n = name_fn(N0)
        want_v = value_fn(V1)
        if IS_HT in conds:
            kinds.add('tuple-class')
            ok = v[0] == 'call' and v[1].endswith('__class__') and \
                [cm.show0(x) for x in v[2][-2:]] == [want_n, want_v] and \
                cm.show0(v[2][0]) == HDR
            if not ok:
                bad.append('HeaderTuple branch yields %s' % cm.show0(v)[:70])
        else:
            kinds.add('plain')
            ok = v[0] == 'tuple' and [cm.show0(x) for x in v[1]] == \
                [want_n, want_v]
            if not ok:
                bad.append('plain-tuple branch yields %s'
                           % cm.show0(v)[:70])
    ctx.ob('PIPE.transform', fi.qual, descr, kinds == {'tuple-class',
                                                       'plain'} and not bad,
           '; '.join(sorted(set(bad))) or 'applied to every header, tuple '
           'class kept', node=fi.node)


def run(ctx, eng):
    ctx.rule('TAB name sets; PIPE stages/order/transformations; ARITH/FLOW '
             'never-indexed marking; ORD normalise -> validate -> encode '
             'under the config flags; ORD validation clauses')
    m = eng.m
    hd.check_name_sets(ctx, eng)
    hd.check_pipelines(ctx, eng, ['normalize_outbound_headers',
                                  'validate_outbound_headers'])
    hd.check_common_validators(ctx, eng, inbound=False)
    hd.check_flags(ctx, eng)
    transform_stage(ctx, eng, '_lowercase_header_names',
                    lambda n: '.lower(%s)' % n, lambda v: v,
                    'names are lower-cased')
    transform_stage(ctx, eng, '_strip_surrounding_whitespace',
                    lambda n: '.strip(%s)' % n, lambda v: '.strip(%s)' % v,
                    'names and values are stripped')
    # ---- strip connection headers
    fi, paths = hd.loop_paths(eng, U + '_strip_connection_headers')
    bad = []
    kinds = set()
    for p in paths:
        if p.exit == 'raise':
            continue
        conds, ys = hd.body_facts(p)
        if conds == ['not (%s in CONNECTION_HEADERS)' % N0]:
            kinds.add('keep')
            if len(ys) != 1 or cm.show0(ys[0].value) != HDR:
                bad.append('other headers must be passed on unchanged')
        elif conds == ['(%s in CONNECTION_HEADERS)' % N0]:
            kinds.add('drop')
            if ys:
                bad.append('a connection-specific header is passed on')
        else:
            bad.append('decides on %s' % conds)
    ctx.ob('PIPE.transform', fi.qual, 'connection-specific fields dropped',
           kinds == {'keep', 'drop'} and not bad, '; '.join(sorted(set(bad)))
           or 'ok', node=fi.node)
    # ---- secure headers
    fi, paths = hd.loop_paths(eng, U + '_secure_headers')
    bad = []
    kinds = set()
    SEC = '(%s in _SECURE_HEADERS)' % N0
    COOKIE = "(%s in (b'cookie', 'cookie'))" % N0
    SHORT = cm.mk_aff_key('>', {'len(%s)' % V1: -1}, 20)
    for p in paths:
        if p.exit == 'raise':
            continue
        conds, ys = hd.body_facts(p)
        keys = [cm.aff_key(e.cond) for e in p.events if e.kind == 'assume'
                and e.in_loop]
        if len(ys) != 1:
            bad.append('every header must be yielded exactly once')
            continue
        v = ys[0].value
        never = v[0] == 'call' and v[1] == 'NeverIndexedHeaderTuple' and \
            len(v[2]) == 1 and v[2][0][0] == 'splat' and \
            cm.show0(v[2][0][1]) == HDR
        plain = cm.show0(v) == HDR
        secure = SEC in conds
        short_cookie = COOKIE in conds and SHORT in keys
        if secure or short_cookie:
            kinds.add('secure' if secure else 'cookie')
            if not never:
                bad.append('a sensitive field is not marked never-indexed')
        else:
            kinds.add('plain')
            if not plain:
                bad.append('a field outside the secure set is re-wrapped '
                           '(%s)' % conds)
            if COOKIE in conds and cm.mk_aff_key(
                    '>=', {'len(%s)' % V1: 1}, -20) not in keys:
                bad.append('cookie length threshold is not 20')
    ctx.ob('ARITH.never-indexed', fi.qual, 'secure set and short cookies',
           kinds == {'secure', 'cookie', 'plain'} and not bad,
           '; '.join(sorted(set(bad))) or 'NeverIndexedHeaderTuple(*header) '
           'iff name in _SECURE_HEADERS or (cookie and len(value) < 20)',
           node=fi.node)
    # ---- _build_headers_frames
    f2 = m.func('stream.H2Stream._build_headers_frames')
    bad = []
    n = 0
    configs = set()
    for p in cm.normal_paths(eng.I.run(f2)):
        conds = [cm.show0(e.cond) for e in p.events if e.kind == 'assume']
        nz = 'self.config.normalize_outbound_headers' in conds
        vz = 'self.config.validate_outbound_headers' in conds
        for flag in ('self.config.normalize_outbound_headers',
                     'self.config.validate_outbound_headers'):
            if flag not in conds and 'not ' + flag not in conds:
                bad.append('%s is not consulted' % flag)
        configs.add((nz, vz))
        n += 1
        order = []
        for e in p.events:
            if e.kind == 'call':
                nm = cm.ev_callee_names(e)
                for x in ('normalize_outbound_headers',
                          'validate_outbound_headers', 'encode'):
                    if x in nm:
                        order.append((x, e))
        exp = (['normalize_outbound_headers'] if nz else []) + \
            (['validate_outbound_headers'] if vz else []) + ['encode']
        if [x for x, _ in order] != exp:
            bad.append('stages run %s, expected %s'
                       % ([x for x, _ in order], exp))
            continue
        # each stage consumes the previous one's output
        prev = ('p', 'headers')
        for x, e in order:
            a0 = e.args[0] if e.args else None
            if x == 'encode':
                # materialised list of what the last stage returned
                if not (a0 is not None and a0[0] == 'call' and
                        a0[1] == 'list' and a0[2][0] == prev):
                    bad.append('the encoder is not given list(<output of '
                               'the last stage>)')
            else:
                if a0 != prev:
                    bad.append('%s does not consume the previous stage\'s '
                               'output' % x)
                if len(e.args) < 2 or e.args[1] != ('p',
                                                    'hdr_validation_flags'):
                    bad.append('%s is not given the validation flags' % x)
                prev = e.get('result') or prev
    ctx.ob('ORD.outbound', f2.qual, 'normalise -> validate -> encode',
           len(configs) == 4 and not bad, '; '.join(sorted(set(bad))) or
           '4 configurations, each running exactly the stages it promises, '
           'in order', node=f2.node)
    for q, evcls in (('stream.H2Stream.send_headers', None),
                     ('stream.H2Stream.push_stream_in_band', None)):
        f3 = m.func(q)
        ok = False
        for p in cm.normal_paths(eng.I.run(f3)):
            bf = hd.flags_on_path(eng, p)
            bh = cm.calls_to(p, '_build_headers_frames')
            st = cm.process_inputs(p)
            if not bf or not bh or not st:
                ok = False
                break
            ok = bf[0][0] == st[0][1].get('result') and \
                bh[0].args[-1] == bf[0][1] and \
                bh[0].args[0] == ('p', 'headers')
            if not ok:
                break
        ctx.ob('FLOW.flags', f3.qual, 'flags built from the step\'s events',
               ok, '_build_hdr_validation_flags(events of the state step) '
               'is what _build_headers_frames receives', node=f3.node)
    ctx.assume('behaviour of bytes.lower/strip themselves is trusted; the '
               'header grammar as data is not enumerated')
