"""C07 - received events per stream follow the HTTP message grammar.

Decides: (a) every RECV_* cell agrees with the reference (events, phase
flags) on all API-reachable abstract states, and the grammar invariants hold
on every extracted transition; (b) role discipline of stream creation from
received HEADERS; (c) related-event links are always followed by the linked
event in the returned list, trailers always carry stream_ended; (d) events
built by the stream machine carry the stream's own id; locally generated
resets are recorded in the machine.
"""
from .. import terms as T
from . import common as cm
from .c06 import compare_cells, feedable_from_source

RECV_EVENT_PHASE = {
    # event class -> predicate on the abstract state *before* the step
    'DataReceived': lambda s: s.hr,
    'InformationalResponseReceived': lambda s: not s.hr,
    'ResponseReceived': lambda s: not s.hr and s.client is True,
    'TrailersReceived': lambda s: s.hr and not s.tr,
    'RequestReceived': lambda s: s.client is not True and not s.hr,
    'PushedStreamReceived': lambda s: s.client is True,
}


def grammar_invariants(eng, ctx, trans):
    """Invariants of the event grammar, checked on every transition of the
    extracted machine (independently of the reference)."""
    bad = {}
    n = 0
    for s, inp, r in trans:
        kind, events, nxt, exc = r
        if not inp.startswith('RECV_'):
            continue
        n += 1
        for ev in events:
            pred = RECV_EVENT_PHASE.get(ev)
            if pred is not None and not pred(s):
                bad.setdefault('%s outside its phase' % ev, []).append(
                    (s, inp))
            if ev == 'StreamEnded' and inp != 'RECV_END_STREAM':
                bad.setdefault('StreamEnded from %s' % inp, []).append(
                    (s, inp))
            if ev == 'StreamReset' and nxt.st != 'CLOSED':
                bad.setdefault('StreamReset without closing', []).append(
                    (s, inp))
            if ev == 'StreamReset' and s.st == 'CLOSED':
                bad.setdefault('StreamReset on a closed stream', []).append(
                    (s, inp))
        if s.st in ('HALF_CLOSED_REMOTE', 'CLOSED') and kind == 'ok' and \
                any(e in RECV_EVENT_PHASE or e == 'StreamEnded'
                    for e in events):
            bad.setdefault('message event after the peer ended the stream',
                           []).append((s, inp))
    for what, items in sorted(bad.items()):
        cells = sorted({'%s/%s' % (s.st, i) for s, i in items})
        ctx.ob('FSM.grammar', 'stream', what + '|' + ','.join(cells), False,
               '%s on %d transitions (cells %s)' % (what, len(items),
                                                    ', '.join(cells)))
    ctx.ob('FSM.grammar', 'stream', 'grammar invariants', not bad,
           '%d RECV transitions of the extracted machine respect the phase '
           'conditions (data only after final headers, 1xx only before, '
           'StreamEnded only on END_STREAM, StreamReset only into CLOSED, '
           'nothing after the peer ended)' % n)


def check_links(eng, ctx):
    """PAIR link => append."""
    specs = [
        ('stream.H2Stream.receive_headers', 'stream_ended'),
        ('stream.H2Stream.receive_data', 'stream_ended'),
        ('connection.H2Connection._receive_headers_frame',
         'priority_updated'),
    ]
    for qual, attr in specs:
        fi = eng.m.func(qual)
        paths = eng.I.run(fi)
        nlinks = 0
        bad = []
        for p in cm.normal_paths(paths):
            for i, e in enumerate(p.events):
                if e.kind == 'write' and e.attr == attr:
                    nlinks += 1
                    v = e.value
                    b = e.base
                    # value must be element 0 of a list L; base element 0 of
                    # the list that is returned; L appended to it afterwards
                    if not (v[0] == 'sub' and b[0] == 'sub'):
                        bad.append('link is not between first elements')
                        continue
                    L = v[1]
                    base_list = b[1]
                    appended = False
                    for e2 in p.events[i + 1:]:
                        if e2.kind == 'call' and e2.get('recv') == base_list \
                                and cm.ev_callee_names(e2) & {'extend'} and \
                                e2.args and e2.args[0] == L:
                            appended = True
                        if e2.kind == 'extend' and \
                                e2.container == base_list and e2.value == L:
                            appended = True
                    ret = p.value
                    if ret is not None and _mentions_concat(ret, base_list,
                                                            L):
                        appended = True
                    if not appended:
                        bad.append('%s linked but the linked list is not '
                                   'appended to the returned events' % attr)
                    if ret is None or not T.mentions(ret, base_list):
                        bad.append('the list holding the link is not '
                                   'returned')
        ctx.ob('PAIR.link', fi.qual, '%s link => append' % attr,
               nlinks > 0 and not bad,
               '; '.join(sorted(set(bad))) or
               '%d linking paths all append the linked events' % nlinks,
               node=fi.node)
    # trailers always carry stream_ended
    fi = eng.m.func('stream.H2Stream.receive_headers')
    paths = eng.I.run(fi)
    bad = []
    tested = 0
    for p in cm.normal_paths(paths):
        tr = None
        for e in p.events:
            if e.kind == 'assume':
                c, neg = (e.cond[1], True) if e.cond[0] == 'not' \
                    else (e.cond, False)
                if c[0] == 'isinstance' and 'TrailersReceived' in c[2]:
                    tr = not neg
        if tr is None:
            bad.append('a normally returning path never tests whether the '
                       'block was trailers')
            continue
        tested += 1
        if tr and not cm.param_truth(p, 'end_stream'):
            bad.append('TrailersReceived returned without END_STREAM')
        if tr and not any(e.kind == 'write' and e.attr == 'stream_ended'
                          for e in p.events):
            bad.append('TrailersReceived returned without stream_ended link')
    ctx.ob('PAIR.trailers', fi.qual, 'trailers carry stream_ended',
           tested > 0 and not bad, '; '.join(sorted(set(bad))) or
           'every path returning TrailersReceived has END_STREAM and the '
           'stream_ended link', node=fi.node)


def _mentions_concat(ret, base, L):
    for t in T.subterms(ret):
        if t[0] == 'concat' and t[1] == base and t[2] == L:
            return True
        if t[0] == 'concat' and T.mentions(t[1], base) and t[2] == L:
            return True
    return False


def check_event_ids(eng, ctx):
    """FLOW: events constructed by the machine carry self.stream_id."""
    fsm = eng.fsm
    n = 0
    for fname, cmd in sorted(fsm.cmds.items()):
        bad = []
        for conds, writes, outcome, p in cmd.alts:
            objs = outcome[2] if outcome[0] == 'return' else outcome[3]
            for o in objs:
                if o[0] != 'obj':
                    continue
                n += 1
                fields = p.state.objs.get(o, {})
                cls = o[2]
                if cls in ('RequestReceived', 'ResponseReceived',
                           'TrailersReceived', 'DataReceived',
                           'WindowUpdated', 'StreamEnded', 'StreamReset',
                           'InformationalResponseReceived'):
                    if not cm.is_self_attr(fields.get('stream_id'),
                                           'stream_id'):
                        bad.append('%s.stream_id is %s' % (
                            cls, cm.show0(fields.get('stream_id', T.NONE))))
                if cls == 'PushedStreamReceived' and \
                        not cm.is_self_attr(fields.get('parent_stream_id'),
                                            'stream_id'):
                    bad.append('PushedStreamReceived.parent_stream_id')
                if cls == 'StreamReset' and outcome[0] == 'raise':
                    if cm.enum_name(fields.get('error_code')) != \
                            'STREAM_CLOSED':
                        bad.append('local StreamReset code')
                    if fields.get('remote_reset') != T.FALSE:
                        bad.append('local StreamReset.remote_reset')
        ctx.ob('FLOW.event-id', 'stream.H2StreamStateMachine.' + fname,
               'events carry the stream id', not bad,
               '; '.join(sorted(set(bad))) or 'ok', node=cmd.fi.node)
    ctx.count('machine_events', n)


def check_local_resets(eng, ctx):
    """PAIR: in H2Stream, a locally generated StreamReset event or an
    RST_STREAM frame for this stream is accompanied by the SEND_RST_STREAM
    step (directly or through reset_stream) on the same path."""
    cls = eng.m.cls('stream.H2Stream')
    sites = 0
    for name, fi in sorted(eng.m.methods_of(cls.qual).items()):
        bad = []
        for p in eng.I.run(fi):
            news = [e for e in p.events if e.kind == 'new' and
                    e.cls in ('RstStreamFrame', 'StreamReset')
                    and e.frame == fi.qual]
            if not news:
                continue
            if p.exit == 'raise':
                continue
            sites += 1
            stepped = any(nm == 'SEND_RST_STREAM'
                          for nm, _, _ in cm.process_inputs(p)) or \
                bool(cm.calls_to(p, 'reset_stream'))
            if not stepped:
                bad.append('%s built without feeding SEND_RST_STREAM'
                           % news[0].cls)
            for e in news:
                f = p.state.objs.get(e.obj, {})
                if not cm.is_self_attr(f.get('stream_id'), 'stream_id'):
                    bad.append('%s for another stream id' % e.cls)
                if e.cls == 'StreamReset' and \
                        f.get('remote_reset') != T.FALSE:
                    bad.append('local StreamReset must have '
                               'remote_reset = False')
        if bad or any(True for p in eng.I.run(fi) if any(
                e.kind == 'new' and e.cls in ('RstStreamFrame',
                                              'StreamReset') and
                e.frame == fi.qual for e in p.events)):
            ctx.ob('PAIR.local-reset', fi.qual, 'reset is recorded',
                   not bad, '; '.join(sorted(set(bad))) or
                   'every path that builds a reset feeds SEND_RST_STREAM',
                   node=fi.node)
    ctx.count('local_reset_sites', sites)
    ctx.floor('local_reset_sites', 2)


def check_role_of_creation(eng, ctx):
    """A client must not create a stream from received HEADERS."""
    fi = eng.m.func('connection.H2Connection._receive_headers_frame')
    bad = False
    n = 0
    for p in eng.I.run(fi):
        for e in p.events:
            if cm.is_call_to(e, '_get_or_create_stream', '_begin_new_stream'):
                n += 1
                gated = False
                for e2 in p.events:
                    if e2 is e:
                        break
                    if e2.kind == 'assume':
                        s = cm.show0(e2.cond)
                        if s == 'not self.config.client_side':
                            gated = True
                        if e2.cond[0] == 'in' and \
                                'self.streams' in cm.show0(e2.cond[2]):
                            gated = True
                if not gated:
                    bad = True
    ctx.ob('FSM.role', fi.qual, 'client creates stream from HEADERS',
           n > 0 and not bad,
           'stream creation from a received HEADERS frame is reachable with '
           'config.client_side true: a client reports RequestReceived for '
           'HEADERS on a never-promised even stream', node=fi.node)
    # the parity argument must be the peer's parity
    ok = cm.Every()
    for p in eng.I.run(fi):
        for e in cm.calls_to(p, '_get_or_create_stream'):
            ok(len(e.args) >= 2 and
               cm.parity_class(p, e.args[1]) == 'peer')
    ctx.ob('FLOW.parity', fi.qual, 'inbound streams use the peer parity', ok,
           '_get_or_create_stream(frame.stream_id, AllowedStreamIDs(not '
           'client_side))', node=fi.node)


def run(ctx, eng):
    ctx.rule('FSM.cell: RECV_* cells vs the reference on all API-reachable '
             'abstract states; FSM.grammar: phase invariants on every '
             'extracted transition')
    ctx.rule('PAIR.link: related-event links followed by appends on every '
             'continuing path; PAIR.local-reset: local resets recorded')
    ctx.rule('FLOW.event-id: event fields traced to self.stream_id')
    cm.event_fields(ctx, eng)
    fsm = eng.fsm
    ctx.record('stream_cells', len(fsm.stream.cells))
    ctx.floor('stream_cells', 60)
    feedable = feedable_from_source(eng, ctx)
    recvs = {i for i in fsm.inputs if i.startswith('RECV_') or
             i == 'UPGRADE_SERVER'}
    order, trans = compare_cells(eng, ctx, feedable, inputs=recvs)
    ctx.exhaustive = True
    grammar_invariants(eng, ctx, trans)
    check_links(eng, ctx)
    check_event_ids(eng, ctx)
    check_local_resets(eng, ctx)
    check_role_of_creation(eng, ctx)
    ctx.assume('header contents of events are decided under C15; ordering '
               'across different streams is not decided')
    from . import c21
    c21.check_block_continuity(ctx, eng)
    cm.include(ctx, eng, 'C06',
               lambda o: o.rule == 'FSM.cell' and isinstance(o.desc, str) and
               o.desc.split('|')[1:2] and o.desc.split('|')[1] not in (
                   'SEND_DATA', 'SEND_END_STREAM'),
               'what is reported for the next frame depends on the state the '
               'last step left: after every step the stream is in the state '
               'the reference machine is in (the two cells of the known '
               'finding F15 excepted, which report nothing)')
    cm.include(ctx, eng, 'C08', {'FLOW.informational'},
               'which header block is the final response is decided by '
               '"informational" meaning every 1xx status: a 1xx outside a '
               'table of known codes is taken for the response and DATA '
               'follows it')
    cm.include(ctx, eng, 'C19', {'FSM.goaway', 'FSM.closed-row'},
               'after a connection error nothing more is reported: GOAWAY '
               'closes the connection machine from every state')
    cm.include(ctx, eng, 'C09', {'ARITH.id-low', 'ORD.id-bookkeeping'},
               'a stream id is used once: every creation path (HEADERS and '
               'PUSH_PROMISE alike) refuses an id that is not above the '
               'watermark, so no second message can be reported on it')
    cm.check_event_classes(ctx, eng)
