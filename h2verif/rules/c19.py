"""C19 - a closed connection stays quiet.

Decides: the CLOSED row of the connection table holds only the two GOAWAY
inputs, CLOSED is absorbing, a missing cell closes; in every public method
and frame handler, every emission to the output buffer and every stream
creation is dominated by a connection-machine step whose input CLOSED
refuses; stream-level errors that make _receive_frame emit RST_STREAM are
raised only after such a step; receiving GOAWAY discards the output buffer.
"""
from .. import terms as T
from ..spec import rfc7540_stream as ref
from . import common as cm
from .roles import compare_conn

H = 'connection.H2Connection.'
CLOSED_OK = {'SEND_GOAWAY', 'RECV_GOAWAY'}


def conn_steps(path):
    """(index, input name or None) of steps of the connection machine"""
    out = []
    for i, e in enumerate(path.events):
        if cm.is_call_to(e, 'process_input') and e.d.get('args'):
            recv = e.get('recv')
            if recv is not None and cm.attr_chain(recv) == \
                    'self.state_machine':
                names = set()
                a = e.args[0]
                n = cm.enum_name(a)
                if n:
                    names.add(n)
                else:
                    from ..srcmodel import EnumVal
                    for x in T.subterms(a):
                        if x[0] == 'c' and isinstance(x[1], EnumVal):
                            names.add(x[1].name)
                out.append((i, names))
    return out


def gated_before(path, idx):
    for i, names in conn_steps(path):
        if i < idx and names and not (names & CLOSED_OK):
            return True
    return False


def emit_indices(path, frame_qual):
    """Indices of events that put bytes in the output buffer or create a
    stream, in this function's own frame."""
    out = []
    for i, e in enumerate(path.events):
        if e.frame != frame_qual:
            continue
        if cm.is_call_to(e, '_prepare_for_sending'):
            # an empty literal list emits nothing
            a = e.args[0] if e.args else None
            el = cm.list_elems(path, a)
            if el == ():
                continue
            out.append((i, 'emit'))
        elif e.kind == 'write' and e.attr == '_data_to_send' and \
                e.get('aug') == '+':
            out.append((i, 'emit'))
        elif cm.is_call_to(e, '_begin_new_stream', '_get_or_create_stream'):
            out.append((i, 'create'))
        elif e.kind == 'store' and cm.attr_chain(e.container) == \
                'self.streams':
            out.append((i, 'create'))
    return out


def run(ctx, eng):
    ctx.rule('FSM.conn: CLOSED row and absorption of the connection table; '
             'process_input semantics for a missing cell')
    ctx.rule('ORD.gate: every emit / stream creation in public methods and '
             'frame handlers is dominated by a connection-machine step that '
             'CLOSED refuses')
    fsm = eng.fsm
    ctx.record('connection_cells', len(fsm.conn.cells))
    ctx.floor('connection_cells', 40)
    compare_conn(eng, ctx, 'FSM.conn', states={'CLOSED'})
    # any cell in CLOSED at all (role independent)
    for (st, inp), (fn, nxt, node) in sorted(fsm.conn.cells.items()):
        if st == 'CLOSED':
            ctx.ob('FSM.closed-row', 'connection', 'CLOSED|%s' % inp,
                   inp in CLOSED_OK and nxt == 'CLOSED',
                   'the CLOSED row may only hold the two GOAWAY inputs, both '
                   'staying in CLOSED (found -> %s)' % nxt, node=node)
        if inp in CLOSED_OK:
            ctx.ob('FSM.goaway', 'connection', '%s|%s' % (st, inp),
                   nxt == 'CLOSED', 'GOAWAY closes the connection from '
                   'every state (found -> %s)' % nxt, node=node)
    for st in fsm.conn_states:
        for inp in CLOSED_OK:
            if (st, inp) not in fsm.conn.cells:
                ctx.ob('FSM.goaway', 'connection', '%s|%s' % (st, inp),
                       False, 'GOAWAY must be valid in every state')
    # process_input: missing cell => CLOSED + ProtocolError
    fi = eng.m.func('connection.H2ConnectionStateMachine.process_input')
    paths = eng.I.run(fi)
    miss = cm.lookup_miss_paths(paths, '_transitions')
    ok = bool(miss) and all(
        p.exit == 'raise' and p.exc['names'] == {'ProtocolError'} and any(
            e.kind == 'write' and e.attr == 'state' and
            cm.enum_name(e.value) == 'CLOSED' for e in p.events)
        for p in miss)
    ctx.ob('FSM.step', fi.qual, 'missing cell => CLOSED + ProtocolError', ok,
           'an input without a cell closes the connection and raises',
           node=fi.node)
    ok = cm.lookup_keys(paths, '_transitions') == {'(self.state, input_)'}
    ctx.ob('FSM.step', fi.qual, 'table lookup keyed by (state, input)', ok,
           'self._transitions[(self.state, input_)]', node=fi.node)
    # no input is accepted around the table: every returning path has read
    # the cell of (state, input) - a shortcut for "stateless" inputs would be
    # taken in CLOSED as well
    around = [p for p in cm.normal_paths(paths)
              if not cm.lookup_keys([p], '_transitions')]
    ctx.ob('FSM.step', fi.qual, 'every accepted input went through the '
           'table', not around, '%d returning paths do not read '
           '_transitions' % len(around) if around else
           'all returning paths read the cell', node=fi.node)
    # ---- gates
    cls = eng.m.cls('connection.H2Connection')
    methods = eng.m.methods_of(cls.qual)
    handlers = set()
    init = methods.get('__init__')
    import ast
    for n in ast.walk(init.node):
        if isinstance(n, ast.Dict) and n.keys and all(
                isinstance(v, ast.Attribute) for v in n.values):
            for v in n.values:
                handlers.add(v.attr)
    ctx.record('dispatch_handlers', len(handlers))
    ctx.floor('dispatch_handlers', 10)
    entry = [fi for nm, fi in sorted(methods.items())
             if (not nm.startswith('_') or nm in handlers)]
    ctx.record('entry_points', len(entry))
    exempt = {'close_connection': 'sends GOAWAY, which is what a closed '
              'connection may still emit',
              'data_to_send': 'hands out bytes already produced',
              'clear_outbound_data_buffer': 'discards bytes'}
    n_sites = 0
    for fi in entry:
        if fi.name in exempt or fi.is_property and False:
            continue
        paths = eng.I.run(fi)
        bad = {}
        for p in paths:
            for idx, kind in emit_indices(p, fi.qual):
                n_sites += 1
                if not gated_before(p, idx):
                    bad.setdefault(kind, p.events[idx])
        for kind, ev in sorted(bad.items()):
            ctx.ob('ORD.gate', fi.qual, 'ungated %s' % kind, False,
                   '%s can %s without a preceding connection-machine step '
                   'that a closed connection refuses' % (
                       fi.name, 'append frames to the output buffer'
                       if kind == 'emit' else 'create a stream'),
                   node=ev.node)
        if not bad:
            ctx.ob('ORD.gate', fi.qual, 'emits and creations gated', True,
                   '%d paths' % len(paths), node=fi.node,
                   nontrivial=any(emit_indices(p, fi.qual) for p in paths))
    ctx.record('emit_or_create_sites', n_sites)
    ctx.floor('emit_or_create_sites', 15)
    # handlers: frames are returned to _receive_frame, which emits them
    for hn in sorted(handlers):
        fi = methods.get(hn)
        if fi is None:
            continue
        paths = eng.I.run(fi)
        bad_ret = False
        bad_exc = False
        for p in paths:
            if p.exit in ('return', 'fall'):
                v = p.value
                if v is None or v == T.NONE:
                    # nothing is returned for emission (the dispatcher
                    # unpacks a pair: such a path cannot continue there)
                    continue
                frames = v[1][0] if (v and v[0] == 'tuple' and v[1]) \
                    else None
                el = cm.list_elems(p, frames) if frames is not None else None
                if el == ():
                    continue
                if not gated_before(p, len(p.events)):
                    bad_ret = True
            elif p.exit == 'raise':
                if p.exc['names'] & {'StreamClosedError',
                                     'StreamIDTooLowError'}:
                    if not gated_before(p, len(p.events)):
                        bad_exc = True
        ctx.ob('ORD.gate', fi.qual, 'returned frames gated', not bad_ret,
               'a handler path returns frames for emission without having '
               'consulted the connection machine', node=fi.node)
        ctx.ob('ORD.gate', fi.qual, 'stream-level error gated', not bad_exc,
               'raises StreamClosedError/StreamIDTooLowError, which '
               '_receive_frame answers with RST_STREAM, without having '
               'consulted the connection machine: RST_STREAM is emitted on '
               'a closed connection', node=fi.node)
    # _receive_frame emits only in those handlers and on the normal path
    # ---- GOAWAY discards the buffer
    fi = eng.m.func(H + '_receive_goaway_frame')
    bad = []
    n = 0
    for p in cm.normal_paths(eng.I.run(fi)):
        n += 1
        cleared = cm.calls_to(p, 'clear_outbound_data_buffer') or [
            e for e in p.events if e.kind == 'write' and
            e.attr == '_data_to_send' and e.get('aug') is None]
        if not cleared:
            bad.append('a path does not discard the outbound buffer')
    ctx.ob('ORD.discard', fi.qual, 'GOAWAY discards pending output',
           n > 0 and not bad, '; '.join(sorted(set(bad))) or
           'every normally returning path clears the buffer', node=fi.node)
    fi = eng.m.func(H + 'clear_outbound_data_buffer')
    ok = cm.Every()
    for p in cm.normal_paths(eng.I.run(fi)):
        ws = [e for e in p.events if e.kind == 'write' and
              e.attr == '_data_to_send']
        ok(len(ws) == 1 and ws[0].value[0] == 'call' and
           ws[0].value[1] == 'bytearray' and ws[0].value[2] == ())
    ctx.ob('ORD.discard', fi.qual, 'buffer replaced by an empty one', ok,
           'self._data_to_send = bytearray()', node=fi.node)
    ctx.assume('events (as opposed to frames) reported on a closed '
               'connection are outside this property')
    cm.include(ctx, eng, 'C17', lambda o: o.rule == 'ESC',
               'a connection error closes the connection: whatever a peer '
               'sends that the library refuses leaves receive_data as a '
               'ProtocolError (which is answered with GOAWAY and closes); an '
               'exception of another kind leaves the connection open')
    # sending GOAWAY closes: every path that builds a GoAwayFrame in a
    # public call or in the error path has fed SEND_GOAWAY to the
    # connection machine (a GOAWAY that leaves the machine open lets every
    # later call through)
    for name in ('close_connection', '_terminate_connection'):
        fi = eng.m.func('connection.H2Connection.' + name)
        bad = []
        n = 0
        for p in cm.normal_paths(eng.I.run(fi)):
            gf = [e for e in p.events if e.kind == 'new' and
                  e.cls == 'GoAwayFrame']
            if not gf:
                continue
            n += 1
            emit = cm.calls_to(p, '_prepare_for_sending')
            at = p.index(emit[0]) if emit else len(p.events)
            steps = [s for s, ev, _ in cm.process_inputs(p)
                     if p.index(ev) < at]
            if 'SEND_GOAWAY' not in steps:
                bad.append('a GOAWAY is emitted on a path that has not fed '
                           'SEND_GOAWAY to the connection machine')
        ctx.ob('ORD.goaway-closes', fi.qual, 'sending GOAWAY closes the '
               'connection', n > 0 and not bad,
               '; '.join(sorted(set(bad))) or 'SEND_GOAWAY precedes the '
               'frame on all %d emitting paths' % n, node=fi.node)
