"""C12 - SETTINGS values are validated with the RFC-mandated error codes.

Decides exactly, for ALL identifiers and values: _validate_setting is reduced
by interval analysis to (identifier, accepted region, returned code) and
compared with the RFC 7540 6.5.2 / RFC 8441 table; SettingCodes equal the
RFC identifiers; all three entry points validate before storing; the code
reaches InvalidSettingsValueError.error_code; the INITIAL_WINDOW_SIZE delta
is applied to every stream through guard_increment_window.
"""
from .. import intervals as IV
from .. import terms as T
from ..srcmodel import EnumVal
from . import common as cm

RFC_IDS = {'HEADER_TABLE_SIZE': 1, 'ENABLE_PUSH': 2,
           'MAX_CONCURRENT_STREAMS': 3, 'INITIAL_WINDOW_SIZE': 4,
           'MAX_FRAME_SIZE': 5, 'MAX_HEADER_LIST_SIZE': 6,
           'ENABLE_CONNECT_PROTOCOL': 8}
U32 = (0, 2 ** 32 - 1)
# identifier -> (accepted region within 0..2**32-1, code for the rest)
RFC_RANGES = {
    2: ([(0, 1)], 'PROTOCOL_ERROR'),
    4: ([(0, 2 ** 31 - 1)], 'FLOW_CONTROL_ERROR'),
    5: ([(2 ** 14, 2 ** 24 - 1)], 'PROTOCOL_ERROR'),
    8: ([(0, 1)], 'PROTOCOL_ERROR'),
}


def setting_fact(cond, ident):
    """Evaluate a condition on `setting` for the wire identifier `ident`
    (an int).  -> True/False, or None when cond is not about `setting`."""
    c, neg = (cond[1], True) if cond[0] == 'not' else (cond, False)
    res = None
    if c[0] in ('eq', 'ne', 'is'):
        a, b = c[1], c[2]
        if a == ('p', 'setting') or b == ('p', 'setting'):
            other = b if a == ('p', 'setting') else a
            if other[0] == 'c':
                v = other[1]
                if c[0] == 'is':
                    # identity with an enum member never holds for the plain
                    # int identifiers hyperframe delivers from the wire
                    res = False if isinstance(v, EnumVal) else (v is ident)
                else:
                    val = v.value if isinstance(v, EnumVal) else v
                    res = (val == ident)
                    if c[0] == 'ne':
                        res = not res
    elif c[0] == 'cmp0':
        f = T.to_aff(c[2])
        if f and set(f[0]) == {('p', 'setting')}:
            r = IV.region(c, ('p', 'setting'))
            res = any(lo <= ident <= hi for lo, hi in r)
        elif f and ('p', 'setting') in f[0]:
            # setting compared with an enum constant atom
            atoms = dict(f[0])
            coef = atoms.pop(('p', 'setting'))
            total = f[1] + coef * ident
            okk = True
            for a, cc in atoms.items():
                if a[0] == 'c' and isinstance(a[1], EnumVal):
                    total += cc * a[1].value
                else:
                    okk = False
            if okk:
                res = {'==': total == 0, '!=': total != 0, '>': total > 0,
                       '>=': total >= 0}[c[1]]
    elif c[0] == 'in' and c[1] == ('p', 'setting'):
        items = cm.tuple_items(c[2])
        if items is not None:
            vals = [x[1].value if isinstance(x[1], EnumVal) else x[1]
                    for x in items if x[0] == 'c']
            res = ident in vals
    if res is None:
        return None
    return (not res) if neg else res


def run(ctx, eng):
    ctx.rule('ARITH: interval analysis of _validate_setting for every '
             'identifier (the 7 known ones and a generic unknown) over all '
             'values 0..2**32-1; TAB: identifiers; ORD/FLOW: validate before '
             'store, code flow')
    m = eng.m
    # ---- identifiers
    sc = m.cls('settings.SettingCodes')
    members = m.enum_members(sc.qual)
    ctx.ob('TAB.ids', sc.qual, 'setting identifiers',
           dict(members) == RFC_IDS,
           'SettingCodes must equal the RFC 7540/8441 identifiers (found %s)'
           % dict(members), node=sc.node)
    ec = m.enum_members(m.cls('errors.ErrorCodes').qual)
    ctx.ob('TAB.codes', 'errors.ErrorCodes', 'error code values',
           ec.get('PROTOCOL_ERROR') == 1 and
           ec.get('FLOW_CONTROL_ERROR') == 3 and ec.get('NO_ERROR') == 0,
           'PROTOCOL_ERROR=1 FLOW_CONTROL_ERROR=3')
    # ---- _validate_setting
    fi = m.func('settings._validate_setting')
    paths = eng.I.run(fi)
    var = ('p', 'value')
    idents = sorted(set(RFC_IDS.values())) + [7, 9, 0xFFFF]
    ctx.record('identifiers_decided', len(idents))
    ctx.record('paths', len(paths))
    for ident in idents:
        accepted = IV.EMPTY
        rejected = {}
        problems = []
        for p in paths:
            if p.exit != 'return' and p.exit != 'fall':
                problems.append('a path of _validate_setting raises')
                continue
            consistent = True
            reg = IV.FULL
            for e in p.events:
                if e.kind != 'assume':
                    continue
                sf = setting_fact(e.cond, ident)
                if sf is not None:
                    if not sf:
                        consistent = False
                        break
                    continue
                try:
                    reg = IV.inter(reg, IV.region(e.cond, var))
                except IV.NotUnivariate as x:
                    problems.append('guard not understood: %s' % x)
            if not consistent:
                continue
            reg = IV.clip(reg, *U32)
            if not reg:
                continue
            v = p.value
            code = None
            if v is None or v == T.NONE:
                code = 'None'
            elif v[0] == 'c' and isinstance(v[1], EnumVal):
                code = v[1].name
            elif v[0] == 'c' and v[1] == 0:
                code = 0
            else:
                code = cm.show0(v)
            if code in (0, 'NO_ERROR', 'None'):
                accepted = IV.union(accepted, reg)
            else:
                rejected[code] = IV.union(rejected.get(code, IV.EMPTY), reg)
        exp_acc, exp_code = RFC_RANGES.get(ident, ([U32], None))
        exp_rej = IV.clip(IV.compl(exp_acc), *U32)
        name = {v: k for k, v in RFC_IDS.items()}.get(ident,
                                                      'unknown id %d' % ident)
        ok = not problems and accepted == IV.norm(exp_acc) and \
            ((not exp_rej and not rejected) or
             (rejected == {exp_code: exp_rej}))
        ctx.ob('ARITH.range', fi.qual, 'id=%d %s' % (ident, name), ok,
               'expected accept %s%s; found accept %s, reject %s%s' % (
                   IV.show(exp_acc),
                   (' else ' + exp_code) if exp_code else '',
                   IV.show(accepted),
                   {k: IV.show(v) for k, v in rejected.items()} or '-',
                   ('; ' + '; '.join(sorted(set(problems))))
                   if problems else ''), node=fi.node)
    ctx.exhaustive = True
    # ---- entry points validate before storing
    for q in ('settings.Settings.__setitem__', 'settings.Settings.__init__'):
        f2 = m.func(q)
        bad = []
        stores = 0
        for p in eng.I.run(f2):
            for i, e in enumerate(p.events):
                is_store = (e.kind == 'store' and
                            cm.store_base_attr(e) == '_settings'
                            and e.frame == f2.qual and (
                                q.endswith('__setitem__') or e.in_loop)) or \
                    (e.kind == 'call' and cm.ev_callee_names(e) & {'append'}
                     and e.frame == f2.qual)
                if not is_store:
                    continue
                if e.kind == 'store' and q.endswith('__setitem__'):
                    # creating the queue for an unknown id ([None]) is not a
                    # store of the value
                    v = e.value
                    el = cm.list_elems(p, v[2][-1]) if (
                        v[0] == 'call' and v[2]) else None
                    if el is not None and el == (T.NONE,):
                        continue
                stores += 1
                val = cm.calls_to(p, '_validate_setting')
                val = [c for c in val if p.index(c) < i]
                if not val:
                    bad.append('value stored without _validate_setting')
                    continue
                res = val[-1].result
                falsy = T.negate(T.truth(res))
                if falsy not in [x.cond for x in p.events[:i]
                                 if x.kind == 'assume']:
                    bad.append('value stored although validation returned '
                               'a code')
        # the raise carries the code
        rs = [p for p in eng.I.run(f2) if cm.explicit_raise(p) is not None
              and p.exc['names'] == {'InvalidSettingsValueError'}]
        carried = bool(rs)
        for p in rs:
            o = p.exc.get('obj')
            f = p.state.objs.get(o, {}) if o else {}
            ecode = f.get('error_code')
            val = cm.calls_to(p, '_validate_setting')
            if not val or ecode != val[-1].result:
                carried = False
        ctx.ob('ORD.validate', f2.qual, 'validate before store',
               stores > 0 and not bad, '; '.join(sorted(set(bad))) or
               '%d store sites, all after a validation that returned 0'
               % stores, node=f2.node)
        ctx.ob('FLOW.code', f2.qual, 'exception carries the returned code',
               carried, 'InvalidSettingsValueError(error_code=<what '
               '_validate_setting returned>)', node=f2.node)
    # update_settings validates everything first (all-or-nothing, C11); the
    # exception it raises must carry the code as well
    f2 = m.func('connection.H2Connection.update_settings')
    rs = [p for p in eng.I.run(f2) if cm.explicit_raise(p) is not None
          and p.exc['names'] == {'InvalidSettingsValueError'}]
    carried = bool(rs)
    for p in rs:
        o = p.exc.get('obj')
        f = p.state.objs.get(o, {}) if o else {}
        ecode = f.get('error_code')
        val = cm.calls_to(p, '_validate_setting')
        if not val or ecode != val[-1].result:
            carried = False
    ctx.ob('FLOW.code', f2.qual, 'exception carries the returned code',
           carried, 'InvalidSettingsValueError(error_code=<what '
           '_validate_setting returned>)', node=f2.node)
    f3 = m.func('exceptions.InvalidSettingsValueError.__init__')
    ps = cm.normal_paths(eng.I.run(f3))
    # every path stores the code it was given (a path that assumed "no code
    # given" may fall back to the class default: the raise sites above are
    # each required to pass one)
    ok = bool(ps) and all(
        any(e.kind == 'write' and e.attr == 'error_code' and
            e.value == ('p', 'error_code') for e in p.events) or
        cm.fact_polarity(p, ('is', ('p', 'error_code'), T.NONE)) is True
        for p in ps)
    ctx.ob('FLOW.code', f3.qual, 'error_code stored on the exception', ok,
           'self.error_code = error_code', node=f3.node)
    # update() is the inherited MutableMapping.update => __setitem__
    st = m.cls('settings.Settings')
    ctx.ob('ORD.validate', st.qual, 'update goes through __setitem__',
           'update' not in st.methods and 'MutableMapping' in st.bases,
           'Settings must not override update() with an unvalidated store',
           node=st.node)
    # ---- INITIAL_WINDOW_SIZE delta on every stream, guarded
    f4 = m.func('connection.H2Connection._flow_control_change_from_settings')
    bad = []
    n = 0
    for p in cm.normal_paths(eng.I.run(f4)):
        its = [e for e in p.events if e.kind == 'iter']
        if not its:
            bad.append('no loop over the streams')
            continue
        it = its[0].iterable
        if not (it[0] == 'call' and it[1].endswith('.values') and
                cm.attr_chain(it[2][0]) == 'self.streams'):
            bad.append('does not iterate self.streams.values()')
        body = [e for e in p.events if e.in_loop]
        if not any(e.kind == 'endloop' for e in p.events):
            continue       # zero-iteration path (an empty body is not one)
        n += 1
        if any(e.kind == 'assume' for e in body):
            bad.append('a condition skips some streams: the overflow check '
                       'and the delta must reach every stream')
        ws = [e for e in body if e.kind == 'write' and
              e.attr == 'outbound_flow_control_window']
        if len(ws) != 1:
            bad.append('stream window not updated exactly once')
            continue
        v = ws[0].value
        if not (v[0] == 'call' and v[1].endswith('guard_increment_window')):
            bad.append('window updated without guard_increment_window')
        else:
            a0, a1 = v[2][0], v[2][1]
            if not (cm.is_attr(a0, ws[0].base, 'outbound_flow_control_window')
                    and cm.show0(a1) == 'new_value - old_value'):
                bad.append('guard_increment_window(stream window, new - old) '
                           'expected, found (%s, %s)' % (cm.show0(a0),
                                                         cm.show0(a1)))
    ctx.ob('FLOW.delta', f4.qual, 'delta reaches every stream, guarded',
           n > 0 and not bad, '; '.join(sorted(set(bad))) or
           'every stream window += new - old through guard_increment_window',
           node=f4.node)
    f5 = m.func('utilities.guard_increment_window')
    paths = eng.I.run(f5)
    lim = 2 ** 31 - 1
    raised = [cm.show0([e for e in p.events if e.kind == 'assume'][-1].cond)
              for p in paths if cm.explicit_raise(p) is not None and
              p.exc['names'] == {'FlowControlError'}]
    rets = [cm.show0(p.value) for p in paths if p.exit == 'return']
    ctx.ob('ARITH.window-guard', f5.qual, 'overflow guard',
           raised == ['(current + increment - %d > 0)' % lim] and
           rets == ['current + increment'],
           'FlowControlError iff current + increment > 2**31-1, else returns '
           'the sum (found raise %s, return %s)' % (raised, rets),
           node=f5.node)
    fce = m.exc_class_attr('FlowControlError', 'error_code')[0]
    v = m.try_fold(fce, 'exceptions') if fce is not None else None
    ctx.ob('TAB.codes', 'exceptions.FlowControlError', 'error code',
           isinstance(v, EnumVal) and v.name == 'FLOW_CONTROL_ERROR',
           'FlowControlError.error_code is FLOW_CONTROL_ERROR')
    ctx.assume('hyperframe parses the SETTINGS payload into plain int '
               'identifiers and values')
    cm.include(ctx, eng, 'C11',
               lambda o: o.rule == 'COH.apply-map' and
               o.desc.startswith('remote INITIAL_WINDOW_SIZE '),
               'the overflow of a stream window is found when the delta is '
               'applied: it must be applied whatever else the frame carries')
    cm.include(ctx, eng, 'C18', {'ORD.terminate', 'FLOW.goaway'},
               'the code the exception carries is the code of the GOAWAY: '
               'the handler that terminates the connection passes '
               'e.error_code on, and no broader handler intercepts the '
               'exception before it')
    cm.include(ctx, eng, 'C04',
               lambda o: (o.rule == 'FLOW.delta' and o.where.endswith(
                   '_inbound_flow_control_change_from_settings')) or (
                   # ... and refuses nothing else: an in-range value that
                   # takes a window below zero is accepted
                   o.rule == 'ARITH.open' and
                   o.desc.startswith('overflow iff')),
               'a locally requested INITIAL_WINDOW_SIZE reaches each stream '
               'window through window_opened, whose overflow guard makes the '
               '2^31-1 violation a FLOW_CONTROL_ERROR')
