"""C13 - header compression state stays synchronised across all calls.

Decides: (a) the stream-machine step dominates the encoder call in
H2Stream.send_headers and push_stream_in_band; (b) ATOM(ENC): in
H2Connection.send_headers / push_stream and everything they call, no raise
can follow an encode, and what is handed to Encoder.encode is not a lazily
evaluated generator (its body would raise *inside* the encoder, after
earlier fields were already inserted into the dynamic table); (c) the
encoder's table size is written only when the peer's HEADER_TABLE_SIZE
change is acknowledged.
"""
from .. import terms as T
from . import budget
from . import common as cm
from . import flow

H = 'connection.H2Connection.'
ENC_CALLEES = {'_build_headers_frames': 'stream.H2Stream',
               'send_headers': 'stream.H2Stream',
               'push_stream_in_band': 'stream.H2Stream'}


def is_encode(e):
    return e.kind == 'call' and any(str(n) == 'Encoder.encode'
                                    for n in e.names)


def enc_event(e):
    """Does this event perform (or contain) an HPACK encode?"""
    if is_encode(e):
        return True
    if e.kind == 'call':
        for n in e.names:
            n = str(n)
            for nm, cls in ENC_CALLEES.items():
                if n == '%s.%s' % (cls, nm):
                    return True
    return False


def run(ctx, eng):
    ctx.rule('ORD: state step before encoding; ATOM(ENC): no raise after an '
             'encode on any path of the five functions on the header send '
             'path; lazy-value typing of the encoder argument; OWN: writers '
             'of the encoder table size')
    m = eng.m
    fsm = eng.fsm
    # ---- (a)
    for q in ('stream.H2Stream.send_headers',
              'stream.H2Stream.push_stream_in_band'):
        fi = m.func(q)
        bad = []
        n = 0
        for p in eng.I.run(fi):
            encs = [i for i, e in enumerate(p.events) if enc_event(e)]
            if not encs:
                continue
            n += 1
            steps = [p.index(ev) for _, ev, _ in cm.process_inputs(p)]
            if not steps or min(steps) > encs[0]:
                bad.append('headers are encoded before the stream machine '
                           'accepted the block')
        ctx.ob('ORD.step-first', fi.qual, 'state transition before encoding',
               n > 0 and not bad, '; '.join(sorted(set(bad))) or
               'the step that can refuse the block precedes the '
               'irreversible encoding on all %d paths' % n, node=fi.node)
    # ---- (b) lazy argument
    fb = m.func('stream.H2Stream._build_headers_frames')
    bad = []
    n = 0
    for p in eng.I.run(fb):
        for i, e in enumerate(p.events):
            if is_encode(e):
                n += 1
                lazy = [c for c in p.events[:i + 1] if c.kind == 'consume'
                        and c.node is e.node and c.get('gens')]
                if lazy:
                    bad.append('Encoder.encode consumes generator(s) %s: '
                               'a header refused part-way leaves the earlier '
                               'fields in the dynamic table'
                               % ', '.join(g.split('.')[-1]
                                           for g in lazy[0].gens))
                a = e.args[0] if e.args else None
                if a is not None and a[0] == 'gen':
                    bad.append('Encoder.encode is handed a generator object')
                if e.recv != ('p', 'encoder'):
                    bad.append('encodes with something else than the '
                               'connection\'s encoder')
    ctx.ob('ATOM.ENC', fb.qual, 'lazy-arg:Encoder.encode', n > 0 and not bad,
           '; '.join(sorted(set(bad))) or 'the header list is fully '
           'evaluated (validation and normalisation consumed) before it '
           'reaches the encoder', node=fb.node)
    # the stages are consumed before: list(headers) materialises them
    # ---- (b) raises after an encode
    order, _ = fsm.reachable(lambda s, i: True)
    always_ok_after = {}
    for first in ('SEND_HEADERS',):
        okk = True
        for s in order:
            r = fsm.step_impl(s, first)
            if r[0] != 'ok':
                continue
            r2 = fsm.step_impl(r[2], 'SEND_END_STREAM')
            if r2[0] != 'ok':
                okk = False
        always_ok_after[first] = okk
    sites_budget, hok, why = budget.emit_sites(eng)
    for q in ('stream.H2Stream._build_headers_frames',
              'stream.H2Stream.send_headers',
              'stream.H2Stream.push_stream_in_band',
              H + 'send_headers', H + 'push_stream'):
        fi = m.func(q)
        late = {}
        for p in eng.I.run(fi):
            if p.exit != 'raise':
                continue
            encs = [i for i, e in enumerate(p.events) if enc_event(e)]
            via = p.exc.get('via_call')
            if via is not None and enc_event(via):
                # the raise comes out of the encoding callee itself: that
                # callee is analysed on its own; count only earlier encodes
                encs = [i for i in encs if p.events[i] is not via]
            if not encs:
                continue
            if p.exc.get('assert') and id(p.exc['node']) in \
                    eng.D.assert_reasons:
                continue
            what = None
            if via is None:
                r = cm.explicit_raise(p)
                conds = [cm.show0(e.cond) for e in p.events
                         if e.kind == 'assume']
                what = 'explicit raise under %s' % (conds[-1] if conds
                                                    else '-')
            else:
                what = '/'.join(sorted(cm.ev_callee_names(via)))
                if what == 'process_input' and via.args and \
                        cm.enum_name(via.args[0]) == 'SEND_END_STREAM' and \
                        always_ok_after.get('SEND_HEADERS'):
                    # after an accepted SEND_HEADERS the extracted machine
                    # accepts SEND_END_STREAM in every reachable state
                    steps = [nm for nm, _, _ in cm.process_inputs(p)]
                    if steps[:1] == ['SEND_HEADERS']:
                        continue
                if what == 'locally_pushed' and via.recv is not None and \
                        via.recv[0] == 'call' and \
                        via.recv[1].endswith('_begin_new_stream'):
                    # a fresh stream: (initial state, SEND_PUSH_PROMISE)
                    from ..spec.rfc7540_stream import INITIAL
                    r0 = fsm.step_impl(INITIAL, 'SEND_PUSH_PROMISE')
                    if r0[0] == 'ok' and r0[1] == ():
                        continue
            late.setdefault(what, p)
        for what, p in sorted(late.items()):
            ctx.ob('ATOM.ENC', fi.qual, 'raise after encode|%s' % what,
                   False, 'after the header block was encoded (HPACK '
                   'dynamic table changed, nothing sent) %s can still raise '
                   '%s: %s' % (fi.name, '/'.join(sorted(p.exc['names'])),
                               what), node=p.exc['node'])
        if not late:
            ctx.ob('ATOM.ENC', fi.qual, 'no raise after an encode', True,
                   'nothing can raise once the block is encoded',
                   node=fi.node)
        # the post-append size assertion (treated as a precondition)
        for (sq, ln), s in sites_budget.items():
            if sq != fi.qual:
                continue
            for desc, ok, reason in sorted(s['frames']):
                if desc.startswith(('HeadersFrame', 'PushPromiseFrame')):
                    ctx.ob('ATOM.ENC', sq,
                           'post-append assertion|%s' % desc, ok,
                           ('%s: %s' % (desc, reason)) if ok else
                           'the encoded block is emitted in a frame that is '
                           'only checked by an assertion after the append: '
                           '%s' % reason, node=s['node'])
    # ---- (c) writers of the table size
    writers = flow.attr_writers(eng, 'header_table_size')
    writers = {q: n for q, n in writers.items()
               if not q.startswith('settings.')}
    ctx.ob('OWN.table-size', 'encoder.header_table_size', 'writers',
           # (the acknowledge helper, or the SETTINGS handler that is its
           # only caller)
           bool(writers) and set(writers) <= {
               H + '_acknowledge_settings', H + '_receive_settings_frame'},
           'written only in _acknowledge_settings (found %s)'
           % sorted(w.split('.')[-1] for w in writers))
    fa = m.func(H + '_acknowledge_settings')
    ok = cm.Every()
    from .c11 import handler_paths
    for p in handler_paths(eng, 'remote'):
        for e in p.events:
            if e.kind == 'write' and e.attr == 'header_table_size':
                v = e.value
                ok(cm.attr_chain(e.base) == 'self.encoder' and
                   v[0] == 'a' and v[2] == 'new_value')
    ctx.ob('OWN.table-size', fa.qual, 'from the acknowledged remote change',
           ok, 'self.encoder.header_table_size = setting.new_value',
           node=fa.node)
    # every header-carrying call encodes with self.encoder
    for q, callee in ((H + 'send_headers', 'send_headers'),
                      (H + 'push_stream', 'push_stream_in_band')):
        fi = m.func(q)
        ok = False
        for p in cm.normal_paths(eng.I.run(fi)):
            cs = [e for e in p.events if e.kind == 'call' and
                  'stream.H2Stream.%s' % callee in e.names]
            ok = bool(cs) and any(cm.attr_chain(a) == 'self.encoder'
                                  for a in cs[0].args)
            if not ok:
                break
        ctx.ob('FLOW.encoder', fi.qual, 'uses the connection\'s encoder', ok,
               'self.encoder is handed to the stream', node=fi.node)
    ctx.assume('hpack\'s own correctness and the decode side are not '
               'decided')
    cm.include(ctx, eng, 'C11',
               lambda o: o.rule == 'COH.apply-map' and
               o.desc.startswith(('remote HEADER_TABLE_SIZE ',
                                  'remote MAX_FRAME_SIZE ')),
               'the encoder follows the peer\'s HEADER_TABLE_SIZE whatever '
               'else the same SETTINGS frame changed; and every stream '
               'slices by the peer\'s current MAX_FRAME_SIZE, or the '
               'post-append assertion fires after the block was encoded')
    cm.include(ctx, eng, 'C25',
               lambda o: o.rule == 'FLOW.codec' and isinstance(o.where, str)
               and o.where.endswith('initiate_upgrade_connection'),
               'a HEADER_TABLE_SIZE announced in HTTP2-Settings reaches the '
               'encoder through the code that applies every other SETTINGS '
               'frame of the peer')
    cm.include(ctx, eng, 'C09', {'ARITH.id-high'},
               'a stream id above 2**31-1 is refused when the stream is '
               'created, before its header block is encoded: a frame with '
               'such an id cannot be serialised and the block would be lost')
    cm.include(ctx, eng, 'C20', {'ORD.decode-first'},
               'the receiving half of the same invariant: a block that was '
               'encoded is decoded, whatever becomes of its stream')
