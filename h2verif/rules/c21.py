"""C21 - results do not depend on how bytes are split.

Decides the structural reasons why the parser's state is a function of the
bytes received so far: add_data only strips the expected preface prefix and
appends; FrameBuffer.__next__ changes no field on any path that ends in
StopIteration, consumes exactly 9 + length otherwise, and every parsing
decision reads only the unparsed bytes, the header-block buffer and the
frame-size limit; receive_data drains the buffer in one loop with no early
normal exit; the frame buffer's copy of the frame-size limit is refreshed
wherever its source changes; data_to_send(amount) returns [:amount] and
keeps [amount:].
"""
import ast

from .. import terms as T
from . import common as cm

FB = 'frame_buffer.FrameBuffer.'
H = 'connection.H2Connection.'
PARSER_STATE = {'data', '_headers_buffer', 'max_frame_size'}


def self_attrs_in(term):
    out = set()
    for t in T.subterms(term):
        if t[0] == 'a' and t[1] == ('p', 'self'):
            out.add(t[2])
    return out


def run(ctx, eng):
    ctx.rule('OWN/ORD: buffer discipline of FrameBuffer by path analysis; '
             'COH: cached frame-size limit; ARITH: output slicing')
    m = eng.m
    # ---- add_data
    fi = m.func(FB + 'add_data')
    paths = eng.I.run(fi)
    bad = []
    n = 0
    # the count of preface bytes still expected may be kept in step by hand
    # or derived: a property that returns len(self._preamble)
    fl = m.funcs.get(FB + '_preamble_len')
    derived_len = fl is not None and 'property' in fl.decorators and any(
        isinstance(x, ast.Return) and x.value is not None and
        ast.unparse(x.value) == 'len(self._preamble)'
        for x in ast.walk(fl.node))
    for p in cm.normal_paths(paths):
        n += 1
        ws = [e for e in p.events if e.kind == 'write' and e.attr == 'data'
              and e.base == ('p', 'self')]
        if len(ws) != 1 or ws[0].aug != '+':
            bad.append('the unparsed bytes are not appended to exactly once')
            continue
        op = ws[0].operand
        pre = cm.fact_polarity(p, ('a', ('p', 'self'), '_preamble_len', 0))
        if pre:
            if not (op[0] == 'slice' and op[1] == ('p', 'data') and
                    op[3] is None and cm.show0(op[2]) ==
                    'min(self._preamble_len, len(data))'):
                bad.append('with a preface pending, what is appended is %s, '
                           'expected data[min(remaining preface, len(data)):]'
                           % cm.show0(op))
            wl = [e for e in p.events if e.kind == 'write' and
                  e.attr == '_preamble_len']
            wp = [e for e in p.events if e.kind == 'write' and
                  e.attr == '_preamble']
            if len(wp) != 1 or (len(wl) != 1 and not derived_len):
                bad.append('the expected preface is not advanced')
        elif op != ('p', 'data'):
            bad.append('what is appended is %s, expected data'
                       % cm.show0(op))
    pref = [p for p in paths if cm.explicit_raise(p) is not None and
            p.exc['names'] == {'ProtocolError'}]
    okp = bool(pref) and all(
        not [e for e in p.events if e.kind == 'write'] for p in pref)
    ctx.ob('OWN.buffer', fi.qual, 'only strips the preface and appends',
           n > 0 and not bad and okp, '; '.join(sorted(set(bad))) or
           'ok', node=fi.node)
    # ---- __next__
    f2 = m.func(FB + '__next__')
    paths = eng.I.run(f2)
    stops = [p for p in paths if p.exit == 'raise' and
             p.exc['names'] == {'StopIteration'}]
    bad = []
    for p in stops:
        ws = [e for e in p.events if e.kind == 'write' or
              (e.kind == 'call' and e.get('mutates'))]
        if ws:
            bad.append('a StopIteration path changes %s' % sorted(
                {getattr(e, 'attr', None) or cm.show0(e.recv) for e in ws}))
    ctx.ob('OWN.buffer', f2.qual, 'incomplete input changes nothing',
           len(stops) >= 2 and not bad, '; '.join(sorted(set(bad))) or
           '%d StopIteration paths write no field' % len(stops),
           node=f2.node)
    bad = []
    n = 0
    for p in cm.normal_paths(paths):
        ws = [e for e in p.events if e.kind == 'write' and e.attr == 'data'
              and e.frame == f2.qual]
        if not ws:
            continue
        n += 1
        v = ws[-1].value
        if not (v[0] == 'slice' and cm.show0(v[1]) == 'self.data' and
                v[3] is None and cm.aff_is(v[2], {
                    'Frame.parse_frame_header(<ext>, self.data[:9])[1]': 1},
                    9)):
            lo = cm.show0(v[2]) if v[0] == 'slice' and v[2] else '?'
            if not (v[0] == 'slice' and v[3] is None and lo.endswith('+ 9')
                    and 'parse_frame_header' in lo):
                bad.append('consumed prefix is %s, expected 9 + the length '
                           'from the frame header' % lo)
    ctx.ob('OWN.buffer', f2.qual, 'a parsed frame consumes 9 + length',
           n > 0 and not bad, '; '.join(sorted(set(bad))) or
           'self.data = self.data[9 + length:]', node=f2.node)
    # decisions read only the parser state
    bad = []
    n = 0
    for q in (FB + '__next__', FB + '_update_header_buffer',
              FB + '_validate_frame_length', FB + 'add_data'):
        f = m.func(q)
        for p in eng.I.run(f):
            for e in p.events:
                if e.kind == 'assume':
                    n += 1
                    extra = self_attrs_in(e.cond) - PARSER_STATE - (
                        {'_preamble', '_preamble_len'}
                        if q.endswith('add_data') else set())
                    if extra:
                        bad.append('%s decides on %s' % (f.name,
                                                         sorted(extra)))
    ctx.ob('OWN.decisions', 'frame_buffer.FrameBuffer',
           'parsing decisions read only the parser state', n > 5 and
           not bad, '; '.join(sorted(set(bad))) or
           '%d conditions read only data/_headers_buffer/max_frame_size'
           % n)
    # no other state on FrameBuffer
    cls = m.cls('frame_buffer.FrameBuffer')
    fields = set()
    for nd in ast.walk(cls.node):
        if isinstance(nd, ast.Attribute) and isinstance(nd.ctx, ast.Store) \
                and isinstance(nd.value, ast.Name) and nd.value.id == 'self':
            fields.add(nd.attr)
    ctx.ob('OWN.decisions', cls.qual, 'fields of the frame buffer',
           # (max_frame_size is the connection's to set: whether the class
           # gives it a placeholder first makes no difference)
           fields | {'max_frame_size'} | (
               {'_preamble_len'} if derived_len else set()) == {
               'data', 'max_frame_size', '_preamble', '_preamble_len',
               '_headers_buffer'},
           'fields: %s' % sorted(fields), node=cls.node)
    # ---- receive_data: one loop, no early exit
    f3 = m.func(H + 'receive_data')
    loops = [nd for nd in ast.walk(f3.node) if isinstance(nd, ast.For)]
    ok = len(loops) == 1
    if ok:
        lp = loops[0]
        # what is iterated is the frame buffer (directly or through a local
        # alias: decided on the value the loop sees on every path)
        its = {cm.attr_chain(e.iterable) for p in eng.I.run(f3)
               for e in p.events if e.kind == 'iter' and e.node is lp}
        ok = its == {'self.incoming_buffer'} and not any(
            isinstance(x, (ast.Break, ast.Return, ast.Continue))
            for x in ast.walk(lp))
    calls_in_loop = [x for x in ast.walk(loops[0])
                     if isinstance(x, ast.Call)] if loops else []
    ok = ok and any(isinstance(c.func, ast.Attribute) and
                    c.func.attr == '_receive_frame' for c in calls_in_loop)
    ctx.ob('ORD.drain', f3.qual, 'the buffer is drained in one loop', ok,
           'for frame in self.incoming_buffer: events.extend('
           '_receive_frame(frame)) without break/return', node=f3.node)
    bad = []
    n = 0
    for p in eng.I.run(f3):
        ad = [e for e in p.events if cm.is_call_to(e, 'add_data')]
        its = [e for e in p.events if e.kind == 'iter']
        if not its:
            if p.exit != 'raise':
                # a call that returns without draining the buffer: what it
                # was given is judged by the NEXT call, or never - the
                # outcome depends on where the chunks were cut
                bad.append('a path returns without appending and parsing '
                           'the input')
            continue
        n += 1
        if len(ad) != 1 or ad[0].args[0] != ('p', 'data') or \
                p.index(ad[0]) > p.index(its[0]):
            bad.append('add_data(data) must precede the loop')
        ws = [e for e in p.events if e.kind == 'write' and
              e.attr == 'max_frame_size' and e.frame == f3.qual]
        if ws and cm.attr_chain(ws[0].value) != \
                'self.max_inbound_frame_size':
            bad.append('the parser limit is set to something else than '
                       'max_inbound_frame_size')
    ctx.ob('ORD.drain', f3.qual, 'input appended before parsing', n > 0 and
           not bad, '; '.join(sorted(set(bad))) or 'ok', node=f3.node)
    check_coh_frame_size(ctx, eng)
    check_output_slicing(ctx, eng)
    check_incomplete_frame(ctx, eng)
    cm.include(ctx, eng, 'C11',
               lambda o: o.rule == 'COH.apply-map' and
               o.desc.startswith('local '),
               'a limit the peer acknowledged applies from the ACK on, not '
               'from the next receive_data call: otherwise frames that share '
               'a chunk with the ACK are judged differently')
    cm.include(ctx, eng, 'C06',
               lambda o: o.rule == 'FSM.layer3' and isinstance(o.desc, str)
               and o.desc.startswith('normal dispatch emits'),
               'what a frame makes the connection send is queued when that '
               'frame is handled, not at the end of the call: a connection '
               'error raised by a later frame of the same chunk would drop '
               'it, and the bytes would depend on the chunking')
    ctx.assume('equality of event lists under all chunkings as such is not '
               'decided; it rests on "the parser state is a function of the '
               'bytes so far", which the clauses establish structurally')


def check_coh_frame_size(ctx, eng):
    """COH: every write of max_inbound_frame_size refreshes the parser."""
    m = eng.m
    cls_c = m.cls('connection.H2Connection')
    bad = []
    n = 0
    for name, f in sorted(m.methods_of(cls_c.qual).items()):
        if name == '__init__':
            continue
        for p in cm.normal_paths(eng.I.run(f)):
            for e in p.events:
                if e.kind == 'write' and e.attr == 'max_inbound_frame_size' \
                        and e.frame == f.qual and e.base == ('p', 'self'):
                    n += 1
                    fresh = [x for x in p.events if x.kind == 'write' and
                             x.attr == 'max_frame_size' and
                             cm.attr_chain(x.base) == 'self.incoming_buffer'
                             and x.value == e.value]
                    if not fresh:
                        bad.append('%s changes max_inbound_frame_size but '
                                   'the frame buffer keeps the old limit '
                                   'until the next receive_data call' % name)
                    elif any(x.kind == 'assume' and
                             p.index(e) < p.index(x) < p.index(fresh[0])
                             for x in p.events):
                        bad.append('%s refreshes the frame buffer\'s limit '
                                   'only under a condition' % name)
    ctx.ob('COH.frame-size', cls_c.qual, 'parser limit follows the setting',
           n > 0 and not bad, '; '.join(sorted(set(bad))) or
           '%d write(s) of max_inbound_frame_size each refresh '
           'incoming_buffer.max_frame_size at once' % n)


def check_output_slicing(ctx, eng):
    """data_to_send(amount) partitions the output."""
    m = eng.m
    f4 = m.func(H + 'data_to_send')
    bad = []
    kinds = set()
    for p in cm.normal_paths(eng.I.run(f4)):
        none = cm.fact_polarity(p, ('is', ('p', 'amount'), T.NONE))
        ws = [e for e in p.events if e.kind == 'write' and
              e.attr == '_data_to_send']
        v = p.value
        if none is None or len(ws) != 1:
            bad.append('unexpected shape')
            continue
        if none:
            kinds.add('all')
            if cm.show0(v) != 'bytes(self._data_to_send)' or \
                    cm.show0(ws[0].value) != 'bytearray()':
                bad.append('without an amount: return everything, keep '
                           'nothing')
        else:
            kinds.add('some')
            if cm.show0(v) != 'bytes(self._data_to_send[:amount])' or \
                    cm.show0(ws[0].value) != 'self._data_to_send[amount:]':
                bad.append('with an amount: return [:amount], keep '
                           '[amount:] (found %s / %s)' % (
                               cm.show0(v), cm.show0(ws[0].value)))
    ctx.ob('ARITH.slice', f4.qual, 'output is partitioned', kinds ==
           {'all', 'some'} and not bad, '; '.join(sorted(set(bad))) or 'ok',
           node=f4.node)
    ctx.assume('equality of event lists under all chunkings as such is not '
               'decided; it rests on "the parser state is a function of the '
               'bytes so far", which the clauses establish structurally')


def check_incomplete_frame(ctx, eng):
    """Once __next__ has found that the bytes of the next frame are not all
    there, it may only stop (StopIteration): any other decision taken in that
    branch is taken on some chunkings and not on others - a frame that
    arrives whole never passes through it - so which error a stream ends in
    would depend on how it was cut.  (Checks made BEFORE the completeness
    test run for both alike.)"""
    m = eng.m
    fi = m.func(FB + '__next__')
    fb = frozenset(q for q, f in m.funcs.items()
                   if f.cls == 'frame_buffer.FrameBuffer' and
                   f.name not in ('__next__', '__init__', '__iter__'))
    I = eng.interp(fb, depth=2)
    paths = I.run(fi)
    guards = set()
    on_return = {cm.show0(e.cond) for p in cm.normal_paths(paths)
                 for e in p.events if e.kind == 'assume'}
    for p in paths:
        r = cm.explicit_raise(p)
        if r is not None and p.exc['names'] == {'StopIteration'}:
            before = [e for e in p.events[:p.index(r)] if e.kind == 'assume']
            # what made this path stop: the conditions it assumed that no
            # path handing out a frame assumes (the last one at least)
            for e in before:
                if cm.show0(e.cond) not in on_return:
                    guards.add(cm.show0(e.cond))
            if before:
                guards.add(cm.show0(before[-1].cond))
    ctx.require(len(guards) >= 2, 'the incomplete-frame exits of '
                'FrameBuffer.__next__ were not found')
    bad = []
    for p in paths:
        if p.exit != 'raise' or p.exc['names'] == {'StopIteration'}:
            continue
        idx = [i for i, e in enumerate(p.events) if e.kind == 'assume' and
               cm.show0(e.cond) in guards]
        if idx:
            bad.append('%s is raised after the frame was found incomplete '
                       '(%s)' % ('/'.join(sorted(p.exc['names'])),
                                 cm.show0(p.events[idx[0]].cond)))
    ctx.ob('ORD.incomplete', fi.qual, 'an incomplete frame only waits',
           not bad, '; '.join(sorted(set(bad))) or 'the %d incomplete-frame '
           'branches can only raise StopIteration' % len(guards),
           node=fi.node)


def check_block_continuity(ctx, eng):
    """While a header block is open (a HEADERS / PUSH_PROMISE without
    END_HEADERS was buffered) the only frame that may follow is a
    CONTINUATION on the same stream: every path of _update_header_buffer that
    accepts a frame with the buffer non-empty has established both facts;
    anything else is a connection error (RFC 7540 6.10).  Shared by C06 and
    C07."""
    fi = eng.m.func(FB + '_update_header_buffer')
    bad = []
    n = 0
    for p in cm.normal_paths(eng.I.run(fi)):
        shows = [cm.show0(e.cond) for e in p.events if e.kind == 'assume']
        if 'self._headers_buffer' not in shows:
            continue
        n += 1
        is_cont = any(s.startswith('isinstance(f, ContinuationFrame')
                      for s in shows)
        same = any(s in ('(f.stream_id == self._headers_buffer[0].stream_id)',
                         '(self._headers_buffer[0].stream_id == f.stream_id)')
                   for s in shows)
        if not is_cont:
            bad.append('a frame that is not a CONTINUATION is accepted '
                       'inside a header block')
        if not same:
            bad.append('a CONTINUATION on another stream is merged into the '
                       'open header block')
    ctx.ob('PAIR.block-continuity', fi.qual, 'an open header block admits '
           'only its own CONTINUATIONs', n > 0 and not bad,
           '; '.join(sorted(set(bad))) or 'ContinuationFrame and the stream '
           'id of the leading frame are both required on all %d accepting '
           'paths' % n, node=fi.node)
