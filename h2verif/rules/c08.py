"""C08 - the library refuses to emit messages that violate HTTP/2 rules.

Decides: (a) every SEND_* cell of the stream machine agrees with the
reference on all API-reachable abstract states (message grammar per role);
(b) with config.client_side fixed, the connection table only accepts what
that role may do (role gates in the API are taken into account); (c) the
trailers-need-END_STREAM refusal on every trailers path of send_headers;
(d) send_headers selects SEND_INFORMATIONAL_HEADERS from the header block on
every non-client path.
"""
from .. import terms as T
from . import common as cm
from .c06 import compare_cells, feedable_from_source
from .roles import compare_conn


def run(ctx, eng):
    ctx.rule('FSM.cell: SEND_* cells of the extracted stream machine vs the '
             'RFC 7540 reference on all API-reachable abstract states')
    ctx.rule('FSM.conn: connection table vs role reference for each role, '
             'restricted to inputs the role can feed (role gates extracted '
             'from path conditions)')
    ctx.rule('ORD: trailers without END_STREAM are refused on every path')
    fsm = eng.fsm
    ctx.record('stream_cells', len(fsm.stream.cells))
    ctx.floor('stream_cells', 60)
    feedable = feedable_from_source(eng, ctx)
    sends = {i for i in fsm.inputs if i.startswith('SEND_')}
    compare_cells(eng, ctx, feedable, inputs=sends)
    # what may be sent next depends on the state every OTHER input leaves
    # behind: an accepted received frame must lead to the reference's state
    # (a 1xx response that re-opens a half-closed stream lets DATA follow
    # END_STREAM)
    compare_cells(eng, ctx, feedable, rule='FSM.state-after',
                  inputs={i for i in fsm.inputs if not i.startswith('SEND_')},
                  differs=lambda exp, got: got[0] == 'ok' and
                  exp[0] == 'ok' and exp[2] != got[2])
    ctx.exhaustive = True
    compare_conn(eng, ctx, 'FSM.conn')
    # (c) trailers must carry END_STREAM
    fi = eng.m.func('stream.H2Stream.send_headers')
    paths = eng.I.run(fi)
    bad = []
    seen_raise = False
    for p in paths:
        ts = cm.fact_polarity(
            p, ('a', ('a', ('p', 'self'), 'state_machine', 0),
                'trailers_sent', 0))
        if ts is None:
            # attribute version may have been bumped by the state step
            for e in p.events:
                if e.kind == 'assume':
                    c, neg = (e.cond[1], True) if e.cond[0] == 'not' \
                        else (e.cond, False)
                    if c[0] == 'truth' and c[1][0] == 'a' and \
                            c[1][2] == 'trailers_sent':
                        ts = not neg
        es = cm.param_truth(p, 'end_stream')
        if p.exit in ('return', 'fall'):
            if not es and ts is not False:
                bad.append('a normally returning path with end_stream false '
                           'never established `not trailers_sent`')
        elif cm.explicit_raise(p) is not None and ts and es is False:
            if p.exc['names'] == {'ProtocolError'}:
                seen_raise = True
    ctx.ob('ORD.trailers', fi.qual, 'trailers require END_STREAM',
           seen_raise and not bad,
           '; '.join(sorted(set(bad))) or
           'ProtocolError raised when trailers_sent and not end_stream',
           node=fi.node)
    # the refusal must come before the header block is encoded
    ok_before = True
    for p in paths:
        r = cm.explicit_raise(p)
        if r is not None and p.exc['names'] == {'ProtocolError'}:
            ts_assumed = any(
                e.kind == 'assume' and 'trailers_sent' in cm.show0(e.cond)
                for e in p.events)
            if ts_assumed and cm.calls_to(p, '_build_headers_frames',
                                          'encode'):
                ok_before = False
    ctx.ob('ORD.trailers', fi.qual, 'refusal precedes encoding', ok_before,
           'the trailers check must not follow _build_headers_frames',
           node=fi.node)
    # (d) informational selection
    bad = []
    n = 0
    for p in cm.normal_paths(paths):
        client = None
        info = None
        for e in p.events:
            if e.kind == 'assume':
                c, neg = (e.cond[1], True) if e.cond[0] == 'not' \
                    else (e.cond, False)
                if c[0] == 'truth' and c[1][0] == 'a' and \
                        c[1][2] == 'client' and client is None:
                    client = not neg
                if c[0] == 'truth' and c[1][0] == 'call' and \
                        c[1][1].endswith('is_informational_response'):
                    info = not neg
                    arg = c[1][2][-1]
                    if arg != ('p', 'headers'):
                        bad.append('informational test not on `headers`')
        steps = cm.process_inputs(p)
        if not steps:
            continue
        n += 1
        first = steps[0][0]
        if client is False and info is None:
            bad.append('a non-client path selects %s without testing '
                       'is_informational_response(headers)' % first)
        if first == 'SEND_INFORMATIONAL_HEADERS' and info is not True:
            bad.append('SEND_INFORMATIONAL_HEADERS without a positive test')
        if first == 'SEND_HEADERS' and info is True:
            bad.append('SEND_HEADERS for an informational block')
    ctx.ob('FSM.layer2', fi.qual, 'input selection by header block',
           not bad and n > 0, '; '.join(sorted(set(bad))) or
           '%d paths select the input from client/is_informational only' % n,
           node=fi.node)
    # END_STREAM on an informational response is refused before the step
    ok = False
    for p in paths:
        r = cm.explicit_raise(p)
        info = any(e.kind == 'assume' and 'is_informational_response' in
                   cm.show0(e.cond) and e.cond[0] != 'not'
                   for e in p.events)
        if r is not None and not cm.process_inputs(p) and \
                cm.param_truth(p, 'end_stream') and info:
            ok = True
        elif info and cm.param_truth(p, 'end_stream') and \
                cm.process_inputs(p):
            # ... on every such path, not on some
            ok = False
            break
    ctx.ob('ORD.informational', fi.qual,
           'END_STREAM on 1xx refused before the state step', ok,
           'ProtocolError before process_input when end_stream and 1xx',
           node=fi.node)
    # what "informational" means: every status that starts with 1 (a table
    # of the codes someone happens to know leaves 103 and the rest final)
    fq = eng.m.func('utilities.is_informational_response')
    bad = []
    n = 0
    for p in cm.normal_paths(eng.I.run(fq)):
        v = p.value
        if v is None or v == T.NONE or (v[0] == 'c' and not v[1]):
            continue
        n += 1
        if v[0] == 'call' and v[1].endswith('.startswith') and \
                len(v[2]) == 2:
            arg = v[2][1]
            if arg[0] == 'c' and arg[1] not in (b'1', '1'):
                bad.append('tests for the prefix %r' % (arg[1],))
            if not (v[2][0][0] == 'lv' or v[2][0][0] == 'sub'):
                bad.append('prefix test not on the field value')
        else:
            bad.append('decided by %s, not by the first digit'
                       % cm.show0(v)[:70])
    ctx.ob('FLOW.informational', fq.qual, '1xx means the value starts with 1',
           n > 0 and not bad, '; '.join(sorted(set(bad))) or
           ':status value .startswith("1")', node=fq.node)
    ctx.assume('header-list validity is decided under C14')
    cm.include(ctx, eng, 'C14',
               lambda o: o.rule == 'ORD.clause' and isinstance(o.where, str)
               and o.where.endswith('_check_pseudo_header_field_acceptability'),
               'a second final response is refused only because a header '
               'block sent after the final one is a trailer block, and a '
               'trailer block may carry no pseudo-header at all')
    cm.include(ctx, eng, 'C22', {('ORD.gates', 'push_stream')},
               'a promised stream becomes reserved only once the parent has '
               'accepted the push: a refused push must not leave a stream on '
               'which the server could then send HEADERS unannounced')
    cm.include(ctx, eng, 'C23', {('ORD.gate', 'prioritize'),
                                 ('ORD.gate', 'send_headers')},
               'a server can send neither PRIORITY nor priority fields on '
               'HEADERS')
