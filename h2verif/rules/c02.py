"""C02 - emitted bytes are well-formed HTTP/2 that encode exactly the calls.

Decides: (a) the frame-size budget of every emit site (a frame's body is
bounded by max_outbound_frame_size before it is appended) and the coherence
of the per-stream copy of that limit; (b) header-block contiguity:
CONTINUATIONs on the first frame's stream id, END_HEADERS on the last frame
only, END_STREAM only on frame 0, the list reaching _prepare_for_sending in
order with nothing interleaved; (c) argument -> wire contracts of the public
calls; (d) the client preface literal and the initial SETTINGS frame; (e)
who writes the output buffer.
"""
import ast

from .. import terms as T
from . import budget
from . import common as cm
from . import flow
from .c11 import check_apply, REMOTE_APPLY
from .c23 import check_priority_frame_fields
from .c25 import settings_fill

H = 'connection.H2Connection.'
S = 'stream.H2Stream.'
PREFACE = b'PRI * HTTP/2.0\r\n\r\nSM\r\n\r\n'


def run(ctx, eng):
    ctx.rule('ARITH.budget per emit site; COH per-stream frame-size limit; '
             'PAIR/FLOW header-block contiguity; FLOW argument->field '
             'contracts (callees inlined); TAB preface; OWN output buffer')
    m = eng.m
    # ---- (a)
    sites, header_ok, why = budget.emit_sites(eng)
    ctx.ob('ARITH.budget', S + '_build_headers_frames',
           'header blocks sliced to the limit', header_ok,
           '; '.join(why) or 'every block is a slice of at most '
           'max_outbound_frame_size bytes')
    n = 0
    for (q, ln), s in sorted(sites.items()):
        n += 1
        for desc, ok, reason in sorted(s['frames']):
            ctx.ob('ARITH.budget', q, desc, ok,
                   ('%s: %s' % (desc, reason)) if ok else
                   'no bound on the body of %s is established before it is '
                   'appended (%s); the only check is the assertion after '
                   'the append' % (desc, reason), node=s['node'])
    ctx.record('emit_sites', n)
    ctx.floor('emit_sites', 12)
    check_apply(ctx, eng, H + '_acknowledge_settings',
                {'MAX_FRAME_SIZE': REMOTE_APPLY['MAX_FRAME_SIZE']}, 'remote')
    f0 = m.func(H + '_begin_new_stream')
    ok = any(e.kind == 'write' and e.attr == 'max_outbound_frame_size' and
             cm.attr_chain(e.value) == 'self.max_outbound_frame_size'
             for p in cm.normal_paths(eng.I.run(f0)) for e in p.events)
    ctx.ob('COH.frame-size', f0.qual, 'new streams copy the current limit',
           ok, 's.max_outbound_frame_size = self.max_outbound_frame_size',
           node=f0.node)
    # ---- (b) contiguity
    fb = m.func(S + '_build_headers_frames')
    bad = []
    n = 0
    for p in cm.normal_paths(eng.I.run(fb)):
        n += 1
        el = cm.list_elems(p, p.value)
        if not el or el[0] != ('p', 'first_frame'):
            bad.append('first frame is not first')
            continue
        # which slice goes where: the first frame carries slice 0, the
        # CONTINUATIONs the slices from 1 on, one each, in order
        blocks = budget.block_comps(p)
        fw = [e for e in p.events if e.kind == 'write' and e.attr == 'data'
              and e.base == ('p', 'first_frame')]
        first = fw[-1].value if fw else None
        B = None

        def is_blocks(t):
            # the list of slices, or `<that> or [b'']`
            return t in blocks or (
                t[0] == 'or' and len(t[1]) == 2 and t[1][0] in blocks and
                t[1][1][0] == 'obj')
        if blocks:
            if first == T.C(b''):
                pass        # the empty block: one frame, nothing follows
            elif first is not None and first[0] == 'sub' and \
                    first[2] == T.C(0) and is_blocks(first[1]):
                B = first[1]
            else:
                bad.append('the first frame does not carry the first slice '
                           'of the block (found %s)' % (
                               cm.show0(first)[:60] if first else 'no data'))
        for x in el[1:]:
            if x[0] == 'splat' and x[1][0] == 'comp':
                x = x[1][1]     # extend(<frame> for block in ...)
            f = p.state.objs.get(x, {})
            if blocks:
                d = f.get('data')
                it = d[2] if d is not None and d[0] == 'lv' and \
                    len(d) == 3 else None
                if B is not None and it != ('slice', B, T.C(1), None):
                    bad.append('a CONTINUATION does not carry the next slice '
                               'of the block (data %s)' % (
                                   cm.show0(d)[:60] if d else 'not set'))
                elif B is None and (it is None or it[0] != 'obj'):
                    bad.append('a CONTINUATION after an empty block')
            if not cm.is_self_attr(f.get('stream_id'), 'stream_id'):
                bad.append('a CONTINUATION is on another stream id')
            if f.get('flags', ('set', frozenset()))[1] - {
                    T.C('END_HEADERS')}:
                bad.append('unexpected flags on a CONTINUATION')
        # END_HEADERS: exactly one add, on frames[-1], after the loop
        adds = [e for e in p.events if e.kind in ('flag', 'call') and (
            (e.kind == 'flag' and e.flag == T.C('END_HEADERS')) or
            (e.kind == 'call' and cm.ev_callee_names(e) & {'add'} and
             e.args and e.args[0] == T.C('END_HEADERS')))]
        if len(adds) != 1 or adds[0].in_loop:
            bad.append('END_HEADERS must be set exactly once, after all '
                       'frames are built')
        else:
            a = adds[0]
            last = el[-1]
            tgt = a.obj if a.kind == 'flag' else None
            if a.kind == 'call':
                r = a.recv
                tgt = r[1] if r and r[0] == 'a' else None
                if tgt is not None and tgt[0] == 'sub':
                    idx = tgt[2]
                    if idx != T.C(-1):
                        bad.append('END_HEADERS not on the last frame')
                    tgt = None
            if tgt is not None and tgt != last:
                bad.append('END_HEADERS not on the last frame')
    # the block is cut into consecutive slices that cover it exactly: no
    # slice is empty unless the block is, none is skipped or repeated
    comps = []
    for p in cm.normal_paths(eng.I.run(fb)):
        for c in budget.block_comps(p):
            if c not in comps:
                comps.append(c)
    if not comps:
        ctx.note('_build_headers_frames fills its block list by a loop: the '
                 'exact-cover clause reads comprehensions only and is not '
                 'decided for this form (the width bound is)')
    ctx.ob('ARITH.partition', fb.qual, 'header block cut into consecutive '
           'slices', all(budget.exact_partition(c) for c in comps),
           '[block[i:i+M] for i in range(0, len(block), M)]: ceil(L/M) '
           'frames, an empty one only for an empty block (found %s)'
           % [cm.show0(c)[:90] for c in comps], node=fb.node)
    ctx.ob('PAIR.contiguity', fb.qual, 'one block, END_HEADERS last',
           n > 0 and not bad, '; '.join(sorted(set(bad))) or
           'first frame, then CONTINUATIONs on the same stream, END_HEADERS '
           'on the last frame only', node=fb.node)
    for q, cls in ((S + 'send_headers', 'HeadersFrame'),
                   (S + 'push_stream_in_band', 'PushPromiseFrame')):
        fi = m.func(q)
        bad = []
        n = 0
        for p in cm.normal_paths(eng.I.run(fi)):
            n += 1
            news = [e for e in p.events if e.kind == 'new' and e.cls == cls]
            bh = cm.calls_to(p, '_build_headers_frames')
            if len(news) != 1 or len(bh) != 1:
                bad.append('one first frame and one block build expected')
                continue
            f = p.state.objs.get(news[0].obj, {})
            if not cm.is_self_attr(f.get('stream_id'), 'stream_id'):
                bad.append('first frame on another stream id')
            if bh[0].args[2] != news[0].obj:
                bad.append('the frame built is not handed to the block '
                           'builder')
            if p.value != bh[0].result:
                bad.append('the block is not returned as built')
            es = cm.param_truth(p, 'end_stream') if cls == 'HeadersFrame' \
                else None
            adds = [e for e in p.events if e.kind == 'call' and
                    cm.ev_callee_names(e) & {'add'} and e.args and
                    e.args[0] == T.C('END_STREAM')]
            # (set on the first frame itself, before or after the build: it
            # is the frame handed to the builder, checked above)
            own = [e for e in p.events if e.kind == 'flag' and
                   e.obj == news[0].obj and e.flag == T.C('END_STREAM')]
            if cls == 'HeadersFrame':
                if bool(es) != bool(adds or own):
                    bad.append('END_STREAM flag does not follow end_stream')
                for a in adds:
                    r = a.recv
                    if not (r and r[0] == 'a' and r[1][0] == 'sub' and
                            r[1][2] == T.C(0) and
                            r[1][1] == bh[0].result):
                        bad.append('END_STREAM not on frame 0 of the block')
            if cls == 'PushPromiseFrame' and \
                    f.get('promised_stream_id') != ('p',
                                                    'related_stream_id'):
                bad.append('promised id not in the frame')
        ctx.ob('PAIR.contiguity', fi.qual, 'first frame of the block', n > 0
               and not bad, '; '.join(sorted(set(bad))) or 'ok',
               node=fi.node)
    for q, callee in ((H + 'send_headers', 'send_headers'),
                      (H + 'push_stream', 'push_stream_in_band')):
        fi = m.func(q)
        bad = []
        n = 0
        for p in cm.normal_paths(eng.I.run(fi)):
            n += 1
            cs = [e for e in p.events if e.kind == 'call' and
                  S + callee in e.names]
            ps = cm.calls_to(p, '_prepare_for_sending')
            if len(cs) != 1 or len(ps) != 1:
                bad.append('one block and one emit expected')
                continue
            a = ps[0].args[0]
            if a != cs[0].result and not (
                    a[0] == 'concat' and a[1] == cs[0].result and
                    a[2][0] == 'call' and 'locally_pushed' in a[2][1]):
                bad.append('what is emitted is not the block as built '
                           '(%s)' % cm.show0(a)[:60])
        ctx.ob('PAIR.contiguity', fi.qual, 'block emitted whole and in order',
               n > 0 and not bad, '; '.join(sorted(set(bad))) or 'ok',
               node=fi.node)
    fl = m.func(S + 'locally_pushed')
    lp = cm.normal_paths(eng.I.run(fl))
    ok = all(cm.list_elems(p, p.value) == () for p in lp)
    if not ok and lp and all(p.value is None or p.value == T.NONE
                             for p in lp):
        # it returns nothing at all: then nothing of it may be emitted
        fp_ = m.func(H + 'push_stream')
        ok = not any(
            'locally_pushed' in cm.show0(e.args[0])
            for p in cm.normal_paths(eng.I.run(fp_))
            for e in cm.calls_to(p, '_prepare_for_sending') if e.args)
    ctx.ob('PAIR.contiguity', fl.qual, 'adds no frame after the block', ok,
           'locally_pushed returns no frames', node=fl.node)
    # ---- (c) contracts not decided elsewhere
    I = flow.stream_inliner(eng)
    check_priority_frame_fields(ctx, eng)
    fr = m.func(H + 'reset_stream')
    ok = cm.Every()
    for p in cm.normal_paths(I.run(fr)):
        news = [e for e in p.events if e.kind == 'new' and
                e.cls == 'RstStreamFrame']
        if len(news) == 1:
            f = p.state.objs.get(news[0].obj, {})
            sid = f.get('stream_id')
            ok(f.get('error_code') == ('p', 'error_code') and
               sid is not None and sid[0] == 'a' and
               sid[2] == 'stream_id' and sid[1][0] == 'call' and
               sid[1][2][-1] == ('p', 'stream_id'))
    ctx.ob('FLOW.contract', fr.qual, 'RST_STREAM(stream_id){error_code}', ok,
           'the stream looked up by stream_id resets itself with error_code',
           node=fr.node)
    fe = m.func(H + 'end_stream')
    ok = cm.Every()
    for p in cm.normal_paths(I.run(fe)):
        news = [e for e in p.events if e.kind == 'new' and
                e.cls == 'DataFrame']
        if len(news) == 1:
            f = p.state.objs.get(news[0].obj, {})
            ok(f.get('flags') == ('set', frozenset([T.C('END_STREAM')]))
               and 'data' not in f)
    ctx.ob('FLOW.contract', fe.qual, 'empty DATA with END_STREAM', ok,
           'DataFrame(stream id){END_STREAM}', node=fe.node)
    fd = m.func(H + 'send_data')
    bad = []
    n = 0
    for p in cm.normal_paths(I.run(fd)):
        news = [e for e in p.events if e.kind == 'new' and
                e.cls == 'DataFrame']
        if len(news) != 1:
            continue
        n += 1
        f = p.state.objs.get(news[0].obj, {})
        fl_ = f.get('flags', ('set', frozenset()))[1]
        es = cm.param_truth(p, 'end_stream')
        padded = cm.fact_polarity(p, ('is', ('p', 'pad_length'), T.NONE))
        if (T.C('END_STREAM') in fl_) != bool(es):
            bad.append('END_STREAM flag does not follow end_stream')
        if (T.C('PADDED') in fl_) != (padded is False):
            bad.append('PADDED flag does not follow pad_length')
        if f.get('data') != ('p', 'data'):
            bad.append('payload is not the argument')
        sid = f.get('stream_id')
        if not (sid and sid[0] == 'a' and sid[2] == 'stream_id'):
            bad.append('frame not on the stream\'s id')
    ctx.ob('FLOW.contract', fd.qual, 'DATA flags and payload', n >= 4 and
           not bad, '; '.join(sorted(set(bad))) or 'ok', node=fd.node)
    # ---- (d) preface and initial SETTINGS
    fi = m.func(H + 'initiate_connection')
    bad = []
    kinds = set()
    for p in cm.normal_paths(eng.I.run(fi)):
        cs = None
        for e in p.events:
            if e.kind == 'assume' and cm.show0(e.cond) in (
                    'self.config.client_side',
                    'not self.config.client_side'):
                cs = e.cond[0] != 'not'
        ws = [e for e in p.events if e.kind == 'write' and
              e.attr == '_data_to_send']
        if cs is None or len(ws) != 1 or ws[0].aug != '+':
            bad.append('role not consulted or output not appended once')
            continue
        kinds.add(cs)
        op = ws[0].operand
        # preamble + f.serialize()
        pre = op[1] if op[0] == 'concat' else None
        ser = op[2] if op[0] == 'concat' else op
        want = T.C(PREFACE) if cs else T.C(b'')
        if pre != want:
            bad.append('%s preface is %s' % ('client' if cs else 'server',
                                             cm.show0(pre) if pre else '?'))
        if not (ser[0] == 'call' and ser[1].endswith('serialize') and
                ser[2][0][0] == 'obj' and ser[2][0][2] == 'SettingsFrame'):
            bad.append('the preface is not followed by the SETTINGS frame')
        looped = any(e.in_loop for e in p.events)
        fr_ = settings_fill(p, fi.qual)
        if looped and not any(filled for _, filled in fr_):
            bad.append('SETTINGS not filled from local_settings.items()')
        if [s for s, _, _ in cm.process_inputs(p)] != ['SEND_SETTINGS']:
            bad.append('connection input')
    ctx.ob('TAB.preface', fi.qual, 'preface and initial SETTINGS', kinds ==
           {True, False} and not bad, '; '.join(sorted(set(bad))) or
           'client: RFC 7540 3.5 preface + SETTINGS(all local settings); '
           'server: SETTINGS only', node=fi.node)
    fbuf = m.func('frame_buffer.FrameBuffer.__init__')
    # on the server paths the expected preamble is the RFC literal, on the
    # client paths it is empty (whatever the shape of the conditional)
    seen = {}
    for p in cm.normal_paths(eng.I.run(fbuf)):
        ws = [e for e in p.events if e.kind == 'write' and
              e.attr == '_preamble']
        srv = cm.param_truth(p, 'server')
        if ws:
            v = ws[-1].value
            if v[0] == 'ifexp' and len(v) == 4:
                # an undecided conditional expression: read both arms
                if cm.show0(v[1]) == 'server':
                    seen.setdefault(True, set()).add(cm.const_of(v[2]))
                    seen.setdefault(False, set()).add(cm.const_of(v[3]))
                continue
            seen.setdefault(srv, set()).add(cm.const_of(v))
    ok = seen.get(True) == {PREFACE} and seen.get(False) == {b''}
    ctx.ob('TAB.preface', fbuf.qual, 'the server expects the same literal',
           ok, 'FrameBuffer(server=True) expects the RFC preface',
           node=fbuf.node)
    # ---- (e)
    writers = flow.attr_writers(eng, '_data_to_send')
    allowed = {H + x for x in ('__init__', '_prepare_for_sending',
                               'initiate_connection', 'data_to_send',
                               'clear_outbound_data_buffer')}
    ctx.ob('OWN.output', H + '_data_to_send', 'writers', set(writers) ==
           allowed, 'written by %s' % sorted(w.split('.')[-1]
                                             for w in writers))
    fp = m.func(H + '_prepare_for_sending')
    ok = cm.Every()
    for p in cm.normal_paths(eng.I.run(fp)):
        ws = [e for e in p.events if e.kind == 'write' and
              e.attr == '_data_to_send']
        if ws:
            op = ws[0].operand
            ok(len(ws) == 1 and
               ws[0].aug == '+' and op is not None and op[0] == 'call'
               and op[1] == '.join' and op[2][0] == T.C(b'') and
               op[2][1][0] == 'comp' and op[2][1][2] == ('p', 'frames'))
    ctx.ob('FLOW.emit', fp.qual, 'frames serialised in list order', ok,
           'b"".join(f.serialize() for f in frames) appended', node=fp.node)
    # update_settings: the frame carries exactly the settings asked for, and
    # exactly those are queued as pending
    fu = m.func(H + 'update_settings')
    bad = []
    n = 0
    for p in cm.normal_paths(eng.I.run(fu)):
        n += 1
        sf = [e for e in p.events if e.kind == 'new' and
              e.cls == 'SettingsFrame']
        if len(sf) != 1:
            bad.append('exactly one SETTINGS frame expected')
            continue
        f = p.state.objs.get(sf[0].obj, {})
        if f.get('settings') != ('p', 'new_settings'):
            bad.append('the frame carries %s, not the new_settings argument'
                       % cm.show0(f.get('settings')) if f.get('settings')
                       else 'the frame carries no settings')
        up = [e for e in p.events if e.kind == 'call' and
              cm.ev_callee_names(e) & {'update', 'MutableMapping.update'} and
              cm.attr_chain(e.get('recv')) == 'self.local_settings']
        if len(up) != 1 or up[0].args[0] != ('p', 'new_settings'):
            bad.append('local_settings.update(new_settings) expected')
    ctx.ob('FLOW.contract', fu.qual, 'SETTINGS carries the requested values',
           n > 0 and not bad, '; '.join(sorted(set(bad))) or
           's.settings = new_settings; local_settings.update(new_settings)',
           node=fu.node)
    # the size check reads Frame.body_len, which hyperframe fills in inside
    # serialize() (it is 0 until then): a check placed before the
    # serialisation compares 0 with the limit and never fires
    ser_at = chk_at = None
    for i, st in enumerate(fp.node.body):
        txt = ast.unparse(st)
        if '.serialize(' in txt and ser_at is None:
            ser_at = i
        if 'body_len' in txt and isinstance(st, (ast.Assert, ast.If)) and \
                chk_at is None:
            chk_at = i
    ctx.ob('ORD.size-check', fp.qual, 'body_len is read after serialize()',
           chk_at is None or (ser_at is not None and ser_at <= chk_at),
           'the size check on Frame.body_len precedes the serialisation '
           'that sets it' if chk_at is not None and (
               ser_at is None or ser_at > chk_at) else
           'checked after serialisation (or no such check)', node=fp.node)
    cm.include(ctx, eng, 'C13',
               lambda o: o.rule == 'ATOM.ENC' and isinstance(o.desc, str) and
               (o.desc.startswith('raise after encode') or
                o.desc.startswith('no raise after an encode') or
                o.desc.startswith('lazy-arg')),
               'a header block that was encoded but not emitted leaves the '
               'encoder ahead of the bytes: the next block no longer decodes '
               'at an independent decoder')
    cm.include(ctx, eng, 'C23', {('ORD.gate', 'send_headers')},
               'the priority fields a send_headers call is given are on the '
               'HEADERS frame it emits, whichever header block of the stream '
               'that is')
    cm.include(ctx, eng, 'C21', {'ARITH.slice'},
               'what data_to_send hands out, in whatever portions, is the '
               'buffer: every appended byte exactly once and in order')
    ctx.assume('that hyperframe serialises a frame object correctly and '
               'HPACK output are trusted; "parses with an independent '
               'decoder" as such is not decided')
