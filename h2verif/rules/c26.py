"""C26 - each received PING is answered exactly once with the same payload.

Decides (completely structural): _receive_ping_frame returns, on the non-ACK
path, exactly one PingFrame(0) with flags {ACK} and opaque_data =
frame.opaque_data and one PingReceived with that payload, and on the ACK path
no frame and one PingAckReceived; the answer travels through the normal
append path (it is returned to _receive_frame, nothing else touches the
output buffer); ping() accepts exactly 8 bytes and emits one PingFrame(0)
with the argument.  Order of answers follows from the single processing loop
and the append-only output buffer.
"""
from .. import terms as T
from . import common as cm
from . import flow

H = 'connection.H2Connection.'


def run(ctx, eng):
    ctx.rule('FLOW: trace shape of _receive_ping_frame and ping(); OWN: '
             'writers of the output buffer; ARITH: 8-byte payload check')
    m = eng.m
    fi = m.func(H + '_receive_ping_frame')
    paths = eng.I.run(fi)
    normal = cm.normal_paths(paths)
    ctx.require(normal, '_receive_ping_frame has no normal path')
    seen = set()
    bad = []
    for p in normal:
        ack = cm.fact_polarity(p, ('in', T.C('ACK'),
                                   ('a', ('p', 'frame'), 'flags', 0)))
        if ack is None:
            bad.append('a path does not test the ACK flag')
            continue
        seen.add(ack)
        v = p.value
        if not (v and v[0] == 'tuple' and len(v[1]) == 2):
            bad.append('does not return (frames, events)')
            continue
        frames = cm.list_elems(p, v[1][0])
        if frames is None:
            bad.append('returned frames are not a plain list')
            continue
        evs = [e for e in p.events if e.kind == 'new' and
               e.cls in ('PingReceived', 'PingAckReceived')]
        if len(evs) != 1:
            bad.append('%d ping events built' % len(evs))
            continue
        evo = p.state.objs.get(evs[0].obj, {})
        if cm.attr_chain(evo.get('ping_data')) != 'frame.opaque_data':
            bad.append('event payload is not frame.opaque_data')
        appended = [e for e in p.events if e.kind == 'call' and
                    cm.ev_callee_names(e) & {'append'} and
                    e.args and e.args[0] == evs[0].obj]
        if len(appended) != 1 or not T.mentions(v[1][1],
                                                appended[0].recv):
            bad.append('the event is not appended once to the returned '
                       'events')
        steps = [s for s, _, _ in cm.process_inputs(p)]
        if steps != ['RECV_PING']:
            bad.append('connection input %s' % steps)
        if any(e.kind == 'write' and e.attr == '_data_to_send' or
               cm.is_call_to(e, '_prepare_for_sending') for e in p.events):
            bad.append('the handler touches the output buffer itself')
        if ack:
            if evs[0].cls != 'PingAckReceived':
                bad.append('ACK reported as %s' % evs[0].cls)
            if frames:
                bad.append('a PING ACK is answered')
        else:
            if evs[0].cls != 'PingReceived':
                bad.append('PING reported as %s' % evs[0].cls)
            if len(frames) != 1 or frames[0][0] != 'obj' or \
                    frames[0][2] != 'PingFrame':
                bad.append('a PING must be answered by exactly one PingFrame '
                           '(found %d frames)' % len(frames))
                continue
            f = p.state.objs.get(frames[0], {})
            fl = f.get('flags', ('set', frozenset()))
            if f.get('stream_id') not in (T.C(0), None):
                bad.append('answer not on stream 0')
            if fl != ('set', frozenset([T.C('ACK')])):
                bad.append('answer flags are %s' % cm.show0(fl))
            if cm.attr_chain(f.get('opaque_data')) != 'frame.opaque_data':
                bad.append('answer payload is not frame.opaque_data')
            if any(e.kind == 'assume' and 'ACK' not in cm.show0(e.cond)
                   for e in p.events):
                bad.append('the answer depends on something else than the '
                           'ACK flag')
    ctx.ob('FLOW.ping', fi.qual, 'one ACK per PING, none per ACK',
           seen == {True, False} and not bad, '; '.join(sorted(set(bad))) or
           'non-ACK: [PingFrame(0){ACK, same payload}] + PingReceived; ACK: '
           '[] + PingAckReceived', node=fi.node)
    # the returned frames are appended in arrival order by _receive_frame
    f2 = m.func(H + '_receive_frame')
    ok = cm.Every()
    for p in cm.normal_paths(eng.I.run(f2)):
        if any(e.kind == 'catch' for e in p.events):
            continue
        ps = cm.calls_to(p, '_prepare_for_sending')
        ok(len(ps) == 1 and ps[0].args[0][0] == 'sub' and
           ps[0].args[0][2] == T.C(0) and ps[0].args[0][1][0] == 'call')
    ctx.ob('FLOW.ping', f2.qual, 'handler frames appended as returned', ok,
           '_prepare_for_sending(frames) with the list the handler returned',
           node=f2.node)
    f3 = m.func(H + '_prepare_for_sending')
    ok = cm.Every()
    for p in cm.normal_paths(eng.I.run(f3)):
        ws = [e for e in p.events if e.kind == 'write' and
              e.attr == '_data_to_send']
        if ws:
            ok(len(ws) == 1 and ws[0].aug == '+')
    ctx.ob('FLOW.append', f3.qual, 'output buffer is appended to', ok,
           'self._data_to_send += serialised frames (append only, in list '
           'order)', node=f3.node)
    writers = flow.attr_writers(eng, '_data_to_send')
    allowed = {H + x for x in ('__init__', '_prepare_for_sending',
                               'initiate_connection', 'data_to_send',
                               'clear_outbound_data_buffer')}
    ctx.ob('OWN.output', 'connection.H2Connection._data_to_send', 'writers',
           set(writers) == allowed, 'written by %s' % sorted(
               w.split('.')[-1] for w in writers))
    # ---- ping()
    f4 = m.func(H + 'ping')
    paths = eng.I.run(f4)
    refusals = set()
    for p in paths:
        r = cm.explicit_raise(p)
        if r is not None and p.exc['names'] == {'ValueError'} and \
                not cm.process_inputs(p):
            refusals.add(cm.show0([e for e in p.events
                                   if e.kind == 'assume'][-1].cond))
    ok = refusals == {'not isinstance(opaque_data, bytes)',
                      '(len(opaque_data) - 8 != 0)'}
    ctx.ob('ARITH.ping-len', f4.qual, 'payload must be 8 bytes', ok,
           'ValueError unless bytes of length 8, before any effect (found '
           '%s)' % sorted(refusals), node=f4.node)
    bad = []
    n = 0
    for p in cm.normal_paths(paths):
        n += 1
        frames = [e for e in p.events if e.kind == 'new' and
                  e.cls == 'PingFrame']
        ps = cm.calls_to(p, '_prepare_for_sending')
        if len(frames) != 1 or len(ps) != 1:
            bad.append('exactly one PingFrame and one emit expected')
            continue
        f = p.state.objs.get(frames[0].obj, {})
        if f.get('stream_id') != T.C(0) or \
                f.get('opaque_data') != ('p', 'opaque_data') or \
                f.get('flags') != ('set', frozenset()):
            bad.append('PingFrame(0){opaque_data=argument}, no ACK expected')
        if cm.list_elems(p, ps[0].args[0]) != (frames[0].obj,):
            bad.append('emits something else than the PING')
        if [s for s, _, _ in cm.process_inputs(p)] != ['SEND_PING']:
            bad.append('connection input')
    ctx.ob('FLOW.ping', f4.qual, 'ping() emits one PING with the payload',
           n > 0 and not bad, '; '.join(sorted(set(bad))) or 'ok',
           node=f4.node)
    # a PING is answered in every connection state before close: the PING
    # cells of the connection machine agree with the role reference
    from . import roles
    roles.compare_conn(eng, ctx, 'FSM.conn', inputs={'SEND_PING', 'RECV_PING'})
    # an ACK that was queued is only ever discarded together with everything
    # else, when the peer's GOAWAY arrives (C19): nothing else inside the
    # library empties or rewinds the output buffer
    callers = sorted({f.qual for f, _ in cm.find_funcs_calling(
        eng, 'clear_outbound_data_buffer')})
    ctx.ob('OWN.discard', 'connection.H2Connection.clear_outbound_data_buffer',
           'internal callers', callers ==
           ['connection.H2Connection._receive_goaway_frame'],
           'queued output is dropped only on a received GOAWAY (found %s)'
           % [c.split('.')[-1] for c in callers])
    cm.include(ctx, eng, 'C21', {'ARITH.slice', 'OWN.buffer',
                                 'OWN.decisions'},
               'an ACK that was queued is handed out whole: data_to_send '
               'partitions the buffer; and a PING that has arrived completely '
               'is reported whatever was delivered before it: the parser '
               'keeps no state from incomplete input beyond the bytes')
    cm.check_event_classes(ctx, eng, {'PingReceived', 'PingAckReceived'})
    cm.include(ctx, eng, 'C02', {'TAB.preface', 'OWN.buffer'},
               'a queued ACK stays queued: the preface is appended to the '
               'output, it does not replace it')
    # "every received PING": no payload makes the handler give up - the only
    # refusal is the connection machine's (a closed connection)
    fpi = eng.m.func('connection.H2Connection._receive_ping_frame')
    esc = eng.R.of(fpi.qual)
    extra = sorted(set(esc) - {'ProtocolError'})
    ctx.ob('ESC.ping', fpi.qual, 'refused by the connection machine only',
           not extra, '; '.join('%s from %s' % (x, '; '.join(sorted(
               '%s %s' % (o[0].split('.')[-1], o[2])
               for o in getattr(esc[x], 'origins', ())))[:160])
               for x in extra) or 'escape set %s' % sorted(esc),
           node=fpi.node)
