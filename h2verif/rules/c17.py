"""C17 - arbitrary peer bytes never produce a non-protocol exception.

Decides: may_raise(H2Connection.receive_data) is a subset of the subclasses
of ProtocolError.  Every explicit raise, assertion, partial operation and
external call in the functions reachable from receive_data (through the
dispatch table, the stream machine, the header pipelines as lazily consumed
generators, the frame buffer) is an obligation, discharged by a handler, a
dominating guard, a shape fact or a named exemption.
"""
import ast

from ..raises import format_witness, EXEMPT, ASSERT_AS_PRECONDITION
from ..srcmodel import walk_own
from . import common as cm

ENTRY = 'connection.H2Connection.receive_data'


def reachable_from(eng, entry):
    """Functions reachable from entry in the resolved call graph (including
    generator bodies consumed lazily, properties and dispatch tables)."""
    W = eng.I.writes
    seen = set()
    stack = [entry]
    while stack:
        q = stack.pop()
        if q in seen:
            continue
        seen.add(q)
        fi = eng.m.funcs.get(q)
        if fi is None:
            continue
        for c in W.calls.get(q, ()):
            stack.append(c)
        for n in walk_own(fi.node):
            # generator objects consumed here
            if isinstance(n, (ast.For, ast.comprehension)):
                for a in eng.r.type_of(n.iter, fi):
                    if a[0] == 'gen':
                        stack.append(a[1])
            if isinstance(n, ast.Call):
                for arg in n.args:
                    for a in eng.r.type_of(arg, fi):
                        if a[0] == 'gen':
                            stack.append(a[1])
                for tg in eng.r.targets(n):
                    if tg.kind in ('h2', 'h2class') and tg.fi is not None:
                        stack.append(tg.fi.qual)
            if isinstance(n, ast.Subscript):
                for a in eng.r.type_of(n.value, fi):
                    if a[0] == 'inst':
                        for mn in ('__getitem__', '__setitem__'):
                            meth = eng.m.lookup_method(a[1], mn)
                            if meth is not None:
                                stack.append(meth.qual)
        # nested generator functions
        for q2, f2 in eng.m.funcs.items():
            if f2.parent is fi:
                stack.append(q2)
    return seen


KNOWN_UNSUMMARISED = set()   # (function, callee text) pairs; none needed


def require_summaries(ctx, eng, reach):
    """Fail closed (exit 2, not a verdict) when an external call without a
    summary line is reachable: its exceptions are unknown."""
    miss = sorted({(q, n) for q, n in eng.R.unsummarised
                   if q in reach} - KNOWN_UNSUMMARISED)
    ctx.require(not miss, 'external calls without a summary line are '
                'reachable, the escape set cannot be decided: %r' % miss[:6])


def run(ctx, eng):
    ctx.rule('ESC: exception-escape set of receive_data over the resolved '
             'call graph; each partial operation / assertion / external '
             'call discharged by handler, dominating guard, shape fact or '
             'named exemption')
    m = eng.m
    fi = m.func(ENTRY)
    reach = reachable_from(eng, fi.qual)
    ctx.record('functions_reachable', len(reach))
    ctx.floor('functions_reachable', 70)
    require_summaries(ctx, eng, reach)
    cm.attrs_initialised(ctx, eng)
    # what the receive path gets back from the stream machine it treats as a
    # list of events (extends, indexes): every function a RECV_* / UPGRADE_*
    # cell names returns one on every returning path (the functions of the
    # SEND_* cells whose result nobody reads return None)
    fsm = eng.fsm
    per_fn = {}
    for (st, inp), (fn, nxt, node) in sorted(fsm.stream.cells.items()):
        if fn and not inp.startswith('SEND_'):
            per_fn.setdefault(fn, []).append('%s|%s' % (st, inp))
    for fn, cells in sorted(per_fn.items()):
        f2 = m.func('stream.H2StreamStateMachine.' + fn, required=False)
        if f2 is None:
            continue
        vals = [p.value for p in cm.normal_paths(eng.I.run(f2))]
        ok = all(v is not None and v[0] == 'obj' and v[-1] == 'list'
                 for v in vals)
        ctx.ob('TAB.returns', f2.qual, 'returns a list of events', ok,
               'used by %d receive cells (%s ...): a None or other value is '
               'a TypeError in the handler that extends the event list' % (
                   len(cells), cells[0]), node=f2.node)
    # ---- per-obligation accounting inside the reachable set
    D = eng.D
    n_ops = n_dis = 0
    for q in sorted(reach):
        for op in D.ops.get(q, ()):
            n_ops += 1
            nid = (id(op.node), op.exc) if op.kind == 'call' \
                else id(op.node)
            if nid in D.reasons:
                n_dis += 1
                ctx.ob('ESC.op', q, '%s %s' % (op.exc, _norm(op.desc)), True,
                       D.reasons[nid], node=op.node)
            elif nid in eng.R0.handled_ops:
                n_dis += 1
                ctx.ob('ESC.op', q, '%s %s' % (op.exc, _norm(op.desc)), True,
                       'caught by a local handler', node=op.node)
    n_as = 0
    for q in sorted(reach):
        f2 = m.funcs.get(q)
        if f2 is None:
            continue
        for nd in walk_own(f2.node):
            if isinstance(nd, ast.Assert):
                n_as += 1
                if id(nd) in D.assert_reasons:
                    ctx.ob('ESC.assert', q, _norm(ast.unparse(nd.test)),
                           True, D.assert_reasons[id(nd)], node=nd)
    ctx.record('partial_operations', n_ops)
    ctx.record('assertions', n_as)
    ctx.floor('partial_operations', 80)
    ctx.record('external_calls', len([1 for f, c, n in eng.R.ext_calls
                                      if f.qual in reach]))
    # ---- the escape set
    esc = eng.R.of(fi.qual)
    ctx.require(any(m.exc_is_subclass(x, 'ProtocolError') for x in esc),
                'receive_data raises no ProtocolError at all: the analysis '
                'lost the receive path')
    bad = {x: w for x, w in esc.items()
           if not m.exc_is_subclass(x, 'ProtocolError')}
    for x, w in sorted(bad.items()):
        for origin, pth in sorted(w.origins.items()):
            ctx.ob('ESC', fi.qual, '%s<-%s|%s' % (x, origin[0],
                                                  _norm(origin[2])),
                   False, '%s can leave receive_data: %s'
                   % (x, format_witness(pth)), loc=origin[1])
    for x in sorted(esc):
        if x not in bad:
            ctx.ob('ESC', fi.qual, 'may raise %s' % x, True,
                   'a subclass of ProtocolError', node=fi.node)
    for need in ('FrameTooLargeError', 'FlowControlError',
                 'StreamClosedError', 'DenialOfServiceError'):
        ctx.require(need in esc, 'the escape analysis no longer sees %s '
                    'leaving receive_data: it lost part of the receive path'
                    % need)
    # ---- the translations the property names are in place
    checks = [
        ('frame_buffer.FrameBuffer.__next__',
         {'InvalidFrameError', 'InvalidDataError'}),
        ('connection.H2Connection.receive_data', {'InvalidPaddingError'}),
        ('connection._decode_headers', {'HPACKError', 'IndexError',
                                        'TypeError', 'UnicodeDecodeError'}),
        ('stream._decode_headers', {'UnicodeDecodeError'}),
        ('stream.H2Stream._initialize_content_length', {'ValueError'}),
        ('stream.H2StreamStateMachine.process_input', {'AssertionError'}),
    ]
    for q, names in checks:
        f2 = m.func(q)
        caught = set()
        for nd in walk_own(f2.node):
            if isinstance(nd, ast.ExceptHandler) and nd.type is not None:
                tn = nd.type.elts if isinstance(nd.type, ast.Tuple) \
                    else [nd.type]
                # the handler must end in a ProtocolError
                raises = [x for x in ast.walk(nd)
                          if isinstance(x, ast.Raise)]
                if not raises:
                    continue
                for t in tn:
                    caught.add(t.id if isinstance(t, ast.Name)
                               else getattr(t, 'attr', '?'))
        missing = {n for n in names if not any(
            m.exc_is_subclass(n, c) for c in caught)}
        # where the handler sits is the code's business (it may have moved
        # into a helper with the operation it guards): what is decided is
        # that none of these classes leaves the function, while a
        # ProtocolError can
        esc = set(eng.R.of(f2.qual))
        leaks = sorted(x for x in esc if any(
            m.exc_is_subclass(x, n) for n in names))
        translated = any(m.exc_is_subclass(x, 'ProtocolError') for x in esc)
        ok_t = not leaks and (translated or not missing)
        ctx.ob('ESC.translate', f2.qual, 'translates %s' % '/'.join(
            sorted(names)), ok_t,
            'none of %s leaves the function, a ProtocolError can (leaves: '
            '%s)' % (sorted(names), leaks or '-'), node=f2.node)
    # every frame handed to the connection has had its body parsed: the
    # facts the handlers rely on about frame fields (a PUSH_PROMISE never
    # promises stream 0, a PRIORITY frame has its five bytes, ...) are
    # established by hyperframe's parse_body and by nothing else
    fnx = m.func('frame_buffer.FrameBuffer.__next__')
    unparsed = 0
    handed = 0
    for p in eng.I.run(fnx):
        if p.exit == 'raise':
            continue
        handed += 1
        if not any(e.kind == 'call' and any(
                str(n).endswith('parse_body') for n in e.names)
                for e in p.events):
            unparsed += 1
    ctx.ob('ORD.parse-body', fnx.qual, 'no frame leaves the buffer unparsed',
           handed > 0 and unparsed == 0, '%d of %d returning paths do not '
           'call parse_body (zero-length frames of types that need a body '
           'would keep their constructor defaults)' % (unparsed, handed)
           if unparsed else 'parse_body on all %d returning paths' % handed,
           node=fnx.node)
    # RecursionError: FrameBuffer.__next__ calls itself once per swallowed
    # frame; the depth is bounded only if every swallowed frame is counted
    from .c27 import check_backlog
    check_backlog(ctx, eng)
    for (name, exc), why in sorted(EXEMPT.items()):
        ctx.assume('exemption %s/%s: %s' % (name, exc, why))
    for q, why in ASSERT_AS_PRECONDITION.items():
        ctx.assume('assertion in %s treated as a precondition: %s'
                   % (q.split('.')[-1], why))
    ctx.assume('hyperframe and hpack raise only what their source says; '
               'header_encoding names an existing codec; memory exhaustion '
               'and recursion depth are outside this analysis')


def _norm(s):
    import re
    return re.sub(r'\s+', ' ', s)[:90]
