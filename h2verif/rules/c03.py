"""C03 - outbound DATA never exceeds the peer's flow-control windows.

Decides: in H2Connection.send_data the quantity compared with the window,
the quantity compared with the frame-size limit, the amount subtracted from
the connection window and the amount subtracted from the stream window are
the same affine form len(data) + (pad_length + 1 if padded); the guard is
exactly `amount > window => FlowControlError`; local_flow_control_window is
the minimum of the two windows; the windows are written only at
construction, by those decrements and through guard_increment_window; the
settings delta reaches every stream and never the connection window; both
refusals precede every effect.
"""
from .. import terms as T
from . import common as cm
from . import flow

H = flow.H


def amount_key(padded):
    atoms = {'len(data)': 1}
    k = 0
    if padded:
        atoms['pad_length'] = 1
        k = 1
    return atoms, k


def with_atom(atoms, k, name, sign, op):
    """key of  sign*(amount) + (-sign)*name  op 0"""
    d = {a: sign * c for a, c in atoms.items()}
    d[name] = -sign
    return cm.mk_aff_key(op, d, sign * k)


def run(ctx, eng):
    ctx.rule('ARITH: guard, frame-size check and both decrements of '
             'send_data reduced to one affine form per path (callee inlined, '
             'hyperframe flow_controlled_length summarised); FLOW: minimum '
             'of the windows; OWN: writers of outbound_flow_control_window; '
             'ORD/ATOM: refusals before effects')
    flow.fcl_summary(ctx)
    I = flow.stream_inliner(eng)
    fi = eng.m.func(H + 'send_data')
    paths = I.run(fi)
    ctx.record('send_data_paths', len(paths))
    LFCW = 'connection.H2Connection.local_flow_control_window(self, ' \
           'stream_id)'
    MAXF = 'self.max_outbound_frame_size'
    normal = cm.normal_paths(paths)
    ctx.require(normal, 'send_data has no normally returning path')
    bad = []
    seen_pad = set()
    for p in normal:
        padded = cm.fact_polarity(p, ('is', ('p', 'pad_length'), T.NONE))
        if padded is None:
            bad.append('a sending path does not decide whether padding is '
                       'used')
            continue
        padded = not padded
        seen_pad.add(padded)
        atoms, k = amount_key(padded)
        keys = cm.assume_keys(p)
        if with_atom(atoms, k, LFCW, -1, '>=') not in keys:
            bad.append('window guard is not `amount <= '
                       'local_flow_control_window(stream_id)` with amount '
                       '= len(data)%s' % (' + pad_length + 1' if padded
                                          else ''))
        if with_atom(atoms, k, MAXF, -1, '>=') not in keys:
            bad.append('frame-size guard is not on the same amount')
        decs = [e for e in p.events if e.kind == 'write' and
                e.attr == 'outbound_flow_control_window']
        exp_op = cm.mk_aff_key('>', atoms, k)[1:]
        conn = [e for e in decs if e.base == ('p', 'self')]
        strm = [e for e in decs if e.base != ('p', 'self')]
        for what, lst in (('connection', conn), ('stream', strm)):
            op = cm.decrement_operand(lst[0]) if len(lst) == 1 else None
            if op is None:
                bad.append('%s window not decremented exactly once' % what)
                continue
            f = T.to_aff(op) if op is not None else None
            got = (frozenset((cm.show0(a), c) for a, c in f[0].items()),
                   f[1]) if f else None
            if got != exp_op:
                bad.append('%s window decremented by %s, guard checked '
                           'len(data)%s' % (what, cm.show0(op) if op else '?',
                                            ' + pad_length + 1' if padded
                                            else ''))
        if strm and not (strm[0].base[0] == 'sub' and
                         cm.attr_chain(strm[0].base[1]) == 'self.streams' and
                         strm[0].base[2] == ('p', 'stream_id')):
            bad.append('the decremented stream is not streams[stream_id]')
        # the frame
        frames = [e for e in p.events if e.kind == 'new' and
                  e.cls == 'DataFrame']
        if len(frames) != 1:
            bad.append('exactly one DataFrame expected')
        else:
            f = p.state.objs.get(frames[0].obj, {})
            fl = f.get('flags', ('set', frozenset()))[1]
            if (T.C('PADDED') in fl) != padded:
                bad.append('PADDED flag does not follow pad_length')
            if padded and f.get('pad_length') != ('p', 'pad_length'):
                bad.append('pad_length not copied to the frame')
            if f.get('data') != ('p', 'data'):
                bad.append('frame data is not the argument')
    ctx.ob('ARITH.amount', fi.qual, 'one amount on every sending path',
           seen_pad == {True, False} and not bad,
           '; '.join(sorted(set(bad))) or
           'guard, frame-size check, connection decrement and stream '
           'decrement agree on len(data) [+ pad_length + 1]', node=fi.node)
    # exact refusal forms and their position
    seen = {}
    early_bad = []
    for p in cm.raise_paths(paths):
        r = cm.explicit_raise(p)
        if r is None or r.frame != fi.qual:
            continue
        nm = tuple(sorted(p.exc['names']))
        if nm not in (('FlowControlError',), ('FrameTooLargeError',)):
            continue
        padded = cm.fact_polarity(p, ('is', ('p', 'pad_length'), T.NONE))
        padded = not padded if padded is not None else None
        seen.setdefault(nm, set()).add((padded, flow.last_assume_key(p)))
        effects = [e for e in p.events if
                   (e.kind == 'call' and cm.ev_callee_names(e) &
                    {'process_input', '_prepare_for_sending', 'send_data'})
                   or e.kind == 'write' or e.kind == 'enter']
        if effects:
            early_bad.append('%s raised after %s' % (nm[0],
                                                     effects[0].kind))
    exp_fc = set()
    exp_ft = set()
    for padded in (True, False):
        atoms, k = amount_key(padded)
        exp_fc.add((padded, with_atom(atoms, k, LFCW, 1, '>')))
        exp_ft.add((padded, with_atom(atoms, k, MAXF, 1, '>')))
    ctx.ob('ARITH.guard', fi.qual, 'FlowControlError iff amount > window',
           seen.get(('FlowControlError',)) == exp_fc,
           'equality succeeds, one byte more raises (found %s)'
           % sorted(seen.get(('FlowControlError',), []), key=repr),
           node=fi.node)
    ctx.ob('ARITH.guard', fi.qual,
           'FrameTooLargeError iff amount > max frame size',
           seen.get(('FrameTooLargeError',)) == exp_ft,
           'found %s' % sorted(seen.get(('FrameTooLargeError',), []),
                               key=repr), node=fi.node)
    ctx.ob('ORD.refuse-first', fi.qual, 'refusals precede every effect',
           not early_bad, '; '.join(sorted(set(early_bad))) or
           'a refused send has stepped no machine, written no window and '
           'appended nothing', node=fi.node)
    # a send that is refused by anything at all (the stream machine, a
    # closed stream, ...) must not have consumed either window
    late = []
    for p in cm.raise_paths(paths):
        if p.exc['names'] <= {'AssertionError'}:
            continue            # decided by ARITH.assert below
        ws = [e for e in p.events if e.kind == 'write' and
              e.attr == 'outbound_flow_control_window']
        if ws:
            late.append('%s can be raised after the %s window was '
                        'decremented' % (
                            '/'.join(sorted(p.exc['names'])),
                            'connection' if ws[0].base == ('p', 'self')
                            else 'stream'))
    ctx.ob('ATOM.window', fi.qual, 'a send that raises consumes no window',
           not late, '; '.join(sorted(set(late))) or 'no raise follows a '
           'window decrement (stream method inlined)', node=fi.node)
    # the assertions after the decrement are implied by the guard
    ok_as = True
    n_as = 0
    for p in cm.raise_paths(paths):
        if p.exc.get('assert') and p.exc['names'] == {'AssertionError'}:
            last = [e for e in p.events if e.kind == 'assume']
            # the negated assertion is the last assumption
            neg = last[-1].cond if last else None
            k = cm.aff_key(neg)
            n_as += 1
            if k is None or k[0] != '>':
                ok_as = False
                continue
            # neg: amount - window_attr > 0 ; need guard: lfcw - amount >= 0
            atoms = dict(k[1])
            wins = [a for a in atoms if a.endswith(
                'outbound_flow_control_window')]
            if len(wins) != 1 or atoms[wins[0]] != -1:
                ok_as = False
                continue
            amount = {a: c for a, c in atoms.items() if a != wins[0]}
            guard = with_atom(amount, k[2], LFCW, -1, '>=')
            if guard not in cm.assume_keys(p):
                ok_as = False
    ctx.ob('ARITH.assert', fi.qual, 'post-send assertions implied by guard',
           ok_as and n_as >= 2,
           '%d assertion-failure paths each contradict the dominating '
           'guard `amount <= min(connection window, stream window)`' % n_as,
           node=fi.node)
    # ---- (b) local_flow_control_window
    f2 = eng.m.func(H + 'local_flow_control_window')
    ok = cm.Every()
    for p in cm.normal_paths(eng.I.run(f2)):
        v = p.value
        names = set()
        if v and v[0] == 'call' and v[1] == 'min' and len(v[2]) == 2:
            for a in v[2]:
                if cm.attr_chain(a) == 'self.outbound_flow_control_window':
                    names.add('conn')
                elif a[0] == 'a' and a[2] == 'outbound_flow_control_window' \
                        and a[1][0] == 'call' and \
                        a[1][1].endswith('_get_stream_by_id') and \
                        a[1][2][-1] == ('p', 'stream_id'):
                    names.add('stream')
        ok(names == {'conn', 'stream'})
    ctx.ob('FLOW.min', f2.qual, 'minimum of the two windows', ok,
           'min(connection window, window of _get_stream_by_id(stream_id))',
           node=f2.node)
    # ---- (c) writers
    writers = flow.attr_writers(eng, 'outbound_flow_control_window')
    allowed = {
        H + '__init__', 'stream.H2Stream.__init__', H + 'send_data',
        'stream.H2Stream.send_data', H + '_receive_window_update_frame',
        'stream.H2Stream.receive_window_update',
        H + '_flow_control_change_from_settings'}
    ctx.ob('OWN.window', 'outbound_flow_control_window', 'writers',
           set(writers) == allowed,
           'written only at construction, by the send_data decrements and by '
           'guarded increments (found %s)' % sorted(
               w.split('.', 1)[1] for w in writers))
    ctx.record('window_write_sites', sum(len(v) for v in writers.values()))
    # construction values
    f3 = eng.m.func(H + '__init__')
    ok = any(e.kind == 'write' and e.attr == 'outbound_flow_control_window'
             and cm.is_field_of_self_attr(p, e.value, 'remote_settings',
                                          'initial_window_size')
             for p in cm.normal_paths(eng.I.run(f3)) for e in p.events)
    ctx.ob('FLOW.init', f3.qual, 'connection window starts at the peer '
           'default', ok, 'remote_settings.initial_window_size', node=f3.node)
    f4 = eng.m.func(H + '_begin_new_stream')
    ok = cm.Every()
    for p in cm.normal_paths(eng.I.run(f4)):
        for e in p.events:
            if e.kind == 'new' and e.cls == 'H2Stream':
                ok(cm.attr_chain(e.kwargs.get('outbound_window_size')) ==
                   'self.remote_settings.initial_window_size')
    ctx.ob('FLOW.init', f4.qual, 'stream window starts at the peer\'s '
           'current initial size', ok,
           'outbound_window_size=remote_settings.initial_window_size',
           node=f4.node)
    f5 = eng.m.func('stream.H2Stream.__init__')
    ok = any(e.kind == 'write' and e.attr == 'outbound_flow_control_window'
             and e.value == ('p', 'outbound_window_size')
             for p in eng.I.run(f5) for e in p.events)
    ctx.ob('FLOW.init', f5.qual, 'stream window from the argument', ok,
           'self.outbound_flow_control_window = outbound_window_size',
           node=f5.node)
    # increments
    for q, inc, base_desc in (
            (H + '_receive_window_update_frame', 'frame.window_increment',
             'self'),
            ('stream.H2Stream.receive_window_update', 'increment', 'self')):
        f6 = eng.m.func(q)
        bad = []
        n = 0
        for p in eng.I.run(f6):
            for e in p.events:
                if e.kind == 'write' and \
                        e.attr == 'outbound_flow_control_window' and \
                        e.frame == f6.qual:
                    n += 1
                    v = e.value
                    if not (v[0] == 'call' and
                            v[1].endswith('guard_increment_window') and
                            cm.is_attr(v[2][0], e.base,
                                       'outbound_flow_control_window') and
                            cm.attr_chain(v[2][1]) == inc):
                        bad.append('window := %s' % cm.show0(v))
        ctx.ob('ARITH.increment', f6.qual, 'guarded increment', n > 0 and
               not bad, '; '.join(bad) or 'window = guard_increment_window('
               'window, %s)' % inc, node=f6.node)
    # connection window only for stream id 0
    f7 = eng.m.func(H + '_receive_window_update_frame')
    ok = True
    for p in eng.I.run(f7):
        sid = cm.fact_polarity(p, ('a', ('p', 'frame'), 'stream_id', 0))
        w = [e for e in p.events if e.kind == 'write' and
             e.attr == 'outbound_flow_control_window' and
             e.frame == f7.qual]
        if w and sid is not False:
            ok = False
        if sid and p.exit != 'raise' and not cm.calls_to(
                p, '_get_stream_by_id'):
            ok = False
    ctx.ob('FLOW.wu-target', f7.qual, 'stream 0 updates the connection '
           'window only', ok, 'frame.stream_id selects the window',
           node=f7.node)
    check_settings_delta(ctx, eng)
    cm.include(ctx, eng, 'C11',
               lambda o: o.rule in ('FLOW.queue', 'FLOW.ack-source') or (
                   o.rule == 'COH.apply-map' and
                   o.desc.startswith('remote INITIAL_WINDOW_SIZE ')) or (
                   # the settings a client hands over in HTTP2-Settings are
                   # applied by the same code
                   o.rule == 'FLOW.codec' and isinstance(o.where, str) and
                   o.where.endswith('initiate_upgrade_connection')),
               'the peer\'s INITIAL_WINDOW_SIZE reaches the stream windows '
               'when its SETTINGS frame is acknowledged')
    flow.guard_increment_rule(ctx, eng)
    cm.include(ctx, eng, 'C06',
               lambda o: o.rule == 'FSM.cell' and isinstance(o.desc, str) and
               '|RECV_WINDOW_UPDATE' in o.desc,
               'the stream window is credited only when the machine reports '
               'the update: every state in which a WINDOW_UPDATE is legal '
               'must report it')
    ctx.assume('window = initial + credits - debits over unbounded '
               'histories follows from these clauses by induction; the '
               'induction is not mechanised')


def check_settings_delta(ctx, eng):
    """settings delta: every stream, guarded, never the connection window"""
    f8 = eng.m.func(H + '_flow_control_change_from_settings')
    bad = []
    n = 0
    for p in cm.normal_paths(eng.I.run(f8)):
        body = [e for e in p.events if e.in_loop]
        its = [e for e in p.events if e.kind == 'iter']
        if its and not (its[0].iterable[0] == 'call' and
                        its[0].iterable[1].endswith('.values') and
                        cm.attr_chain(its[0].iterable[2][0]) ==
                        'self.streams'):
            bad.append('does not iterate self.streams.values()')
        if any(e.kind == 'write' and e.base == ('p', 'self')
               for e in p.events):
            bad.append('the settings delta touches the connection window')
        if not body:
            continue
        n += 1
        if any(e.kind == 'assume' for e in body):
            bad.append('some streams are skipped')
        ws = [e for e in body if e.kind == 'write' and
              e.attr == 'outbound_flow_control_window']
        if len(ws) != 1:
            bad.append('stream window not updated exactly once')
            continue
        v = ws[0].value
        if not (v[0] == 'call' and v[1].endswith('guard_increment_window')
                and cm.is_attr(v[2][0], ws[0].base,
                               'outbound_flow_control_window') and
                cm.show0(v[2][1]) == 'new_value - old_value'):
            bad.append('window := %s (guard_increment_window(window, new - '
                       'old) expected)' % cm.show0(v)[:80])
    ctx.ob('FLOW.delta', f8.qual, 'INITIAL_WINDOW_SIZE delta', n > 0 and
           not bad, '; '.join(sorted(set(bad))) or 'every stream window '
           'moves by new - old (possibly below zero), through the overflow '
           'guard', node=f8.node)
    f9 = eng.m.func(H + '_acknowledge_settings')
    ok = cm.Every()
    from .c11 import code_facts, handler_paths
    for p in handler_paths(eng, 'remote'):
        cs = cm.calls_to(p, '_flow_control_change_from_settings')
        if cs:
            a = [cm.show0(x) for x in cs[0].args]
            ok((a == ['MutableMapping... '] or (
                len(a) == 2 and a[0].endswith('.original_value') and
                a[1].endswith('.new_value'))) and
               code_facts(p).get('INITIAL_WINDOW_SIZE') is True)
    ctx.ob('FLOW.delta', f9.qual, 'delta from the acknowledged change', ok,
           '_flow_control_change_from_settings(original_value, new_value) of '
           'the INITIAL_WINDOW_SIZE change', node=f9.node)
