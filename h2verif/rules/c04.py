"""C04 - inbound flow control is enforced exactly at the advertised windows.

Decides: DATA is charged with frame.flow_controlled_length to the connection
manager before the stream lookup and to the stream manager after the state
machine accepted; window_consumed / window_opened raise exactly at < 0 and
> 2**31-1; no window-changing public call can raise after a window write;
every manual or automatic credit equals the increment of the WINDOW_UPDATE
emitted for the same stream id; an acknowledged local INITIAL_WINDOW_SIZE
change reaches every live stream as new - old; remote_flow_control_window is
the minimum of the two managers.
"""
import ast

from .. import terms as T
from . import common as cm
from . import flow

H = flow.H
LIMIT = flow.LIMIT
MGR = 'self._inbound_flow_control_window_manager'


def run(ctx, eng):
    ctx.rule('FLOW/ORD: charge sites; ARITH: boundary guards of the window '
             'manager; ATOM(WIN): no raise after a window write in public '
             'window-changing calls (callees inlined); FLOW: credit == '
             'emitted increment; TAB/FLOW: settings delta on every stream')
    m = eng.m
    I = flow.stream_inliner(eng)
    # ---- (a) charge sites
    fi = m.func(H + '_receive_data_frame')
    bad = []
    n = 0
    for p in eng.I.run(fi):
        wc = cm.calls_to(p, 'window_consumed')
        lk = cm.calls_to(p, '_get_stream_by_id')
        if lk and (not wc or p.index(wc[0]) > p.index(lk[0])):
            bad.append('stream looked up before the connection window is '
                       'charged')
        for c in wc:
            n += 1
            if cm.attr_chain(c.recv) != MGR:
                bad.append('charged to something else than the connection '
                           'manager')
            if cm.attr_chain(c.args[0]) != 'frame.flow_controlled_length':
                bad.append('connection window charged with %s instead of '
                           'frame.flow_controlled_length'
                           % cm.show0(c.args[0]))
        for c in [e for e in p.events if e.kind == 'call' and
                  'stream.H2Stream.receive_data' in e.names]:
            a = c.args
            if cm.attr_chain(a[0]) != 'frame.data' or \
                    cm.show0(a[1]) != "('END_STREAM' in frame.flags)" or \
                    cm.attr_chain(a[2]) != 'frame.flow_controlled_length':
                bad.append('stream.receive_data(frame.data, END_STREAM flag, '
                           'frame.flow_controlled_length) expected, found '
                           '%s' % [cm.show0(x) for x in a])
    ctx.ob('FLOW.charge', fi.qual, 'connection window charge', n > 0 and
           not bad, '; '.join(sorted(set(bad))) or
           'flow-controlled length charged before the stream lookup and '
           'handed to the stream', node=fi.node)
    f2 = m.func('stream.H2Stream.receive_data')
    bad = []
    n = 0
    for p in eng.I.run(f2):
        wc = cm.calls_to(p, 'window_consumed')
        st = cm.process_inputs(p)
        for c in wc:
            n += 1
            if cm.attr_chain(c.recv) != 'self._inbound_window_manager' or \
                    c.args[0] != ('p', 'flow_control_len'):
                bad.append('stream window charged with %s'
                           % cm.show0(c.args[0]))
            if not st or p.index(st[0][1]) > p.index(c) or \
                    st[0][0] != 'RECV_DATA':
                bad.append('stream window charged before the state machine '
                           'accepted the DATA')
            elif st:
                # an overrun is a FLOW_CONTROL_ERROR whatever else is wrong
                # with the frame: nothing that can refuse it stands between
                # the state step and the charge
                between = [e for e in p.events[p.index(st[0][1]) + 1:
                                               p.index(c)]
                           if e.kind == 'call' and (
                               e.d.get('raises') or any(
                                   eng.R.of(q) for q in e.names
                                   if isinstance(q, str)))]
                if between:
                    bad.append('%s can refuse the frame before the window '
                               'is charged' % '/'.join(sorted(
                                   cm.ev_callee_names(between[0]))))
        if p.exit != 'raise' and not wc:
            bad.append('a path accepts DATA without charging the stream '
                       'window')
    ctx.ob('FLOW.charge', f2.qual, 'stream window charge', n > 0 and
           not bad, '; '.join(sorted(set(bad))) or
           'flow_control_len charged after the RECV_DATA step', node=f2.node)
    # ---- (b) boundaries
    f3 = m.func('windows.WindowManager.window_consumed')
    paths = eng.I.run(f3)
    raised = [flow.last_assume_key(p) for p in paths
              if cm.explicit_raise(p) is not None and
              p.exc['names'] == {'FlowControlError'}]
    dec = [e for p in cm.normal_paths(paths) for e in p.events
           if e.kind == 'write' and e.attr == 'current_window_size']
    ok = raised == [cm.mk_aff_key('>', {'self.current_window_size': -1,
                                        'size': 1}, 0)] and \
        len(dec) == 1 and cm.show0(dec[0].value) == \
        'self.current_window_size - size'
    ctx.ob('ARITH.consume', f3.qual, 'overrun iff window < 0', ok,
           'current -= size; FlowControlError iff the result is negative '
           '(found raise %s)' % raised, node=f3.node)
    f4 = m.func('windows.WindowManager.window_opened')
    paths = eng.I.run(f4)
    raised = []
    dirty = False
    for p in paths:
        if cm.explicit_raise(p) is not None and \
                p.exc['names'] == {'FlowControlError'}:
            raised.append(flow.last_assume_key(p))
            if any(e.kind == 'write' for e in p.events):
                dirty = True
    inc = [cm.show0(e.value) for p in cm.normal_paths(paths) for e in p.events
           if e.kind == 'write' and e.attr == 'current_window_size']
    # the overflow test is the only refusal (a delta may be negative and may
    # take the window below zero: RFC 7540 6.9.2), and every accepting path
    # moves the window
    other = sorted({'/'.join(sorted(cm.ev_callee_names(p.exc['via_call'])))
                    if p.exc.get('via_call') is not None else 'a call'
                    for p in paths if p.exit == 'raise' and
                    cm.explicit_raise(p) is None and
                    'FlowControlError' in p.exc['names']})
    every = all(sum(1 for e in p.events if e.kind == 'write' and
                    e.attr == 'current_window_size') == 1
                for p in cm.normal_paths(paths))
    ok = raised == [cm.mk_aff_key('>', {'self.current_window_size': 1,
                                        'size': 1}, -LIMIT)] and \
        not dirty and inc and not other and every and \
        all(s == 'self.current_window_size + size' for s in inc)
    ctx.ob('ARITH.open', f4.qual, 'overflow iff window > 2**31-1, checked '
           'before the write', ok,
           'FlowControlError iff current + size > 2**31-1 and nothing is '
           'written on that path; no other refusal; every accepting path '
           'adds size (found raise %s, dirty=%s, writes %s%s)'
           % (raised, dirty, inc, ', also refuses through %s' % other
              if other else ''), node=f4.node)
    mx = [e for p in cm.normal_paths(paths) for e in p.events
          if e.kind == 'write' and e.attr == 'max_window_size']
    ok = bool(mx) and all(
        cm.show0(e.value) == 'self.current_window_size + size' for e in mx)
    # exactly when: written on the paths where the window outgrew the
    # maximum and on no other
    gk = cm.mk_aff_key('>', {'self.current_window_size': 1, 'size': 1,
                             'self.max_window_size': -1}, 0)
    # (`>=` is the same decision: at equality the write changes nothing)
    ge = cm.mk_aff_key('>=', {'self.current_window_size': 1, 'size': 1,
                              'self.max_window_size': -1}, 0)
    grew = bool(mx) and all(
        bool({gk, ge} & set(cm.assume_keys(p))) == any(
            e.kind == 'write' and e.attr == 'max_window_size'
            for e in p.events) for p in cm.normal_paths(paths))
    ctx.ob('ARITH.open', f4.qual, 'maximum follows a larger window', ok and
           grew, 'max_window_size = current when the window outgrows it',
           node=f4.node)
    # ---- (c) ATOM(WIN)
    for name in ('increment_flow_control_window',
                 'acknowledge_received_data'):
        f5 = m.func(H + name)
        sites = {}
        for p in cm.raise_paths(I.run(f5)):
            wins = [e for e in p.events if e.kind == 'write' and
                    e.attr in flow.WIN_ATTRS]
            if not wins:
                continue
            via = p.exc.get('via_call')
            if via is not None and cm.is_call_to(
                    via, '_prepare_for_sending') and \
                    flow.emit_cannot_fail(p, via):
                continue
            what = 'explicit raise' if via is None else '/'.join(
                sorted(cm.ev_callee_names(via)))
            sites.setdefault((what, tuple(sorted(p.exc['names']))), p)
        if not sites:
            ctx.ob('ATOM.WIN', f5.qual, 'no raise after a window write',
                   True, 'a call that raises has changed no window',
                   node=f5.node)
        for (what, names), p in sorted(sites.items()):
            ctx.ob('ATOM.WIN', f5.qual,
                   'raise after window write|%s|%s' % (what,
                                                       '/'.join(names)),
                   False, '%s can raise %s in %s after a flow-control '
                   'window was already changed' % (name, '/'.join(names),
                                                   what),
                   node=p.exc['node'])
    # ---- (d) credit == emitted increment
    f6 = m.func(H + 'increment_flow_control_window')
    bad = []
    kinds = set()
    for p in cm.normal_paths(I.run(f6)):
        opened = cm.calls_to(p, 'window_opened')
        opened_w = [e for e in p.events if e.kind == 'write' and
                    e.attr == 'current_window_size']
        frames = [e for e in p.events if e.kind == 'new' and
                  e.cls == 'WindowUpdateFrame']
        if len(frames) != 1 or len(opened_w) != 1:
            bad.append('one credit and one WINDOW_UPDATE per call expected')
            continue
        f = p.state.objs.get(frames[0].obj, {})
        sid = f.get('stream_id')
        w = opened_w[0]
        if f.get('window_increment') != ('p', 'increment'):
            bad.append('WINDOW_UPDATE does not carry `increment`')
        if w.operand is not None and w.operand != ('p', 'increment') and \
                cm.show0(w.value) != '%s + increment' % cm.show0(w.old or
                                                             T.NONE):
            pass
        if not cm.show0(w.value).endswith('current_window_size + increment'):
            bad.append('window credited with %s' % cm.show0(w.value))
        if sid == T.C(0):
            kinds.add('conn')
            if cm.attr_chain(w.base) != MGR:
                bad.append('stream-0 update credits another manager')
        else:
            kinds.add('stream')
            if not (cm.attr_chain(sid) or '').endswith('.stream_id') and \
                    not (sid and sid[0] == 'a' and sid[2] == 'stream_id'):
                bad.append('WINDOW_UPDATE stream id')
            if cm.attr_chain(w.base) == MGR:
                bad.append('stream update credits the connection manager')
        if len(cm.calls_to(p, '_prepare_for_sending')) != 1:
            bad.append('exactly one emit expected')
    ctx.ob('FLOW.credit', f6.qual, 'manual increment', kinds ==
           {'conn', 'stream'} and not bad, '; '.join(sorted(set(bad))) or
           'the manager of the addressed window is credited with exactly '
           'the increment placed in the WINDOW_UPDATE', node=f6.node)
    rng = [flow.last_assume_key(p) for p in eng.I.run(f6)
           if cm.explicit_raise(p) is not None and
           p.exc['names'] == {'ValueError'}]
    ok = sorted(rng, key=repr) == sorted([
        cm.mk_aff_key('>', {'increment': -1}, 1),
        cm.mk_aff_key('>', {'increment': 1}, -LIMIT)], key=repr)
    ctx.ob('ARITH.range', f6.qual, 'increment within 1..2**31-1', ok,
           'ValueError outside 1..2**31-1 (found %s)' % rng, node=f6.node)
    f7 = m.func(H + 'acknowledge_received_data')
    bad = []
    n = 0
    for p in cm.normal_paths(eng.I.run(f7)):
        pb = cm.calls_to(p, 'process_bytes')
        if len(pb) != 1 or cm.attr_chain(pb[0].recv) != MGR or \
                pb[0].args[0] != ('p', 'acknowledged_size'):
            bad.append('connection manager not fed acknowledged_size once')
            continue
        n += 1
        frames = [e for e in p.events if e.kind == 'new' and
                  e.cls == 'WindowUpdateFrame']
        inc_truth = cm.fact_polarity(p, pb[0].result)
        if inc_truth and len(frames) != 1:
            bad.append('a non-zero connection increment must be emitted')
        if inc_truth is False and frames:
            bad.append('a zero increment is emitted')
        for fr in frames:
            f = p.state.objs.get(fr.obj, {})
            if f.get('stream_id') != T.C(0) or \
                    f.get('window_increment') != pb[0].result:
                bad.append('connection WINDOW_UPDATE must carry the '
                           'increment process_bytes returned')
        sa = [e for e in p.events if e.kind == 'call' and
              'stream.H2Stream.acknowledge_received_data' in e.names]
        op = None
        for e in p.events:
            if e.kind == 'assume' and 'open' in cm.show0(e.cond):
                op = e.cond[0] != 'not'
        if sa and not op:
            bad.append('a stream that is not open is credited')
        if sa and sa[0].args[0] != ('p', 'acknowledged_size'):
            bad.append('stream manager fed another amount')
    ctx.ob('FLOW.credit', f7.qual, 'automatic increment (connection)',
           n > 0 and not bad, '; '.join(sorted(set(bad))) or
           'WINDOW_UPDATE(0) carries exactly what the connection manager '
           'credited; only open streams are credited', node=f7.node)
    f8 = m.func('stream.H2Stream.acknowledge_received_data')
    bad = []
    n = 0
    for p in cm.normal_paths(eng.I.run(f8)):
        pb = cm.calls_to(p, 'process_bytes')
        if len(pb) != 1 or cm.attr_chain(pb[0].recv) != \
                'self._inbound_window_manager' or \
                pb[0].args[0] != ('p', 'acknowledged_size'):
            bad.append('stream manager not fed acknowledged_size once')
            continue
        n += 1
        frames = [e for e in p.events if e.kind == 'new' and
                  e.cls == 'WindowUpdateFrame']
        inc_truth = cm.fact_polarity(p, pb[0].result)
        if bool(inc_truth) != bool(frames):
            bad.append('WINDOW_UPDATE emitted iff the increment is non-zero')
        for fr in frames:
            f = p.state.objs.get(fr.obj, {})
            if not cm.is_self_attr(f.get('stream_id'), 'stream_id') or \
                    f.get('window_increment') != pb[0].result:
                bad.append('stream WINDOW_UPDATE must carry its own '
                           'manager\'s increment and its own id')
    ctx.ob('FLOW.credit', f8.qual, 'automatic increment (stream)', n > 0
           and not bad, '; '.join(sorted(set(bad))) or 'ok', node=f8.node)
    # ---- (e) local INITIAL_WINDOW_SIZE at ACK
    callers = {f.qual for f, _ in cm.find_funcs_calling(
        eng, '_inbound_flow_control_change_from_settings')}
    ctx.ob('ORD.ack-only', 'connection.H2Connection',
           'inbound settings delta applied at ACK only',
           callers == {H + '_local_settings_acked',
                       H + '_inbound_flow_control_change_from_settings'},
           'called from %s' % sorted(c.split('.')[-1] for c in callers))
    f9 = m.func(H + '_local_settings_acked')
    ok = cm.Every()
    from .c11 import code_facts, handler_paths
    for p in handler_paths(eng, 'local'):
        cs = [e for e in p.events if e.kind == 'call' and
              H + '_inbound_flow_control_change_from_settings' in e.names]
        if cs:
            a = [cm.show0(x) for x in cs[0].args]
            ok(len(a) == 2 and a[0].endswith('.original_value') and
               a[1].endswith('.new_value') and
               code_facts(p).get('INITIAL_WINDOW_SIZE') is True)
    ctx.ob('FLOW.delta', f9.qual, 'delta of the acknowledged change', ok,
           '(original_value, new_value) of INITIAL_WINDOW_SIZE', node=f9.node)
    f10 = m.func(H + '_inbound_flow_control_change_from_settings')
    bad = []
    n = 0
    for p in cm.normal_paths(eng.I.run(f10)):
        its = [e for e in p.events if e.kind == 'iter']
        if its and not (its[0].iterable[0] == 'call' and
                        its[0].iterable[1].endswith('.values') and
                        cm.attr_chain(its[0].iterable[2][0]) ==
                        'self.streams'):
            bad.append('does not iterate self.streams.values()')
        body = [e for e in p.events if e.in_loop]
        if not body:
            continue
        n += 1
        if any(e.kind == 'assume' for e in body):
            bad.append('some live streams (for instance reserved ones) are '
                       'skipped')
        cs = [e for e in body if e.kind == 'call' and
              'stream.H2Stream._inbound_flow_control_change_from_settings'
              in e.names]
        if len(cs) != 1 or cm.show0(cs[0].args[0]) != 'new_value - old_value':
            bad.append('each stream must get new_value - old_value')
    ctx.ob('FLOW.delta', f10.qual, 'delta reaches every live stream', n > 0
           and not bad, '; '.join(sorted(set(bad))) or 'ok', node=f10.node)
    f11 = m.func('stream.H2Stream._inbound_flow_control_change_from_settings')
    ok = cm.Every()
    for p in cm.normal_paths(eng.I.run(f11)):
        wo = cm.calls_to(p, 'window_opened')
        mw = [e for e in p.events if e.kind == 'write' and
              e.attr == 'max_window_size' and e.frame == f11.qual]
        ok(len(wo) == 1 and wo[0].args[0] == ('p', 'delta') and
           len(mw) == 1 and cm.aff_is(mw[0].value, {
               'delta': 1,
               'self._inbound_window_manager.max_window_size': 1}) and
           p.index(mw[0]) > p.index(wo[0]) and
           cm.reads_entry_value(mw[0].value, 'max_window_size'))
    ctx.ob('FLOW.delta', f11.qual, 'window and maximum move by the delta',
           ok, 'window_opened(delta); max_window_size = old maximum + '
           'delta (the maximum as it was BEFORE window_opened, which raises '
           'it itself when the window outgrows it)', node=f11.node)
    f12 = m.func(H + '_begin_new_stream')
    ok = any(e.kind == 'new' and e.cls == 'H2Stream' and
             cm.attr_chain(e.kwargs.get('inbound_window_size')) ==
             'self.local_settings.initial_window_size'
             for p in cm.normal_paths(eng.I.run(f12)) for e in p.events)
    ctx.ob('FLOW.init', f12.qual, 'new streams start from the acknowledged '
           'local value', ok,
           'inbound_window_size=local_settings.initial_window_size',
           node=f12.node)
    # ---- (f) remote_flow_control_window
    f13 = m.func(H + 'remote_flow_control_window')
    ok = cm.Every()
    for p in cm.normal_paths(eng.I.run(f13)):
        v = p.value
        ok(bool(v) and v[0] == 'call' and v[1] == 'min' and
           len(v[2]) == 2 and sorted(cm.show0(a) for a in v[2]) == sorted([
               'self.inbound_flow_control_window',
               'connection.H2Connection._get_stream_by_id(self, stream_id)'
               '.inbound_flow_control_window']))
    ctx.ob('FLOW.min', f13.qual, 'minimum of the two advertised windows', ok,
           'min(connection, stream) inbound windows', node=f13.node)
    for q, exp in ((H + 'inbound_flow_control_window',
                    MGR + '.current_window_size'),
                   ('stream.H2Stream.inbound_flow_control_window',
                    'self._inbound_window_manager.current_window_size')):
        fx = m.func(q)
        ok = any(p.exit == 'return' and cm.attr_chain(p.value) == exp
                 for p in eng.I.run(fx))
        ctx.ob('FLOW.min', fx.qual, 'reports the manager\'s window', ok, exp,
               node=fx.node)
    # ---- who moves the connection-level inbound window: it is charged by
    # DATA, credited by WINDOW_UPDATEs we emit (manual or automatic), and by
    # nothing else - INITIAL_WINDOW_SIZE does not apply to it (RFC 7540 6.9.2)
    allowed = {('increment_flow_control_window', 'window_opened'),
               ('acknowledge_received_data', 'process_bytes'),
               ('_handle_data_on_closed_stream', 'process_bytes'),
               # (the closed-stream refill written out in the DATA handler)
               ('_receive_data_frame', 'process_bytes'),
               ('_receive_data_frame', 'window_consumed')}
    found = set()
    cls = m.cls('connection.H2Connection')
    for name, fx in sorted(m.methods_of(cls.qual).items()):
        if not any(isinstance(n, ast.Attribute) and
                   n.attr == '_inbound_flow_control_window_manager'
                   for n in ast.walk(fx.node)):
            continue
        for p in eng.I.run(fx):
            for e in p.events:
                if e.frame != fx.qual:
                    continue
                if e.kind == 'call' and e.d.get('recv') is not None and \
                        cm.attr_chain(e.recv) == MGR:
                    for cn in cm.ev_callee_names(e):
                        found.add((name, cn))
                elif e.kind == 'write' and cm.attr_chain(e.base) == MGR:
                    found.add((name, 'writes .%s' % e.attr))
    found = {x for x in found if x[0] != '__init__'}
    extra = sorted(found - allowed)
    ctx.ob('OWN.conn-window', 'connection.H2Connection.'
           '_inbound_flow_control_window_manager', 'who moves it',
           not extra and ('_receive_data_frame', 'window_consumed') in found,
           'charged by DATA, credited through WINDOW_UPDATEs only%s' % (
               (' (also: %s)' % extra) if extra else ''))
    ctx.assume('equality of advertised and enforced windows over whole '
               'histories follows by induction from these clauses; the '
               'induction is not mechanised')
    cm.include(ctx, eng, 'C11',
               lambda o: o.rule in ('FLOW.queue', 'FLOW.ack-source') or (
                   o.rule == 'COH.apply-map' and
                   o.desc.startswith('local INITIAL_WINDOW_SIZE ')) or (
                   # a refused update_settings queues nothing: what is
                   # acknowledged later was advertised
                   o.rule == 'ATOM.SET' and
                   o.desc.startswith('all values validated')),
               'the advertised initial window is the acknowledged one: the '
               'settings queue hands out one pending value per ACK, in order')
    cm.include(ctx, eng, 'C05', {'ARITH.increment', 'FLOW.process',
                                 'FLOW.refill'},
               'the increments the library emits itself are the amounts it '
               'adds to its own view of the window')
