"""C16 - Content-Length enforcement (RFC 7540 section 8.1.2.6).

Decides: _initialize_content_length runs for every received header block
before any DATA is accounted; _track_content_length receives len(data) (the
payload, not the flow-controlled length); it raises iff expected < actual or
(end_stream and expected != actual); every site that feeds RECV_END_STREAM
is followed by a completion check; request_method is taken from the request
block only (a block without :method leaves it alone) and the method is
extracted for every block sent; the no-content exemptions.
"""
from .. import terms as T
from . import common as cm
from . import flow

S = 'stream.H2Stream.'


def run(ctx, eng):
    ctx.rule('ORD/FLOW/ARITH/PAIR/OWN/TAB by path analysis of the five '
             'functions that carry the content-length logic')
    m = eng.m
    # ---- initialise for every header block
    fi = m.func(S + 'receive_headers')
    bad = []
    n = 0
    for p in cm.normal_paths(eng.I.run(fi)):
        n += 1
        ic = cm.calls_to(p, '_initialize_content_length')
        if len(ic) != 1 or ic[0].args[0] != ('p', 'headers'):
            bad.append('a received header block is accepted without '
                       '_initialize_content_length(headers)')
    ctx.ob('ORD.init-length', fi.qual, 'expected length set per header '
           'block', n > 0 and not bad, '; '.join(sorted(set(bad))) or
           'every accepted block initialises the expected length',
           node=fi.node)
    # END_STREAM on HEADERS / trailers: completion check?
    unchecked = False
    for p in cm.normal_paths(eng.I.run(fi)):
        steps = [s for s, _, _ in cm.process_inputs(p)]
        if 'RECV_END_STREAM' in steps:
            if not cm.calls_to(p, '_track_content_length') and not any(
                    e.kind == 'assume' and '_expected_content_length'
                    in cm.show0(e.cond) for e in p.events):
                unchecked = True
    ctx.ob('PAIR.end-stream', fi.qual, 'END_STREAM on HEADERS is checked',
           not unchecked,
           'a header block carrying END_STREAM ends the message, but the '
           'received total is not compared with content-length: a request '
           'with content-length 5 and END_STREAM on HEADERS (or 3 bytes '
           'then trailers) is accepted', node=fi.node)
    # ---- receive_data and _track_content_length, read through the call: the
    # paths of receive_data with the tracking helper taken in, from the write
    # that accumulates the payload length on.  Which side of the call makes
    # the comparison does not matter; what is decided is the decision.
    f2 = m.func(S + 'receive_data')
    f3 = m.func(S + '_track_content_length')
    EXP = 'self._expected_content_length'
    ACTK = 'self._actual_content_length'
    LEN = 'len(data)'
    paths = eng.interp({f3.qual}, depth=1).run(f2)
    bad = []
    n = 0
    cases = []
    roles = {}
    for p in paths:
        acc = [e for e in p.events if e.kind == 'write' and
               e.attr == '_actual_content_length']
        if p.exit in ('return', 'fall'):
            n += 1
            if len(acc) != 1:
                bad.append('DATA accepted without length tracking')
        if not acc:
            continue
        op = cm.increment_operand(acc[0])
        if op is None or cm.show0(op) != LEN:
            bad.append('tracked length is %s, expected len(data) (padding '
                       'does not count)' % (cm.show0(op) if op is not None
                                            else cm.show0(acc[0].value)))
        at = p.index(acc[0])
        st = cm.process_inputs(p)
        es = [ev for nm, ev, _ in st if nm == 'RECV_END_STREAM']
        if es and p.index(es[0]) < at:
            bad.append('END_STREAM is fed before the length is checked')
        lits = {}
        for e in p.events[at:]:
            if e.kind != 'assume':
                continue
            if es and p.index(e) > p.index(es[0]):
                break
            atom, pol = cm.literal(e.cond)
            lits[atom] = pol
            c = e.cond
            neg = False
            while c[0] == 'not':
                neg = not neg
                c = c[1]
            sh = cm.show0(c)
            k = cm.aff_key(c)
            if sh == '(%s is None)' % EXP:
                roles['none'] = (atom, True)
            elif sh == 'end_stream':
                roles['es'] = (atom, True)
            elif k is not None and k[0] in ('>', '>=') and k[2] == 0 and \
                    dict(k[1]) == {ACTK: 1, LEN: 1, EXP: -1} and k[0] == '>':
                roles['over'] = (atom, pol != neg)
            elif k is not None and k[0] in ('>', '>=') and k[2] == 0 and \
                    dict(k[1]) == {ACTK: -1, LEN: -1, EXP: 1} and \
                    k[0] == '>=':
                roles['over'] = (atom, not (pol != neg))
            elif c[0] in ('ne', 'eq') and {cm.show0(c[1]), cm.show0(c[2])} \
                    == {EXP, '%s + %s' % (ACTK, LEN)}:
                # polarity of the atom that means "the totals differ"
                means_ne = (c[0] == 'ne')
                roles['ne'] = (atom, (pol != neg) == means_ne)
        out = 'LEN' if (p.exit == 'raise' and
                        p.exc['names'] == {'InvalidBodyLengthError'}) \
            else 'pass'
        if out == 'LEN' and es:
            bad.append('the stream machine is told END_STREAM before the '
                       'length is refused')
        cases.append((lits, out))
    ctx.ob('FLOW.track', f2.qual, 'payload length tracked with end flag',
           n > 0 and not bad, '; '.join(sorted(set(bad))) or
           'actual += len(data) once per DATA frame, decided before '
           'RECV_END_STREAM', node=f2.node)
    missing = sorted({'none', 'es', 'over', 'ne'} - set(roles))

    def truth(asg, role):
        atom, pos = roles[role]
        return asg.get(atom) == pos

    def reference(asg):
        if missing:
            return None
        if truth(asg, 'none'):
            return 'pass'
        if truth(asg, 'over'):
            return 'LEN'
        if truth(asg, 'es') and truth(asg, 'ne'):
            return 'LEN'
        if truth(asg, 'es') and roles['ne'][0] not in asg:
            return None
        return 'pass'
    mism = cm.decision_mismatches(cases, reference) if not missing else []
    ctx.ob('ARITH.length', f3.qual, 'raises iff too much, or wrong total at '
           'the end', bool(cases) and not missing and not mism,
           'InvalidBodyLengthError iff a length was declared and (expected < '
           'actual, or end_stream and expected != actual), actual counting '
           'this frame%s%s' % (
               '; comparisons not found: %s' % missing if missing else '',
               '; decides otherwise: %s' % str(mism[:2])[:200] if mism
               else ''), node=f3.node)
    ctx.ob('ARITH.length', f3.qual, 'no content-length, no check',
           'none' in roles and not mism,
           'the comparison applies only when a length was declared',
           node=f3.node)
    # ---- _initialize_content_length
    f4 = m.func(S + '_initialize_content_length')
    paths = eng.I.run(f4)
    OLD = ('a', ('p', 'self'), '_expected_content_length', 0)
    if not any(e.kind == 'write' and e.attr == '_expected_content_length'
               for p in paths for e in p.events):
        # the helper works the length out and its callers store it: read
        # through the call, on the callers' paths with the helper taken in
        # (storing the value the field already has is no write)
        import ast as _ast
        short = f4.qual.rsplit('.', 1)[1]
        I4 = eng.interp({f4.qual}, depth=1)
        callers = [fx for q, fx in sorted(m.funcs.items())
                   if fx.cls == 'stream.H2Stream' and fx is not f4 and any(
                       isinstance(nd, _ast.Attribute) and nd.attr == short
                       for nd in _ast.walk(fx.node))]
        paths = [p for fx in callers for p in I4.run(fx)]
    head = False
    head_bad = []
    hdr = False
    hdr_bad = []
    bad_int = True
    for p in cm.normal_paths(paths):
        ws = [e for e in p.events if e.kind == 'write' and
              e.attr == '_expected_content_length' and e.value != OLD]
        conds = [cm.show0(e.cond) for e in p.events if e.kind == 'assume']
        if any(c in ("(self.request_method == b'HEAD')",
                     "(b'HEAD' == self.request_method)") for c in conds):
            # on EVERY path of a HEAD response the final expected length is
            # 0, whatever content-length the block carries
            if ws and ws[-1].value == T.C(0):
                head = True
            else:
                head_bad.append('a HEAD path ends with expected length %s'
                                % (cm.show0(ws[-1].value) if ws else
                                   'unset'))
        elif any(e.value == T.C(0) for e in ws):
            # no body is expected of a HEAD response only: a block of another
            # kind that pins the length to 0 holds every later block without
            # a content-length of its own to an empty body
            head_bad.append('a path that is not a HEAD response forces the '
                            'expected length to 0')
        found = any(c.endswith("== b'content-length')") or
                    c.startswith("(b'content-length' ==") for c in conds)
        for e in ws:
            v = e.value
            if v[0] == 'call' and v[1] == 'int' and found:
                hdr = True
        # a declared length is a declared length, 0 included: the parsed
        # value is stored on every path that found the field, and nothing is
        # decided on it
        if found and not any(e.value[0] == 'call' and e.value[1] == 'int'
                             for e in ws) and not any(
                "b'HEAD'" in c for c in conds if not c.startswith('not')):
            hdr_bad.append('a path finds content-length without storing it')
        for e in p.events:
            c0 = e.cond if e.kind == 'assume' else None
            while c0 is not None and c0[0] == 'not':
                c0 = c0[1]
            if c0 is not None and c0[0] == 'is' and T.NONE in c0[1:3]:
                continue        # "was a length found at all", not its value
            if e.kind == 'assume' and any(
                    t[0] == 'call' and t[1] == 'int'
                    for t in cm._subterms(e.cond)):
                hdr_bad.append('decides on the parsed value (%s)'
                               % cm.show0(e.cond)[:60])
    for p in paths:
        if cm.explicit_raise(p) is not None and \
                p.exc['names'] == {'ProtocolError'} and any(
                    e.kind == 'catch' and 'ValueError' in e.names
                    for e in p.events):
            bad_int = False
    ctx.ob('FLOW.expected', f4.qual, 'HEAD responses expect no body',
           head and not head_bad, '; '.join(sorted(set(head_bad))) or
           'request_method == b"HEAD" => expected length 0 on every path',
           node=f4.node)
    ctx.ob('FLOW.expected', f4.qual, 'content-length header parsed', hdr and
           not bad_int and not hdr_bad, '; '.join(sorted(set(hdr_bad))) or
           'int(value, 10) of the content-length field, stored whatever its '
           'value; a malformed value is a ProtocolError', node=f4.node)
    # no-content statuses
    mentions = set()
    import ast
    for nd in ast.walk(f4.node):
        if isinstance(nd, ast.Constant) and nd.value in (
                b'204', b'304', '204', '304', 204, 304):
            mentions.add(str(nd.value))
    # the exemption matters wherever a message can be found complete: one
    # obligation per site that runs the completion check (the DATA path of
    # the pinned tree is the known finding F11; a new site is a new finding)
    sites = sorted(q for q, fx in m.funcs.items()
                   if fx.cls == 'stream.H2Stream' and any(
                       cm.calls_to(p, '_track_content_length')
                       for p in eng.I.run(fx)))
    ctx.require(sites, 'no site runs the content-length completion check')
    for q in sites:
        fx = m.funcs[q]
        if q.endswith('.receive_data'):
            ctx.ob('TAB.no-content', f4.qual, '204/304 exempt',
                   len(mentions) >= 2, 'responses defined to have no '
                   'content (204, 304) are not exempt: a 304 with '
                   'content-length 5 ended by an empty DATA frame is '
                   'rejected', node=f4.node)
        else:
            ctx.ob('TAB.no-content', fx.qual, '204/304 exempt at this '
                   'completion check', len(mentions) >= 2,
                   'the received total is compared with content-length '
                   'here, but 204/304 responses are not exempt: a 304 with '
                   'content-length 1234 that ends on its HEADERS frame is '
                   'rejected although it carries no DATA', node=fx.node)
    # the expected length of a header block depends on that block and on the
    # request method only - not on what an earlier block of the stream left
    stale = set()
    for p in eng.I.run(f4):
        for e in p.events:
            if e.kind == 'assume' and '_expected_content_length' in \
                    cm.show0(e.cond):
                stale.add(cm.show0(e.cond))
    ctx.ob('FLOW.expected', f4.qual, 'every header block sets the expected '
           'length afresh', not stale, 'decides on the value an earlier '
           'header block left (%s): a 1xx block with a content-length fixes '
           'the length the final response is held to' % sorted(stale)
           if stale else 'no path reads the previous expected length',
           node=f4.node)
    # ---- request_method
    writers = flow.attr_writers(eng, 'request_method')
    ctx.ob('OWN.method', 'stream.H2Stream.request_method', 'writers',
           set(writers) == {S + '__init__', S + 'send_headers'},
           'written by %s' % sorted(w.split('.')[-1] for w in writers))
    f5 = m.func(S + 'send_headers')
    bad = []
    n = 0
    for p in cm.normal_paths(eng.I.run(f5)):
        n += 1
        ex = cm.calls_to(p, 'extract_method_header')
        if len(ex) != 1 or ex[0].args[0] != ('p', 'headers'):
            bad.append('a block is sent without looking for its :method '
                       '(the method must be captured from the request block '
                       'whatever else is known about the stream)')
            continue
        res = ex[0].result
        isnone = cm.fact_polarity(p, ('is', res, T.NONE))
        ws = [e for e in p.events if e.kind == 'write' and
              e.attr == 'request_method']
        if isnone is None:
            # unconditional assignment: a block without :method (trailers)
            # would erase the method of the request
            if ws:
                bad.append('request_method overwritten by blocks that carry '
                           'no :method (trailers)')
        elif isnone:
            if ws:
                bad.append('request_method overwritten with None')
        else:
            if len(ws) != 1 or ws[0].value != res:
                bad.append('the extracted method is not stored')
            # nothing else may decide whether it is stored
            i = p.index(ex[0])
            extra = [cm.show0(e.cond) for e in p.events[i:]
                     if e.kind == 'assume' and res != e.cond and
                     not T.mentions(e.cond, res)]
            j = p.index(ws[0]) if ws else i
            extra = [cm.show0(e.cond) for e in p.events[i:j]
                     if e.kind == 'assume' and not T.mentions(e.cond, res)]
            if extra:
                bad.append('storing the method depends on %s' % extra)
    # ... and only by a call that goes through: a send that is refused (state
    # machine, trailers without END_STREAM, outbound validation) must not
    # replace the method the response is measured against
    for p in cm.raise_paths(eng.I.run(f5)):
        if any(e.kind == 'write' and e.attr == 'request_method' and
               e.frame == f5.qual for e in p.events):
            bad.append('a send_headers call that raises has already '
                       'overwritten request_method')
    ctx.ob('OWN.method', f5.qual, 'method captured from the request block '
           'only', n > 0 and not bad, '; '.join(sorted(set(bad))) or
           'request_method = extract_method_header(headers) when the block '
           'has a :method', node=f5.node)
    f6 = m.func('utilities.extract_method_header')
    ok = cm.Every()
    for p in eng.I.run(f6):
        if p.exit == 'return' and p.value != T.NONE:
            conds = [e.cond for e in p.events if e.kind == 'assume']
            shows = [cm.show0(c) for c in conds]
            v = cm.show0(p.value)
            # the value of the :method field, as bytes: returned as it is
            # when IT is bytes, encoded otherwise (the test is on the value,
            # not on the name: a block may mix the two types)
            val = None
            for c in shows:
                if c.startswith('isinstance(') and c.endswith(', bytes)'):
                    val = (c[len('isinstance('):-len(', bytes)')], True)
                elif c.startswith('not isinstance(') and \
                        c.endswith(', bytes)'):
                    val = (c[len('not isinstance('):-len(', bytes)')], False)
            ok(any(c[0] == 'in' and cm.tuple_items(c[2]) is not None and
                   {cm.const_of(x) for x in cm.tuple_items(c[2])} ==
                   {b':method', ':method'} for c in conds) and
               val is not None and (
                   v == val[0] if val[1] else
                   v in (".encode(%s, 'utf-8')" % val[0],
                         ".encode(%s, 'ascii')" % val[0],
                         ".encode(%s)" % val[0])))
    ctx.ob('FLOW.method', f6.qual, 'selects :method', ok,
           'returns the value of :method as bytes', node=f6.node)
    ctx.assume('sums over DATA chunkings are not decided (the accumulator\'s '
               'form is)')
    cm.include(ctx, eng, 'C18',
               lambda o: o.rule == 'TAB.raise-class' and
               isinstance(o.where, str) and 'content_length' in o.where,
               'a length mismatch is a PROTOCOL_ERROR: the class of the '
               'refusal carries the code')
