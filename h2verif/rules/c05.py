"""C05 - automatic window management never over-credits (the liveness half is
not decided).

Decides the over-credit half: in WindowManager._maybe_update_window every
assignment of the increment is min(_bytes_processed, max_window_size -
current_window_size); _bytes_processed is reset exactly on the paths that
assign an increment; the returned value is the amount added to
current_window_size; process_bytes adds exactly its argument.  And the
refill plumbing: every path of _receive_data_frame that charged the
connection window and then meets a closed or forgotten stream passes through
_handle_data_on_closed_stream, which acknowledges
frame.flow_controlled_length and emits WINDOW_UPDATE(0) with the returned
increment; acknowledge_received_data feeds both managers and tags each frame
with the matching stream id.

NOT decided: "a zero window does not stay zero once everything is
acknowledged" (needs the arithmetic fact min(1024, max//4) < max and an
induction over acknowledgement histories).
"""
import ast

from .. import terms as T
from . import common as cm
from . import flow

H = flow.H
MGR = 'self._inbound_flow_control_window_manager'


def run(ctx, eng):
    ctx.rule('ARITH/FLOW: increment forms and reset discipline of '
             '_maybe_update_window; ORD/FLOW: refill plumbing of DATA on '
             'closed streams and of acknowledge_received_data')
    m = eng.m
    f1 = m.func('windows.WindowManager._maybe_update_window')
    paths = eng.I.run(f1)
    bad = []
    n_inc = 0
    n = 0
    CUR = 'self.current_window_size'
    for p in cm.normal_paths(paths):
        n += 1
        v = p.value
        nothing = cm.fact_polarity(
            p, ('a', ('p', 'self'), '_bytes_processed', 0))
        resets = [e for e in p.events if e.kind == 'write' and
                  e.attr == '_bytes_processed']
        cur = [e for e in p.events if e.kind == 'write' and
               e.attr == 'current_window_size']
        if nothing is False:
            if v != T.NONE:
                bad.append('returns %s when nothing was processed'
                           % cm.show0(v))
            if resets or cur:
                bad.append('writes although nothing was processed')
            continue
        if not cur and not resets and v == T.C(0):
            continue        # no credit due: nothing written, 0 reported
        if len(cur) != 1:
            bad.append('window not updated exactly once')
            continue
        inc = cur[0].operand if cur[0].aug == '+' else None
        if inc is None:
            d = T.add(cur[0].value, ('a', ('p', 'self'),
                                     'current_window_size', 0), -1)
            inc = d
        if v != inc:
            bad.append('returned value %s is not the amount added to the '
                       'window (%s)' % (cm.show0(v), cm.show0(inc)))
        if inc == T.C(0):
            if resets:
                bad.append('_bytes_processed reset without a credit')
            continue
        n_inc += 1
        ok_form = inc[0] == 'call' and inc[1] == 'min' and \
            len(inc[2]) == 2 and \
            cm.show0(inc[2][0]) == 'self._bytes_processed' and \
            cm.aff_is(inc[2][1], {'self.max_window_size': 1,
                                  'self.current_window_size': -1})
        if not ok_form:
            bad.append('increment is %s, expected min(_bytes_processed, '
                       'max_window_size - current_window_size)'
                       % cm.show0(inc))
        if len(resets) != 1 or resets[0].value != T.C(0):
            bad.append('a credit path does not reset _bytes_processed to 0')
    ctx.ob('ARITH.increment', f1.qual, 'never credits more than was '
           'acknowledged nor above the maximum', n_inc >= 1 and not bad,
           '; '.join(sorted(set(bad))) or '%d crediting paths use '
           'min(_bytes_processed, max - current) and reset the counter'
           % n_inc, node=f1.node)
    # ---- when a credit is due (the liveness half: a window is re-opened
    # once enough has been acknowledged, whatever its current value - in
    # particular when a settings change took it below zero)
    PROC = 'self._bytes_processed'
    A = (('eq', CUR, '0'), True)
    B = cm.key_literal(cm.mk_aff_key(
        '>', {PROC: 1, 'min(1024, (self.max_window_size // 4))': -1}, 0))
    C = cm.key_literal(cm.mk_aff_key(
        '>=', {PROC: 1, '(self.max_window_size // 2)': -1}, 0))
    NOTHING = ('truth', PROC)
    cases = []
    for p in cm.normal_paths(paths):
        lits = {}
        for e in p.events:
            if e.kind == 'assume':
                a, pol = cm.literal(e.cond)
                if a == ('eq', '0', CUR):
                    a = ('eq', CUR, '0')
                lits[a] = pol
        if lits.get(NOTHING) is False:
            continue
        credited = any(e.kind == 'write' and e.attr == 'current_window_size'
                       for e in p.events) and p.value != T.C(0)
        cases.append((lits, credited))

    def due(asg):
        def val(lit):
            return asg.get(lit[0]) if lit[1] else (
                None if asg.get(lit[0]) is None else not asg[lit[0]])
        a, b, c = val(A), val(B), val(C)
        if None in (a, b, c):
            return None         # an atom of the rule does not occur at all
        return bool((a and b) or c)
    mm = cm.decision_mismatches(cases, due)
    atoms_seen = {a for lits, _ in cases for a in lits}
    have = all(x[0] in atoms_seen for x in (A, B, C))
    ctx.ob('FLOW.credit-when', f1.qual, 'a credit is due exactly when the '
           'window is empty and > min(1024, max/4) was processed, or >= '
           'max/2 was processed', have and not mm,
           ('tests found: %s' % sorted(map(repr, atoms_seen))[:6])
           if not have else ('; '.join(
               'credited=%s where the rule says %s under %s' % (
                   o, x, {k[0] + ':' + str(k[1])[:50]: v
                          for k, v in asg.items()})
               for asg, o, x in mm[:2]) or
               'decision table over the %d tests of the function agrees '
               'with the rule on every combination' % len(atoms_seen)),
           node=f1.node)
    f2 = m.func('windows.WindowManager.process_bytes')
    ok = cm.Every()
    for p in cm.normal_paths(eng.I.run(f2)):
        ws = [e for e in p.events if e.kind == 'write' and
              e.attr == '_bytes_processed']
        c = cm.calls_to(p, '_maybe_update_window')
        ok(len(ws) == 1 and ws[0].aug == '+' and
           ws[0].operand == ('p', 'size') and len(c) == 1 and
           p.value == c[0].result and p.index(ws[0]) < p.index(c[0]))
    ctx.ob('FLOW.process', f2.qual, 'adds exactly its argument', ok,
           '_bytes_processed += size; return _maybe_update_window()',
           node=f2.node)
    # ---- refill plumbing (shared with C20)
    f3 = m.func(H + '_receive_data_frame')
    bad = []
    charged = 0
    for p in eng.I.run(f3):
        wc = cm.calls_to(p, 'window_consumed')
        if not wc:
            continue
        charged += 1
        if p.exit == 'raise' and 'StreamClosedError' in p.exc['names']:
            bad.append('StreamClosedError leaves the handler after the '
                       'window was charged: no refill')
        if any(e.kind == 'catch' and 'StreamClosedError' in e.names
               for e in p.events) and p.exit != 'raise':
            h = cm.calls_to(p, '_handle_data_on_closed_stream')
            inl = [e for e in cm.calls_to(p, 'process_bytes')
                   if cm.attr_chain(e.recv) == MGR]
            if not h and not inl:
                bad.append('closed-stream path without refill')
            elif h and p.value != h[0].result and not (
                    p.value is not None and p.value[0] == 'tuple' and
                    p.value[1] and h[0].result in cm._subterms(
                        p.value[1][0])):
                # (returned as they are, or as the first component of the
                # pair the handler returns)
                bad.append('the refill frames are not returned')
    ctx.ob('PAIR.refill', f3.qual, 'charged DATA on closed streams is '
           'refilled', charged > 0 and not bad, '; '.join(sorted(set(bad)))
           or 'ok', node=f3.node)
    f4 = m.func(H + '_handle_data_on_closed_stream', required=False)
    # read through the call: the handler's paths that met a closed stream,
    # with the helper (if there is one) taken in - so that what is credited
    # is named in the handler's terms, whichever side of the call computes it
    I4 = eng.interp({f4.qual}, depth=1) if f4 is not None else eng.I
    paths4 = [p for p in cm.normal_paths(I4.run(f3)) if any(
        e.kind == 'catch' and 'StreamClosedError' in e.names
        for e in p.events)]
    if f4 is None:
        f4 = f3
    bad = []
    n = 0
    for p in paths4:
        n += 1
        pb = cm.calls_to(p, 'process_bytes')
        if len(pb) != 1 or cm.attr_chain(pb[0].recv) != MGR or \
                cm.attr_chain(pb[0].args[0]) != \
                'frame.flow_controlled_length':
            bad.append('the connection manager must be acknowledged '
                       'frame.flow_controlled_length (padding included), '
                       'found %s' % (cm.show0(pb[0].args[0]) if pb else '-'))
            continue
        inc = cm.fact_polarity(p, pb[0].result)
        wu = [e for e in p.events if e.kind == 'new' and
              e.cls == 'WindowUpdateFrame']
        if bool(inc) != bool(wu):
            bad.append('WINDOW_UPDATE emitted iff the increment is non-zero')
        for e in wu:
            f = p.state.objs.get(e.obj, {})
            if f.get('stream_id') != T.C(0) or \
                    f.get('window_increment') != pb[0].result:
                bad.append('WINDOW_UPDATE(0) must carry the returned '
                           'increment')
        rst = [e for e in p.events if e.kind == 'new' and
               e.cls == 'RstStreamFrame']
        if len(rst) != 1:
            bad.append('one RST_STREAM expected')
        v = p.value
        if not (v and v[0] == 'tuple'):
            bad.append('does not return (frames, events)')
            continue
        el = cm.list_elems(p, v[1][0])
        if el is None or [x for x in el] != [e.obj for e in wu] + \
                [e.obj for e in rst]:
            bad.append('returned frames are not [WINDOW_UPDATE?] + '
                       '[RST_STREAM]')
    ctx.ob('FLOW.refill', f4.qual, 'acknowledges on the user\'s behalf',
           n > 0 and not bad, '; '.join(sorted(set(bad))) or 'ok',
           node=f4.node)
    # ---- acknowledge_received_data (the C04 clauses, restated here)
    f5 = m.func(H + 'acknowledge_received_data')
    bad = []
    n = 0
    for p in cm.normal_paths(eng.I.run(f5)):
        pb = cm.calls_to(p, 'process_bytes')
        if len(pb) != 1 or pb[0].args[0] != ('p', 'acknowledged_size'):
            bad.append('connection manager not fed acknowledged_size')
            continue
        n += 1
        sa = [e for e in p.events if e.kind == 'call' and
              'stream.H2Stream.acknowledge_received_data' in e.names]
        gone = any(e.kind == 'catch' and 'StreamClosedError' in e.names
                   for e in p.events)
        op = None
        for e in p.events:
            if e.kind == 'assume' and cm.show0(e.cond).endswith('.open'):
                op = e.cond[0] != 'not'
        if not gone and op and not sa:
            bad.append('an open stream is not credited')
        if sa and sa[0].args[0] != ('p', 'acknowledged_size'):
            bad.append('stream fed another amount')
        if sa and not (sa[0].recv[0] == 'call' and
                       sa[0].recv[1].endswith('_get_stream_by_id') and
                       sa[0].recv[2][-1] == ('p', 'stream_id')):
            bad.append('credited stream is not stream_id')
    ctx.ob('FLOW.ack', f5.qual, 'feeds both managers', n > 0 and not bad,
           '; '.join(sorted(set(bad))) or 'connection manager always, '
           'stream manager when the stream is still open', node=f5.node)
    rng = set()
    for p in eng.I.run(f5):
        if cm.explicit_raise(p) is not None and \
                p.exc['names'] == {'ValueError'}:
            rng.add(cm.show0([e for e in p.events
                              if e.kind == 'assume'][-1].cond))
    ctx.ob('ARITH.range', f5.qual, 'argument checks',
           rng == {'(-stream_id >= 0)', '(-acknowledged_size > 0)'},
           'ValueError for stream_id <= 0 or a negative size (found %s)'
           % sorted(rng), node=f5.node)
    # ---- a local INITIAL_WINDOW_SIZE change moves window and maximum alike
    f6 = m.func('stream.H2Stream._inbound_flow_control_change_from_settings')
    ok = cm.Every()
    for p in cm.normal_paths(eng.I.run(f6)):
        wo = cm.calls_to(p, 'window_opened')
        mw = [e for e in p.events if e.kind == 'write' and
              e.attr == 'max_window_size' and e.frame == f6.qual]
        ok(len(wo) == 1 and wo[0].args[0] == ('p', 'delta') and
           len(mw) == 1 and cm.aff_is(mw[0].value, {
               'delta': 1,
               'self._inbound_window_manager.max_window_size': 1}) and
           cm.reads_entry_value(mw[0].value, 'max_window_size'))
    ctx.ob('FLOW.maximum', f6.qual, 'maximum moves by the settings delta',
           ok, 'max_window_size = old maximum + delta (not derived from the '
           'current window: bytes received but not yet acknowledged must '
           'stay creditable)', node=f6.node)
    ctx.assume('LIVENESS NOT DECIDED: that a zero window does not stay zero '
               'once everything is acknowledged depends on the value of the '
               'threshold expression and on an induction over histories')
    cm.include(ctx, eng, 'C04', {'FLOW.delta', 'ARITH.open',
                                 'ARITH.consume', 'FLOW.init',
                                 'FLOW.charge', 'FLOW.queue',
                                 'OWN.conn-window'},
               'window and maximum track what was advertised: a local '
               'INITIAL_WINDOW_SIZE change reaches every stream, and the '
               'window arithmetic is exact (it may go negative)')
    check_derived_caches(ctx, eng)


def check_derived_caches(ctx, eng):
    """The update algorithm may keep values derived from the window or its
    maximum (thresholds, say) in attributes of the manager; then every place
    that writes the source must refresh the derived value, or the algorithm
    decides on stale numbers (a maximum lowered by a SETTINGS change and
    thresholds of the old one: the window stays at zero for ever)."""
    m = eng.m
    cls = m.cls('windows.WindowManager')
    base = {'max_window_size', 'current_window_size', '_bytes_processed'}
    wm = frozenset(q for q, fi in m.funcs.items()
                   if fi.cls == cls.qual and fi.name != '__repr__')
    I = eng.interp(wm, depth=2, fork_raises=False)
    derived = {}        # attr -> set of base fields it is computed from
    for q in sorted(wm):
        for p in cm.normal_paths(I.run(m.funcs[q])):
            for e in p.events:
                if e.kind != 'write' or e.attr in base or \
                        e.base != ('p', 'self'):
                    continue
                rhs = getattr(e.node, 'value', None)
                src = {n.attr for n in ast.walk(rhs)
                       if isinstance(n, ast.Attribute) and n.attr in base
                       and isinstance(n.value, ast.Name) and
                       n.value.id == 'self'} if rhs is not None else set()
                if src:
                    derived.setdefault(e.attr, set()).update(src)
    bad = []
    n_sites = 0
    for attr, srcs in sorted(derived.items()):
        for b in sorted(srcs):
            for wq in sorted(flow.attr_writers(eng, b)):
                fi = m.funcs[wq]
                for p in cm.normal_paths(I.run(fi)):
                    ws = [e for e in p.events if e.kind == 'write' and
                          e.attr == b]
                    for w in ws:
                        n_sites += 1
                        later = [e for e in p.events[p.index(w):]
                                 if e.kind == 'write' and e.attr == attr and
                                 cm.show0(e.base) == cm.show0(w.base)]
                        if not later:
                            bad.append('%s writes %s.%s but leaves the '
                                       'derived %s stale' % (
                                           wq.split('.', 1)[1],
                                           cm.show0(w.base), b, attr))
    ctx.ob('COH.derived', cls.qual, 'derived values follow their source',
           not bad, '; '.join(sorted(set(bad))) or (
               '%d derived attribute(s) %s, refreshed at all %d writes of '
               'their sources' % (len(derived), sorted(derived), n_sites)),
           node=cls.node, nontrivial=bool(derived))
