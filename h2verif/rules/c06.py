"""C06 - stream lifecycle follows the RFC 7540 section 5.1 machine.

Decides (DESIGN.md section 4, C06): cell-wise agreement of step_impl (table
+ guarded commands + process_input semantics, all extracted from the source)
with the hand-written reference step_ref on every abstract state reachable
through the stream API; the step-sequence contract of every H2Stream method;
the stream-error / connection-error mapping of _receive_frame.
"""
from .. import terms as T
from ..core import AnalysisError
from ..fsm import describe
from ..spec import rfc7540_stream as ref
from . import common as cm

CLOSED_BY_CLASSES = {
    frozenset({'RECV_RST_STREAM', 'SEND_RST_STREAM'}):
        '_stream_is_closed_by_reset',
    frozenset({'RECV_END_STREAM', 'SEND_END_STREAM'}):
        '_stream_is_closed_by_end',
}

# Step-sequence contracts (appendix A, layer 2): method -> function of
# (end_stream truth on the path, informational truth on the path) giving the
# sequence of stream inputs a normally returning path must have fed.
CONTRACTS = {
    'send_headers': lambda es, info: (
        ['SEND_INFORMATIONAL_HEADERS'] if info else ['SEND_HEADERS'])
    + (['SEND_END_STREAM'] if es else []),
    'push_stream_in_band': lambda es, info: ['SEND_PUSH_PROMISE'],
    'locally_pushed': lambda es, info: ['SEND_PUSH_PROMISE'],
    'send_data': lambda es, info: ['SEND_DATA'] + (
        ['SEND_END_STREAM'] if es else []),
    'end_stream': lambda es, info: ['SEND_END_STREAM'],
    'advertise_alternative_service':
        lambda es, info: ['SEND_ALTERNATIVE_SERVICE'],
    'increase_flow_control_window': lambda es, info: ['SEND_WINDOW_UPDATE'],
    'reset_stream': lambda es, info: ['SEND_RST_STREAM'],
    'receive_push_promise_in_band': lambda es, info: ['RECV_PUSH_PROMISE'],
    'remotely_pushed': lambda es, info: ['RECV_PUSH_PROMISE'],
    'receive_headers': lambda es, info: (
        ['RECV_INFORMATIONAL_HEADERS'] if info else ['RECV_HEADERS'])
    + (['RECV_END_STREAM'] if es else []),
    'receive_data': lambda es, info: ['RECV_DATA'] + (
        ['RECV_END_STREAM'] if es else []),
    'stream_reset': lambda es, info: ['RECV_RST_STREAM'],
    'acknowledge_received_data': lambda es, info: [],
}


def feedable_from_source(eng, ctx):
    """Layer 2 restriction used for the reachable closure, confirmed against
    H2Stream.send_headers: SEND_INFORMATIONAL_HEADERS is only fed when the
    path assumed `not self.state_machine.client`."""
    fi = eng.m.func('stream.H2Stream.send_headers')
    ok = True
    seen = 0
    for p in eng.I.run(fi):
        for name, ev, _ in cm.process_inputs(p):
            if name == 'SEND_INFORMATIONAL_HEADERS':
                seen += 1
                guarded = False
                for e in p.events:
                    if e is ev:
                        break
                    if e.kind == 'assume' and e.cond[0] == 'not' and \
                            e.cond[1][0] == 'truth' and \
                            e.cond[1][1][0] == 'a' and \
                            e.cond[1][1][2] == 'client':
                        guarded = True
                ok = ok and guarded
    ctx.ob('FSM.layer2', 'stream.H2Stream.send_headers',
           'SEND_INFORMATIONAL_HEADERS only on non-client streams',
           ok and seen > 0,
           'every path that feeds SEND_INFORMATIONAL_HEADERS must have '
           'assumed `not state_machine.client` (%d sites)' % seen,
           node=fi.node)
    return ref.feedable


def check_process_input(eng, ctx):
    """The generic step semantics the model assumes."""
    fi = eng.m.func('stream.H2StreamStateMachine.process_input')
    paths = eng.I.run(fi)
    where = fi.qual
    # (a) missing cell: state := CLOSED, ProtocolError
    miss = cm.lookup_miss_paths(paths, '_transitions')
    ok_a = bool(miss) and all(
        p.exit == 'raise' and p.exc['names'] == {'ProtocolError'} and
        any(e.kind == 'write' and e.attr == 'state' and
            cm.enum_name(e.value) == 'CLOSED' for e in p.events)
        for p in miss)
    ctx.ob('FSM.step', where, 'missing cell => CLOSED + ProtocolError', ok_a,
           'the KeyError handler must set state to CLOSED and raise '
           'ProtocolError', node=fi.node)
    # (b) state := target before the side effect is called
    ok_b = True
    n_b = 0
    for p in paths:
        for i, e in enumerate(p.events):
            if e.kind == 'call' and any('func' in str(n) or
                                        'H2StreamStateMachine.' in str(n)
                                        for n in e.names) and \
                    not cm.is_call_to(e, 'process_input') and \
                    e.frame == fi.qual and e.get('recv') is None:
                n_b += 1
                before = [w for w in p.events[:i] if w.kind == 'write' and
                          w.attr == 'state']
                if not before or before[-1].value[0] != 'sub':
                    ok_b = False
    ctx.ob('FSM.step', where, 'state := target before side effect',
           ok_b and n_b > 0,
           'self.state must be assigned the cell\'s target before func() '
           'runs (%d call paths)' % n_b, node=fi.node)
    # (c) ProtocolError from the side effect => CLOSED, re-raised
    # (whatever its class: StreamClosedError and the other subclasses are
    # ProtocolErrors too, a handler of their own in front of the general one
    # must close the stream as well; and one that escapes uncaught because
    # the handler was narrowed has not closed it either)
    def proto(names):
        return any(eng.m.exc_is_subclass(n, 'ProtocolError') for n in names)
    pe = [p for p in paths if any(
        e.kind == 'catch' and e.frame == fi.qual and proto(e.names) and
        'KeyError' not in e.names for e in p.events)]
    esc = [p for p in paths if p.exit == 'raise' and
           p.exc.get('via_call') is not None and
           p.exc['via_call'].frame == fi.qual and
           not cm.is_call_to(p.exc['via_call'], 'isinstance') and
           proto(p.exc['names']) and not any(
               e.kind == 'catch' and e.frame == fi.qual for e in p.events)]
    ok_c = bool(pe) and not esc and all(
        p.exit == 'raise' and any(
            e.kind == 'write' and e.attr == 'state' and
            cm.enum_name(e.value) == 'CLOSED' for e in p.events)
        for p in pe)
    ctx.ob('FSM.step', where, 'ProtocolError in side effect => CLOSED', ok_c,
           'the ProtocolError handler must set state to CLOSED and re-raise',
           node=fi.node)
    # (d) AssertionError => CLOSED + ProtocolError
    ae = [p for p in paths if any(
        e.kind == 'catch' and 'AssertionError' in e.names for e in p.events)]
    ok_d = bool(ae) and all(
        p.exit == 'raise' and p.exc['names'] == {'ProtocolError'} and any(
            e.kind == 'write' and e.attr == 'state' and
            cm.enum_name(e.value) == 'CLOSED' for e in p.events)
        for p in ae)
    ctx.ob('FSM.step', where, 'AssertionError => CLOSED + ProtocolError',
           ok_d, 'the AssertionError handler must set state to CLOSED and '
           'raise ProtocolError', node=fi.node)
    # (e) the table consulted is the module's _transitions, keyed by
    # (self.state, input)
    ok_e = cm.lookup_keys(paths, '_transitions') == {'(self.state, input_)'}
    ctx.ob('FSM.step', where, 'table lookup keyed by (state, input)', ok_e,
           '_transitions[(self.state, input_)]', node=fi.node)


def compare_cells(eng, ctx, feedable, rule='FSM.cell', inputs=None,
                  states_filter=None, prop_note='', differs=None):
    """Cell-wise differential check on the API-reachable abstract states."""
    fsm = eng.fsm
    order, trans = fsm.reachable(feedable)
    ctx.states = len(order)
    ctx.transitions = len(trans)
    ctx.record('abstract_states', len(order))
    ctx.record('abstract_transitions', len(trans))
    by_cell = {}
    for s, inp, r in trans:
        if inputs is not None and inp not in inputs:
            continue
        if states_filter is not None and not states_filter(s):
            continue
        by_cell.setdefault((s.st, inp), []).append((s, r))
    for (st, inp), items in sorted(by_cell.items()):
        universe = {s for s, _ in items}
        groups = {}
        for s, r in items:
            exp = ref.step_ref(s, inp)
            got = (r[0], tuple(r[1]), r[2])
            if got != (exp[0], tuple(exp[1]), exp[2]) and (
                    differs is None or differs(exp, got)):
                what = _diff(exp, got)
                groups.setdefault(what, []).append(s)
        cell = fsm.stream.cells.get((st, inp))
        node = cell[2] if cell else fsm.stream.node
        if not groups:
            ctx.ob(rule, 'stream', '%s|%s' % (st, inp), True,
                   '%d reachable abstract states agree with the reference'
                   % len(universe), node=node)
            continue
        for what, ss in sorted(groups.items()):
            cond = describe(ss, universe)
            ctx.ob(rule, 'stream', '%s|%s|%s|%s' % (st, inp, cond, what),
                   False,
                   'cell (%s, %s): on %d of %d reachable abstract states '
                   '[%s] the implementation differs from the RFC 7540 '
                   'reference: %s%s' % (st, inp, len(ss), len(universe),
                                        cond, what, prop_note), node=node)
    return order, trans


def _diff(exp, got):
    parts = []
    if exp[0] != got[0]:
        parts.append('ref=%s impl=%s' % (exp[0], got[0]))
    if tuple(exp[1]) != tuple(got[1]):
        parts.append('events ref=%s impl=%s' % (','.join(exp[1]) or '-',
                                                ','.join(got[1]) or '-'))
    if exp[2] != got[2]:
        for f in exp[2]._fields:
            a, b = getattr(exp[2], f), getattr(got[2], f)
            if a != b:
                parts.append('%s ref=%s impl=%s' % (f, a, b))
    return ' '.join(parts)


def check_layer2(eng, ctx):
    cls = eng.m.cls('stream.H2Stream')
    n = 0
    for mname, contract in sorted(CONTRACTS.items()):
        fi = eng.m.lookup_method(cls.qual, mname)
        if fi is None:
            raise AnalysisError('H2Stream.%s not found' % mname)
        paths = eng.I.run(fi)
        bad = []
        for p in cm.normal_paths(paths):
            seq = [nm for nm, _, _ in cm.process_inputs(p)]
            es = cm.param_truth(p, 'end_stream')
            info = None
            for e in p.events:
                if e.kind == 'assume':
                    c = e.cond
                    neg = False
                    if c[0] == 'not':
                        c, neg = c[1], True
                    if c[0] == 'truth' and c[1][0] == 'call' and \
                            c[1][1].endswith('is_informational_response'):
                        info = not neg
            exp = contract(bool(es), bool(info))
            if seq != exp:
                bad.append('path with end_stream=%s informational=%s feeds '
                           '%s, contract %s' % (es, info, seq, exp))
        n += 1
        ctx.ob('FSM.layer2', fi.qual, 'step sequence contract', not bad,
               '; '.join(bad[:3]) or 'every normally returning path feeds '
               'the contracted inputs', node=fi.node)
    ctx.count('stream_methods', n)
    # receive_alt_svc: steps only when the frame carries no origin
    fi = eng.m.func('stream.H2Stream.receive_alt_svc')
    ok = True
    for p in cm.normal_paths(eng.I.run(fi)):
        seq = [nm for nm, _, _ in cm.process_inputs(p)]
        origin = cm.fact_polarity(p, ('a', ('p', 'frame'), 'origin', 0))
        exp = [] if origin else ['RECV_ALTERNATIVE_SERVICE']
        if seq != exp:
            ok = False
    ctx.ob('FSM.layer2', fi.qual, 'step sequence contract', ok,
           'RECV_ALTERNATIVE_SERVICE unless the frame carries an origin',
           node=fi.node)
    # upgrade: UPGRADE_CLIENT | UPGRADE_SERVER by argument
    fi = eng.m.func('stream.H2Stream.upgrade')
    ok = True
    seen = set()
    for p in cm.normal_paths(eng.I.run(fi)):
        seq = [nm for nm, _, _ in cm.process_inputs(p)]
        cs = cm.param_truth(p, 'client_side')
        exp = ['UPGRADE_CLIENT'] if cs else ['UPGRADE_SERVER']
        seen.add(tuple(seq))
        if seq != exp:
            ok = False
    ctx.ob('FSM.layer2', fi.qual, 'step sequence contract',
           ok and len(seen) == 2, 'UPGRADE_CLIENT iff client_side',
           node=fi.node)


def check_receive_frame(eng, ctx):
    """Layer 3: StreamClosedError => RST_STREAM iff closed by reset else
    connection error; StreamIDTooLowError => three-way split."""
    fi = eng.m.func('connection.H2Connection._receive_frame')
    paths = eng.I.run(fi)
    where = fi.qual

    def caught(p, name):
        return [e for e in p.events if e.kind == 'catch' and
                name in e.names]

    def closed_by_facts(p):
        """What the path has established about how the stream named by the
        exception was closed: {'_stream_is_closed_by_reset': bool,
        '_stream_is_closed_by_end': bool} plus 'arg_ok'.  The test is either
        a call of the classifying helper (whose own body is checked below)
        or the helper's body written out at the use site: membership of
        `_stream_closed_by(id)` in the two RST / the two END_STREAM
        members."""
        facts = {'arg_ok': True}
        for e in p.events:
            if e.kind != 'assume':
                continue
            c, neg = (e.cond[1], True) if e.cond[0] == 'not' \
                else (e.cond, False)
            nm = arg = None
            if c[0] == 'truth' and c[1][0] == 'call':
                nm = c[1][1].split('.')[-1]
                arg = c[1][2][-1] if c[1][2] else None
                if not nm.startswith('_stream_is_closed_by'):
                    facts[nm] = not neg
                    continue
            else:
                mf = cm.member_form(c)
                if mf is None or not (mf[0][0] == 'call' and
                                      mf[0][1].endswith('_stream_closed_by')):
                    continue
                arg = mf[0][2][-1] if mf[0][2] else None
                nm = CLOSED_BY_CLASSES.get(frozenset(mf[1]))
                if nm is None:
                    facts['arg_ok'] = False     # a classification that is
                    continue                    # neither of the two
            facts[nm] = not neg
            if not (arg is not None and arg[0] == 'a' and
                    arg[2] == 'stream_id' and arg[1][0] == 'exc'):
                facts['arg_ok'] = False
        return facts
    # --- StreamClosedError
    sc = [p for p in paths if caught(p, 'StreamClosedError')]
    ok1 = bool(sc)
    detail = []
    for p in sc:
        f_ = closed_by_facts(p)
        byreset = f_.get('_stream_is_closed_by_reset')
        if not f_['arg_ok']:
            ok1 = False
            detail.append('closed-by-reset test not on e.stream_id')
        if byreset is None:
            if p.exit == 'raise' and (p.exc.get('via_call') is not None or
                                      p.exc.get('via_load') is not None):
                continue        # the test call itself raised
            ok1 = False
            detail.append('handler path without the closed-by-reset test')
        elif byreset:
            frames = [e for e in p.events if e.kind == 'new' and
                      e.cls == 'RstStreamFrame']
            sent = cm.calls_to(p, '_prepare_for_sending')
            good = False
            if len(frames) == 1 and len(sent) == 1 and \
                    p.exit in ('return', 'fall'):
                f = p.state.objs.get(frames[0].obj, {})
                sid = f.get('stream_id')
                code = f.get('error_code')
                good = (sid is not None and sid[0] == 'a' and
                        sid[2] == 'stream_id' and sid[1][0] == 'exc' and
                        code is not None and code[0] == 'a' and
                        code[2] == 'error_code' and code[1][0] == 'exc')
                ret = p.value
                good = good and ret is not None and ret[0] == 'a' and \
                    ret[2] == '_events'
            if not good and p.exit != 'raise':
                ok1 = False
                detail.append('reset branch must emit exactly one RST_STREAM('
                              'e.stream_id, e.error_code) and return '
                              'e._events')
        else:
            if not (p.exit == 'raise' and p.exc.get('reraise')):
                ok1 = False
                detail.append('non-reset branch must re-raise')
    ctx.ob('FSM.layer3', where, 'StreamClosedError mapping', ok1,
           '; '.join(sorted(set(detail))) or
           'RST_STREAM iff closed by reset, else connection error',
           node=fi.node)
    # --- StreamIDTooLowError
    tl = [p for p in paths if caught(p, 'StreamIDTooLowError')]
    ok2 = bool(tl)
    kinds = set()
    for p in tl:
        facts = closed_by_facts(p)
        if not facts['arg_ok']:
            ok2 = False     # must classify the id that was too low
            #                 (e.stream_id), not another one
        if facts.get('_stream_is_closed_by_reset'):
            frames = [e for e in p.events if e.kind == 'new' and
                      e.cls == 'RstStreamFrame']
            if p.exit == 'raise':
                continue
            good = len(frames) == 1 and \
                len(cm.calls_to(p, '_prepare_for_sending')) == 1
            if good:
                f = p.state.objs.get(frames[0].obj, {})
                sid = f.get('stream_id')
                good = cm.enum_name(f.get('error_code')) == 'STREAM_CLOSED' \
                    and sid is not None and sid[0] == 'a' and \
                    sid[2] == 'stream_id' and sid[1][0] == 'exc'
            kinds.add('reset')
            ok2 = ok2 and good
        elif facts.get('_stream_is_closed_by_end'):
            kinds.add('ended')
            ok2 = ok2 and p.exit == 'raise' and \
                p.exc['names'] == {'StreamClosedError'}
        elif facts.get('_stream_is_closed_by_end') is False:
            kinds.add('other')
            ok2 = ok2 and p.exit == 'raise' and bool(p.exc.get('reraise'))
        elif p.exit == 'raise' and (p.exc.get('via_call') is not None or
                                    p.exc.get('via_load') is not None):
            continue
        else:
            ok2 = False
    ctx.ob('FSM.layer3', where, 'StreamIDTooLowError three-way split',
           ok2 and kinds == {'reset', 'ended', 'other'},
           'reset => RST_STREAM(STREAM_CLOSED); ended => StreamClosedError; '
           'else re-raise (seen: %s)' % sorted(kinds), node=fi.node)
    # --- normal path: frames handed to _prepare_for_sending, events returned
    nm = [p for p in paths if not any(e.kind == 'catch' for e in p.events)
          and p.exit in ('return', 'fall')]
    ok3 = bool(nm) and all(len(cm.calls_to(p, '_prepare_for_sending')) == 1
                           for p in nm)
    ctx.ob('FSM.layer3', where, 'normal dispatch emits the handler frames',
           ok3, 'exactly one _prepare_for_sending(frames) on the normal path',
           node=fi.node)
    # --- _stream_closed_by: live table first, then _closed_streams
    fi2 = eng.m.func('connection.H2Connection._stream_closed_by')
    ok4 = True
    srcs = []

    def table_read(t, attr):
        """t reads self.<attr>[id] (subscript or .get) -> 'sub' | 'get'"""
        if t[0] == 'sub' and t[1][0] == 'a' and t[1][2] == attr:
            return 'sub'
        if t[0] == 'call' and t[1].endswith('.get') and t[2] and \
                t[2][0][0] == 'a' and t[2][0][2] == attr and \
                (len(t[2]) == 2 or t[2][2] == T.NONE):
            return 'get'
        return None

    def live_fact(p):
        """True / False / None: did the path establish that the id is in
        the live table?"""
        for e in p.events:
            if e.kind != 'assume':
                continue
            c, pos = (e.cond[1], False) if e.cond[0] == 'not' \
                else (e.cond, True)
            if c[0] == 'in' and c[2][0] == 'a' and c[2][2] == 'streams':
                return pos
            if c[0] == 'is' and T.NONE in (c[1], c[2]):
                other = c[2] if c[1] == T.NONE else c[1]
                if table_read(other, 'streams') == 'get':
                    return not pos
            if c[0] == 'truth' and table_read(c[1], 'streams') == 'get':
                return pos
        return None
    for p in eng.I.run(fi2):
        if p.exit == 'raise':
            continue
        v = p.value
        if v == T.NONE:
            srcs.append('none')
            ok4 = ok4 and live_fact(p) is False
        elif v[0] == 'a' and v[2] == 'closed_by' and \
                table_read(v[1], 'streams'):
            srcs.append('live')
            ok4 = ok4 and live_fact(p) is True
        elif table_read(v, '_closed_streams'):
            srcs.append('closed')
            if table_read(v, '_closed_streams') == 'get':
                srcs.append('none')      # .get yields None when absent
            # reached only when the id is not live
            ok4 = ok4 and live_fact(p) is False
        else:
            ok4 = False
    ctx.ob('FSM.layer3', fi2.qual, 'closed-by lookup order',
           ok4 and set(srcs) == {'live', 'closed', 'none'},
           'live stream\'s closed_by first, then _closed_streams, else None '
           '(seen %s)' % srcs, node=fi2.node)
    for nm_, members in (('_stream_is_closed_by_reset',
                          {'RECV_RST_STREAM', 'SEND_RST_STREAM'}),
                         ('_stream_is_closed_by_end',
                          {'RECV_END_STREAM', 'SEND_END_STREAM'})):
        try:
            f3 = eng.m.func('connection.H2Connection.' + nm_)
        except AnalysisError:
            # the helper is gone: its body is written out where it was used,
            # and closed_by_facts() has read the membership test there (a
            # remaining call of the missing name would be an AttributeError
            # reported by the escape analysis)
            ctx.note('%s not present; classification read at the use '
                     'sites' % nm_)
            continue
        good = False
        for p in eng.I.run(f3):
            if p.exit != 'return':
                continue
            mf = cm.member_form(p.value)
            if mf is not None and mf[0][0] == 'call' and \
                    mf[0][1].endswith('_stream_closed_by'):
                good = mf[1] == members
        ctx.ob('FSM.layer3', f3.qual, 'closed-by classification', good,
               'membership of _stream_closed_by(id) in %s' % sorted(members),
               node=f3.node)


def check_api_gates(eng, ctx):
    """The local end-of-stream and reset actions carry no payload and
    consume no window: nothing but the two state machines and the stream
    lookup may refuse them (a send succeeds exactly where the state permits
    it)."""
    allowed = {'NoSuchStreamError', 'ProtocolError', 'StreamClosedError'}
    for name in ('end_stream', 'reset_stream'):
        fi = eng.m.func('connection.H2Connection.' + name)
        esc = eng.R.of(fi.qual)
        extra = sorted(set(esc) - allowed)
        how = []
        for x in extra:
            w = esc[x]
            how.append('%s from %s' % (x, '; '.join(sorted(
                '%s %s' % (o[0].split('.')[-1], o[2])
                for o in getattr(w, 'origins', ())))[:160]))
        ctx.ob('FSM.api-gates', fi.qual, 'refused by the state machines only',
               not extra, '; '.join(how) or 'escape set %s: the connection '
               'machine, the lookup, the stream machine' % sorted(esc),
               node=fi.node)
    # reserving a stream opens nothing: neither the concurrency limit nor a
    # window stands in the way of a push (RFC 7540 5.1.2, 8.2.2)
    for name in ('push_stream', '_receive_push_promise_frame'):
        fi = eng.m.func('connection.H2Connection.' + name)
        esc = eng.R.of(fi.qual)
        extra = sorted(set(esc) & {'TooManyStreamsError', 'FlowControlError'})
        ctx.ob('FSM.api-gates', fi.qual, 'a push is not subject to the '
               'stream limit', not extra, '; '.join(
                   '%s from %s' % (x, '; '.join(sorted(
                       '%s %s' % (o[0].split('.')[-1], o[2])
                       for o in getattr(esc[x], 'origins', ())))[:160])
                   for x in extra) or 'escape set %s' % sorted(esc),
               node=fi.node)


def run(ctx, eng):
    ctx.rule('FSM: transition tables and guarded commands extracted from '
             'the AST; step_impl compared cell-wise with the RFC 7540 '
             'reference on all API-reachable abstract states')
    ctx.rule('FSM.step: process_input generic semantics by path analysis')
    ctx.rule('FSM.layer2: step-sequence contract of each H2Stream method')
    ctx.rule('FSM.layer3: _receive_frame exception mapping by path analysis')
    fsm = eng.fsm
    ctx.record('stream_cells', len(fsm.stream.cells))
    ctx.record('connection_cells', len(fsm.conn.cells))
    ctx.record('side_effect_methods', len(fsm.cmds))
    ctx.floor('stream_cells', 60)
    ctx.floor('side_effect_methods', 20)
    for k in fsm.stream.duplicates:
        ctx.ob('TAB.dup', 'stream', '%s|%s' % k, False,
               'cell defined twice in the literal table; the later entry '
               'silently wins', node=fsm.stream.cells[k][2])
    check_process_input(eng, ctx)
    feedable = feedable_from_source(eng, ctx)
    order, trans = compare_cells(eng, ctx, feedable)
    if len(order) < 60:
        raise AnalysisError('reachable abstract state space collapsed: %d '
                            'states' % len(order))
    ctx.exhaustive = True
    check_layer2(eng, ctx)
    check_receive_frame(eng, ctx)
    check_api_gates(eng, ctx)
    from . import c20
    c20.check_push_leniency(ctx, eng)
    c20.check_lookup_contracts(ctx, eng)
    from . import c21
    c21.check_block_continuity(ctx, eng)
    ctx.assume('hyperframe delivers the frame types the model assumes')
    ctx.assume('the abstraction keeps the machine\'s flags and forgets header '
               'contents, payloads and counters')
    cm.include(ctx, eng, 'C09', {'ARITH.lookup', 'FLOW.lookup'},
               'idle and closed streams are told apart by the watermark of '
               'the stream\'s own direction')
    cm.include(ctx, eng, 'C20', {'PAIR.closed-record'},
               'how a forgotten stream was closed decides between stream '
               'error and connection error: the record must be its own')
    cm.include(ctx, eng, 'C18',
               lambda o: o.rule == 'TAB.raise-class' and
               isinstance(o.where, str) and (
                   'StateMachine' in o.where or
                   o.where.startswith('connection.H2Connection.')),
               'stream error or connection error, and with which code, is '
               'read off the class the machine raises')
    cm.include(ctx, eng, 'C07', {'PAIR.local-reset'},
               'a reset the library performs itself goes through the '
               'machine (SEND_RST_STREAM), not around it')
