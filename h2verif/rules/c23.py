"""C23 - priority information round-trips and never changes stream state.

Decides: the server gate dominates everything in prioritize and the
priority branch of send_headers; weight outside 1..256 and self-dependency
are refused before anything is encoded or emitted; the frame carries
weight-1 / depends_on / exclusive with defaults 15 / 0 / False; the receive
side copies stream id, depends_on, exclusive, stream_weight+1 into the event
and refuses self-dependency (for PRIORITY frames and for priority carried on
HEADERS); the PRIORITY handler writes nothing but the connection machine's
state, whose RECV_PRIORITY cells are self-loops; the HEADERS+PRIORITY link.
"""
from .. import terms as T
from . import common as cm
from . import flow

H = 'connection.H2Connection.'


def run(ctx, eng):
    ctx.rule('ORD gates; ARITH range/self-dependency guards as normal '
             'forms; FLOW frame and event fields (callees inlined); OWN '
             'write set of the PRIORITY handler; FSM self-loops')
    m = eng.m
    fsm = eng.fsm
    I = flow.stream_inliner(eng)
    # ---- validation
    fv = m.func('connection._validate_priority', required=False) or \
        m.func('connection._add_frame_priority')
    refusals = set()
    for p in I.run(fv):
        r = cm.explicit_raise(p)
        if r is not None and p.exc['names'] == {'ProtocolError'}:
            a = [e for e in p.events if e.kind == 'assume']
            refusals.add(cm.show0(a[-1].cond))
    sid = 'stream_id' if 'stream_id' in fv.params else 'frame.stream_id'
    exp = {'(weight - 256 > 0)', '(-weight + 1 > 0)'}
    selfdep = {'(depends_on == %s)' % sid, '(%s == depends_on)' % sid,
               '(depends_on - %s == 0)' % sid}
    ctx.ob('ARITH.weight', fv.qual, 'weight within 1..256',
           exp <= refusals, 'ProtocolError iff weight < 1 or weight > 256 '
           '(found %s)' % sorted(refusals), node=fv.node)
    ctx.ob('ARITH.self-dependency', fv.qual, 'no self-dependency',
           bool(selfdep & refusals),
           'ProtocolError iff depends_on == stream id (found %s)'
           % sorted(refusals), node=fv.node)
    # the two refusals are independent of each other: decision table of the
    # validator over its own tests
    if {'weight', 'depends_on', sid} <= set(fv.params):
        SD = ('eq', 'depends_on', sid)
        WN = ('other', '(weight is None)')
        DN = ('other', '(depends_on is None)')
        HI = cm.key_literal(cm.mk_aff_key('>', {'weight': 1}, -256))
        LO = cm.key_literal(cm.mk_aff_key('>', {'weight': -1}, 1))
        cases = []
        for p in I.run(fv):
            r = cm.explicit_raise(p)
            if p.exit == 'raise' and r is None:
                continue
            lits = {}
            for e in p.events:
                if e.kind == 'assume':
                    a, pol = cm.literal(e.cond)
                    if a == ('eq', sid, 'depends_on'):
                        a = SD
                    lits[a] = pol
            cases.append((lits, r is not None))

        def val(asg, lit):
            v = asg.get(lit[0])
            return None if v is None else (v if lit[1] else not v)

        def refuse(asg):
            wn, dn = asg.get(WN), asg.get(DN)
            sd, hi, lo = asg.get(SD), val(asg, HI), val(asg, LO)
            if sd is None or hi is None or lo is None:
                return None
            # combinations no argument can produce
            if (wn and (hi or lo)) or (dn and sd) or (hi and lo):
                return None
            return bool(sd or ((wn is not True) and (hi or lo)))
        mm = cm.decision_mismatches(cases, refuse)
        ctx.ob('ARITH.validate-table', fv.qual, 'the two refusals are '
               'independent', bool(cases) and not mm,
               '; '.join('refused=%s where the rule says %s under %s' % (
                   o, x, {str(k[1:])[:40]: v for k, v in asg.items()})
                   for asg, o, x in mm[:2]) or
               'refused iff depends_on == stream id, or weight given and '
               'outside 1..256 - whatever the other argument is',
               node=fv.node)
    # ---- prioritize()
    fi = m.func(H + 'prioritize')
    paths = I.run(fi)
    bad = []
    gate = False
    for p in paths:
        r = cm.explicit_raise(p)
        conds = [cm.show0(e.cond) for e in p.events if e.kind == 'assume']
        if r is not None and p.exc['names'] == {'RFC1122Error'}:
            if conds == ['not self.config.client_side'] and not [
                    e for e in p.events if e.kind in ('call', 'write') or
                    (e.kind == 'new' and not e.cls.endswith('Error'))]:
                gate = True
        elif 'self.config.client_side' not in conds[:1]:
            if p.exit == 'raise' and p.exc.get('via_call') is None and \
                    r is None:
                continue
            bad.append('something happens before the server gate')
        if r is not None and p.exc['names'] == {'ProtocolError'} and \
                r.frame != fi.qual:
            # refusal of weight / dependency: nothing emitted before
            if cm.calls_to(p, '_prepare_for_sending'):
                bad.append('refusal after the frame was emitted')
    ctx.ob('ORD.gate', fi.qual, 'server gate first', gate and not bad,
           '; '.join(sorted(set(bad))) or 'RFC1122Error for servers before '
           'anything else', node=fi.node)
    # sending PRIORITY changes nothing but the output: no stream is created,
    # no watermark moved, no field of the connection written
    wrote = sorted({e.attr for p in paths for e in p.events
                    if e.kind in ('write', 'store') and
                    e.frame == fi.qual and e.get('attr') and
                    e.get('base') == ('p', 'self')} |
                   {cm.show0(e.container)[:30] for p in paths
                    for e in p.events if e.kind == 'store' and
                    e.frame == fi.qual})
    created = any(cm.calls_to(p, '_begin_new_stream', '_get_or_create_stream')
                  for p in paths)
    ctx.ob('OWN.prioritize-writes', fi.qual, 'changes no connection or '
           'stream state', not wrote and not created,
           'prioritize() writes nothing and creates no stream%s' % (
               (' (writes %s%s)' % (wrote, ', creates a stream' if created
                                    else '')) if wrote or created else ''),
           node=fi.node)
    check_priority_frame_fields(ctx, eng)
    _rest(ctx, eng)


def check_priority_frame_fields(ctx, eng):
    """prioritize() and _set_frame_priority: weight-1 / depends_on /
    exclusive with defaults 15 / 0 / False."""
    m = eng.m
    I = flow.stream_inliner(eng)
    fi = m.func(H + 'prioritize')
    paths = I.run(fi)
    bad = []
    n = 0
    defaults = {}
    for p in cm.normal_paths(paths):
        n += 1
        frames = [e for e in p.events if e.kind == 'new' and
                  e.cls == 'PriorityFrame']
        ps = cm.calls_to(p, '_prepare_for_sending')
        if len(frames) != 1 or len(ps) != 1:
            bad.append('one PriorityFrame and one emit expected')
            continue
        f = p.state.objs.get(frames[0].obj, {})
        if f.get('stream_id') != ('p', 'stream_id'):
            bad.append('frame not on stream_id')
        if cm.list_elems(p, ps[0].args[0]) != (frames[0].obj,):
            bad.append('emitted list is not the PRIORITY frame')
        for param, field, dflt, xform in (
                ('weight', 'stream_weight', 15, -1),
                ('depends_on', 'depends_on', 0, 0),
                ('exclusive', 'exclusive', False, 0)):
            given = cm.fact_polarity(p, ('is', ('p', param), T.NONE))
            v = f.get(field)
            if given is True:       # argument is None
                if v != T.C(dflt):
                    bad.append('%s default is %s, expected %r'
                               % (field, cm.show0(v) if v else '?', dflt))
                defaults[field] = cm.show0(v) if v else None
            elif given is False:
                want = T.add(('p', param), T.C(xform)) if xform \
                    else ('p', param)
                if v != want:
                    bad.append('%s is %s, expected %s' % (
                        field, cm.show0(v) if v else '?', cm.show0(want)))
            else:
                bad.append('%s: path does not decide whether it was given'
                           % param)
        if [s for s, _, _ in cm.process_inputs(p)] != ['SEND_PRIORITY']:
            bad.append('connection input')
    ctx.ob('FLOW.priority-frame', fi.qual, 'fields and defaults', n > 0 and
           not bad, '; '.join(sorted(set(bad))) or 'stream_weight = weight-1 '
           '(15), depends_on (0), exclusive (False)', node=fi.node)


def _rest(ctx, eng):
    m = eng.m
    fsm = eng.fsm
    check_reassembly(ctx, eng)
    # ---- send_headers priority branch
    fs = m.func(H + 'send_headers')
    paths = eng.I.run(fs)
    bad = []
    gate = False
    n = 0
    for p in paths:
        conds = [cm.show0(e.cond) for e in p.events if e.kind == 'assume']
        pp = any(c.startswith('not (priority_') and c.endswith('is None)')
                 for c in conds)
        r = cm.explicit_raise(p)
        if r is not None and p.exc['names'] == {'RFC1122Error'}:
            if pp and 'not self.config.client_side' in conds and not [
                    e for e in p.events if e.kind == 'call']:
                gate = True
            else:
                bad.append('RFC1122Error raised after other work')
            continue
        if not pp:
            if any(e.kind == 'call' and cm.ev_callee_names(e) & {
                    '_set_frame_priority', '_add_frame_priority'}
                    for e in p.events):
                bad.append('priority set although no priority argument was '
                           'given')
            continue
        if p.exit in ('return', 'fall'):
            n += 1
            val = cm.calls_to(p, '_validate_priority', '_add_frame_priority')
            enc = [e for e in p.events if e.kind == 'call' and
                   'stream.H2Stream.send_headers' in e.names]
            if not val or not enc or p.index(val[0]) > p.index(enc[0]):
                bad.append('priority validated after the headers were '
                           'encoded')
            if val and [cm.show0(a) for a in val[0].args[:3]] != [
                    'stream_id', 'priority_weight', 'priority_depends_on']:
                bad.append('validation on other values than the arguments')
            setp = cm.calls_to(p, '_set_frame_priority',
                               '_add_frame_priority')
            setp = [e for e in setp if p.index(e) > p.index(enc[0])] \
                if enc else []
            if not setp or [cm.show0(a) for a in setp[-1].args[1:]] != [
                    'priority_weight', 'priority_depends_on',
                    'priority_exclusive']:
                bad.append('priority fields not taken from the arguments')
            elif not (setp[-1].args[0][0] == 'sub' and
                      setp[-1].args[0][2] == T.C(0)):
                bad.append('priority not put on the first (HEADERS) frame')
            if not any(e.kind == 'call' and cm.ev_callee_names(e) & {'add'}
                       and e.args and e.args[0] == T.C('PRIORITY')
                       for e in p.events):
                bad.append('PRIORITY flag not set')
            if 'self.config.client_side' not in conds:
                bad.append('priority sent without the client-side gate')
    ctx.ob('ORD.gate', fs.qual, 'priority branch of send_headers', gate and
           n > 0 and not bad, '; '.join(sorted(set(bad))) or
           'server gate and validation precede the encoding; the first frame '
           'gets the PRIORITY flag and the three fields', node=fs.node)
    # the field setter used by send_headers
    fset = m.func('connection._set_frame_priority', required=False)
    if fset is not None:
        bad = []
        n = 0
        for p in cm.normal_paths(eng.I.run(fset)):
            n += 1
            ws = {e.attr: e.value for e in p.events if e.kind == 'write' and
                  e.base == ('p', 'frame')}
            for param, field, dflt, xform in (
                    ('weight', 'stream_weight', 15, -1),
                    ('depends_on', 'depends_on', 0, 0),
                    ('exclusive', 'exclusive', False, 0)):
                given = cm.fact_polarity(p, ('is', ('p', param), T.NONE))
                v = ws.get(field)
                if given is True and v != T.C(dflt):
                    bad.append('%s default' % field)
                if given is False:
                    want = T.add(('p', param), T.C(xform)) if xform \
                        else ('p', param)
                    if v != want:
                        bad.append('%s is %s' % (field,
                                                 cm.show0(v) if v else '?'))
            if p.value in (None, T.NONE):
                # modifies the frame in place and returns nothing: then no
                # caller may use what it returns
                import ast
                used = [c for f2 in m.funcs.values()
                        for st in ast.walk(f2.node)
                        if not isinstance(st, ast.Expr)
                        for c in ast.iter_child_nodes(st)
                        if isinstance(c, ast.Call) and
                        isinstance(c.func, ast.Name) and
                        c.func.id == '_set_frame_priority']
                if used:
                    bad.append('returns nothing but its result is used')
            elif p.value != ('p', 'frame'):
                bad.append('does not return the frame')
        ctx.ob('FLOW.priority-frame', fset.qual, 'fields and defaults',
               n > 0 and not bad, '; '.join(sorted(set(bad))) or 'ok',
               node=fset.node)
    # ---- receive side
    fr = m.func(H + '_receive_priority_frame')
    paths = eng.I.run(fr)
    bad = []
    n = 0
    selfdep_ok = False
    for p in paths:
        r = cm.explicit_raise(p)
        if r is not None and p.exc['names'] == {'ProtocolError'}:
            c = cm.show0([e for e in p.events if e.kind == 'assume'][-1].cond)
            if c in ('(frame.depends_on == frame.stream_id)',
                     '(frame.stream_id == frame.depends_on)',
                     '(frame.depends_on - frame.stream_id == 0)'):
                selfdep_ok = True
        if p.exit not in ('return', 'fall'):
            continue
        n += 1
        evs = [e for e in p.events if e.kind == 'new' and
               e.cls == 'PriorityUpdated']
        if len(evs) != 1:
            bad.append('one PriorityUpdated expected')
            continue
        f = p.state.objs.get(evs[0].obj, {})
        if cm.attr_chain(f.get('stream_id')) != 'frame.stream_id':
            bad.append('event stream_id')
        if cm.attr_chain(f.get('depends_on')) != 'frame.depends_on':
            bad.append('event depends_on')
        if cm.attr_chain(f.get('exclusive')) != 'frame.exclusive':
            bad.append('event exclusive')
        if not cm.aff_is(f.get('weight'), {'frame.stream_weight': 1}, 1):
            bad.append('event weight is %s, expected frame.stream_weight + 1'
                       % (cm.show0(f['weight']) if f.get('weight') else '?'))
        v = p.value
        if not (v and v[0] == 'tuple' and cm.list_elems(p, v[1][0]) == ()):
            bad.append('the handler returns frames')
        if [s for s, _, _ in cm.process_inputs(p)] != ['RECV_PRIORITY']:
            bad.append('connection input')
    ctx.ob('FLOW.priority-handler', fr.qual, 'event fields, no frames',
           n > 0 and not bad, '; '.join(sorted(set(bad))) or
           'PriorityUpdated{stream_id, depends_on, exclusive, weight = '
           'stream_weight + 1}; empty frame list', node=fr.node)
    ctx.ob('ARITH.self-dependency', fr.qual, 'received self-dependency '
           'refused', selfdep_ok, 'ProtocolError iff depends_on == stream_id',
           node=fr.node)
    # HEADERS carrying priority go through the same handler (and therefore
    # the same refusal)
    fh = m.func(H + '_receive_headers_frame')
    ok = False
    n = 0
    for p in cm.normal_paths(eng.I.run(fh)):
        pr = cm.fact_polarity(p, ('in', T.C('PRIORITY'),
                                  ('a', ('p', 'frame'), 'flags', 0)))
        if pr:
            n += 1
            c = cm.calls_to(p, '_receive_priority_frame')
            ok = len(c) == 1 and c[0].args[0] == ('p', 'frame')
            if not ok:
                break
    ctx.ob('FLOW.priority-handler', fh.qual, 'HEADERS+PRIORITY uses the '
           'PRIORITY handler', ok and n > 0, 'priority carried on HEADERS is '
           'decoded and checked by _receive_priority_frame(frame)',
           node=fh.node)
    W = eng.I.writes
    w = W.attrs(fr.qual) - {'state'}
    ctx.ob('OWN.priority', fr.qual, 'write set', not w, 'the PRIORITY handler '
           'writes nothing but the connection machine\'s state (writes %s)'
           % sorted(w), node=fr.node)
    for st in fsm.conn_states:
        if st == 'CLOSED':
            continue
        cell = fsm.conn.cells.get((st, 'RECV_PRIORITY'))
        ctx.ob('FSM.self-loop', 'connection', '%s|RECV_PRIORITY' % st,
               cell is not None and cell[1] == st,
               'a PRIORITY frame changes no connection state (found %s)'
               % (cell[1] if cell else 'no cell'),
               node=cell[2] if cell else fsm.conn.node)
        cell = fsm.conn.cells.get((st, 'SEND_PRIORITY'))
        ctx.ob('FSM.self-loop', 'connection', '%s|SEND_PRIORITY' % st,
               cell is not None and cell[1] == st,
               'sending PRIORITY changes no connection state',
               node=cell[2] if cell else fsm.conn.node)
    from .c07 import check_links
    check_links(eng, ctx)


def check_reassembly(ctx, eng):
    """A header block split over CONTINUATION frames reaches the handlers as
    the leading HEADERS / PUSH_PROMISE frame object itself (flags and data
    completed): every other field the parser filled in - the priority
    fields, the promised stream id, padding - is therefore the one that was
    received.  Shared by C23 and C01."""
    fi = eng.m.func('frame_buffer.FrameBuffer._update_header_buffer')
    bad = []
    n_end = n_pass = 0
    for p in cm.normal_paths(eng.I.run(fi)):
        buffering = cm.fact_polarity(p, ('a', ('p', 'self'),
                                         '_headers_buffer', 0))
        if buffering is None:
            for e in p.events:
                if e.kind == 'assume':
                    s = cm.show0(e.cond)
                    if s == 'self._headers_buffer':
                        buffering = True
                    elif s == 'not self._headers_buffer':
                        buffering = False
        end = None
        for e in p.events:
            if e.kind == 'assume':
                s = cm.show0(e.cond)
                if s == "('END_HEADERS' in f.flags)":
                    end = True
                elif s == "not ('END_HEADERS' in f.flags)":
                    end = False
        v = p.value
        if buffering and end:
            n_end += 1
            lead = (v is not None and v[0] == 'sub' and
                    cm.attr_chain(v[1]) == 'self._headers_buffer' and
                    v[2] == T.C(0))
            if lead:
                ws = {e.attr for e in p.events if e.kind == 'write'}
                lost = ws & {'depends_on', 'stream_weight', 'exclusive'}
                if lost:
                    bad.append('the completed frame has its priority fields '
                               'rewritten: %s' % sorted(lost))
            elif v is not None and v[0] == 'obj':
                # a copy is as good as the original if it copies the fields
                f = p.state.objs.get(v, {})
                for fld in ('depends_on', 'stream_weight', 'exclusive'):
                    got = f.get(fld)
                    if got is None or cm.show0(got) != \
                            'self._headers_buffer[0].%s' % fld:
                        bad.append('a completed block is returned as a new '
                                   '%s whose %s is not the leading frame\'s'
                                   % (v[2], fld))
            else:
                bad.append('a completed block is returned as %s, neither '
                           'the leading frame nor a copy of it'
                           % cm.show0(v))
        elif buffering is False and v is not None and v != T.NONE:
            n_pass += 1
            if v != ('p', 'f'):
                bad.append('an unbuffered frame is replaced by %s'
                           % cm.show0(v))
    ctx.ob('PAIR.reassembly', fi.qual, 'a reassembled block is the leading '
           'frame itself', n_end > 0 and n_pass > 0 and not bad,
           '; '.join(sorted(set(bad))) or 'flags and data completed in '
           'place; priority fields, promised id and padding untouched',
           node=fi.node)
