"""Shared pieces of the flow-control rules (C03, C04, C05)."""
import ast

from .. import extlib, terms as T
from . import common as cm

H = 'connection.H2Connection.'
LIMIT = 2 ** 31 - 1
WIN_ATTRS = {'current_window_size', 'max_window_size', '_bytes_processed',
             'outbound_flow_control_window'}


def fcl_summary(ctx):
    r = extlib.check_flow_controlled_length()
    ctx.ob('EXT.summary', 'hyperframe.DataFrame.flow_controlled_length',
           'summary matches the installed source', r is not False,
           'len(data) + (pad_length + 1 if PADDED else 0)',
           nontrivial=r is not None)


def attr_writers(eng, attr):
    """qual -> list of AST nodes writing <x>.attr (Assign/AugAssign)."""
    out = {}
    for fi in eng.m.funcs.values():
        for n in ast.walk(fi.node):
            if isinstance(n, ast.Attribute) and n.attr == attr and \
                    isinstance(n.ctx, ast.Store):
                if getattr(n, '_func', None) is fi:
                    out.setdefault(fi.qual, []).append(n)
    return out


def guard_increment_rule(ctx, eng):
    f5 = eng.m.func('utilities.guard_increment_window')
    paths = eng.I.run(f5)
    raised = [cm.aff_key([e for e in p.events if e.kind == 'assume'][-1].cond)
              for p in paths if cm.explicit_raise(p) is not None and
              p.exc['names'] == {'FlowControlError'}]
    rets = [T.show(p.value) for p in paths if p.exit == 'return']
    ok = raised == [cm.mk_aff_key('>', {'current': 1, 'increment': 1},
                                  -LIMIT)] and \
        rets == ['current + increment']
    ctx.ob('ARITH.window-guard', f5.qual, 'overflow guard', ok,
           'FlowControlError iff current + increment > 2**31-1, else the '
           'sum is returned (found raise %s, return %s)' % (raised, rets),
           node=f5.node)


def emit_cannot_fail(path, ev):
    """_prepare_for_sending(frames) with frames of fixed, small body size
    only (the post-append assertion cannot fire)."""
    a = ev.args[0] if ev.args else None
    el = cm.list_elems(path, a)
    if el is None:
        return False
    for x in el:
        if x[0] != 'obj' or extlib.fixed_body_size(x[2]) is None:
            return False
    return True


def stream_inliner(eng, extra=()):
    """Interpreter that sees through H2Stream methods, the window manager and
    small helpers (depth 2)."""
    names = set(extra)
    for q, fi in eng.m.funcs.items():
        if fi.cls in ('stream.H2Stream', 'windows.WindowManager') and \
                fi.name not in ('__init__', '__repr__'):
            names.add(q)
    names |= {'connection._add_frame_priority',
              'connection._set_frame_priority',
              'connection._validate_priority'}
    names -= {'stream.H2Stream._build_headers_frames',
              'stream.H2Stream.push_stream_in_band',
              'stream.H2Stream._process_received_headers',
              'stream.H2Stream.send_headers',
              'stream.H2Stream.receive_headers'}
    return eng.interp(frozenset(names), depth=2)


def last_assume_key(path):
    a = [e for e in path.events if e.kind == 'assume']
    return cm.aff_key(a[-1].cond) if a else None
