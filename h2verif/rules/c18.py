"""C18 - every connection error emits exactly one GOAWAY with the mandated
code.

Decides: in receive_data every handler that lets a ProtocolError out calls
_terminate_connection exactly once, before the raise, with that exception's
error_code (PROTOCOL_ERROR for the padding translation); all frame
processing is inside that try; _terminate_connection builds exactly one
GOAWAY with last_stream_id = highest_inbound_stream_id and the given code on
every path, whatever the connection state; each function that detects a
violation raises an exception class whose error_code is its RFC category.
"""
import ast

from .. import terms as T
from ..srcmodel import EnumVal, walk_own
from . import common as cm

H = 'connection.H2Connection.'

# detecting function -> (exception class it must raise, RFC category code)
CATEGORIES = [
    ('frame_buffer.FrameBuffer._validate_frame_length',
     'FrameTooLargeError', 'FRAME_SIZE_ERROR'),
    ('windows.WindowManager.window_consumed', 'FlowControlError',
     'FLOW_CONTROL_ERROR'),
    ('windows.WindowManager.window_opened', 'FlowControlError',
     'FLOW_CONTROL_ERROR'),
    ('utilities.guard_increment_window', 'FlowControlError',
     'FLOW_CONTROL_ERROR'),
    ('connection.H2Connection._get_stream_by_id', 'StreamClosedError',
     'STREAM_CLOSED'),
    ('stream.H2StreamStateMachine.recv_on_closed_stream',
     'StreamClosedError', 'STREAM_CLOSED'),
    ('stream.H2StreamStateMachine.send_on_closed_stream',
     'StreamClosedError', 'STREAM_CLOSED'),
    ('stream.H2StreamStateMachine.reset_stream_on_error',
     'StreamClosedError', 'STREAM_CLOSED'),
    ('stream.H2Stream._track_content_length', 'InvalidBodyLengthError',
     'PROTOCOL_ERROR'),
    ('connection.H2Connection._begin_new_stream', 'StreamIDTooLowError',
     'PROTOCOL_ERROR'),
    ('connection.H2Connection._receive_headers_frame', 'TooManyStreamsError',
     'PROTOCOL_ERROR'),
    ('frame_buffer.FrameBuffer.add_data', 'ProtocolError', 'PROTOCOL_ERROR'),
    ('frame_buffer.FrameBuffer._update_header_buffer', 'ProtocolError',
     'PROTOCOL_ERROR'),
]
# Which h2 exception classes each function of the receive path raises itself
# (the class carries the error code of the GOAWAY / RST_STREAM that answers
# it).  Confirmed by reading the pinned tree; a function that is not there
# (renamed beyond recognition, merged) is skipped, helpers the pinned tree
# does not know have been inlined into these before this is read.
RAISES = {
    'connection.H2Connection._begin_new_stream':
        {'StreamIDTooLowError', 'ProtocolError'},
    'connection.H2Connection._get_stream_by_id':
        {'NoSuchStreamError', 'StreamClosedError'},
    'connection.H2Connection._receive_frame': {'StreamClosedError'},
    'connection.H2Connection._receive_headers_frame': {'TooManyStreamsError'},
    'connection.H2Connection._receive_priority_frame': {'ProtocolError'},
    'connection.H2Connection._receive_push_promise_frame': {'ProtocolError'},
    'connection.H2ConnectionStateMachine.process_input': {'ProtocolError'},
    'connection._decode_headers': {'DenialOfServiceError', 'ProtocolError'},
    'frame_buffer.FrameBuffer.__next__':
        {'ProtocolError', 'FrameDataMissingError'},
    'frame_buffer.FrameBuffer._update_header_buffer': {'ProtocolError'},
    'frame_buffer.FrameBuffer._validate_frame_length': {'FrameTooLargeError'},
    'frame_buffer.FrameBuffer.add_data': {'ProtocolError'},
    'stream.H2Stream._initialize_content_length': {'ProtocolError'},
    'stream.H2Stream._track_content_length': {'InvalidBodyLengthError'},
    'stream.H2Stream.receive_headers': {'ProtocolError'},
    'stream.H2StreamStateMachine.data_received': {'ProtocolError'},
    'stream.H2StreamStateMachine.process_input': {'ProtocolError'},
    'stream.H2StreamStateMachine.recv_informational_response':
        {'ProtocolError'},
    'stream.H2StreamStateMachine.recv_on_closed_stream':
        {'StreamClosedError'},
    'stream.H2StreamStateMachine.recv_push_on_closed_stream':
        {'StreamClosedError', 'ProtocolError'},
    'stream.H2StreamStateMachine.recv_push_promise': {'ProtocolError'},
    'stream._decode_headers': {'ProtocolError'},
    'utilities._assert_header_in_set': {'ProtocolError'},
    'utilities._check_path_header': {'ProtocolError'},
    'utilities._check_pseudo_header_field_acceptability': {'ProtocolError'},
    'utilities._reject_connection_header': {'ProtocolError'},
    'utilities._reject_empty_header_names': {'ProtocolError'},
    'utilities._reject_pseudo_header_fields': {'ProtocolError'},
    'utilities._reject_surrounding_whitespace': {'ProtocolError'},
    'utilities._reject_te': {'ProtocolError'},
    'utilities._reject_uppercase_header_fields': {'ProtocolError'},
    'utilities._validate_host_authority_header': {'ProtocolError'},
    'utilities.guard_increment_window': {'FlowControlError'},
    'windows.WindowManager.window_consumed': {'FlowControlError'},
    'windows.WindowManager.window_opened': {'FlowControlError'},
}


def check_raise_classes(ctx, eng, only=None):
    """Every detecting function raises the class (= the error code) it is
    documented to: the set of h2 exception classes named in its own raise
    statements is the one of the table."""
    m = eng.m
    n = 0
    for q, exp in sorted(RAISES.items()):
        if only is not None and not only(q):
            continue
        fi = m.funcs.get(q)
        if fi is None:
            continue
        got = set()
        for nd in ast.walk(fi.node):
            if isinstance(nd, ast.Raise) and nd.exc is not None:
                e = nd.exc
                nm = None
                if isinstance(e, ast.Call) and isinstance(e.func, ast.Name):
                    nm = e.func.id
                elif isinstance(e, ast.Name):
                    nm = e.id
                if nm and (m.class_by_name(nm) is not None and
                           m.exc_is_subclass(nm, 'H2Error')):
                    got.add(nm)
        n += 1
        # a function that no longer refuses anything is the business of the
        # clauses about that refusal; here only the class of what is raised
        ctx.ob('TAB.raise-class', q, 'classes of its own refusals',
               got <= exp, 'raises %s, documented %s' % (
                   sorted(got), sorted(exp)), node=fi.node)
    ctx.record('raise_class_functions', n)
    if only is None:
        ctx.floor('raise_class_functions', 25)


ONLY_CALLER_OF = {
    'stream.H2Stream._track_content_length': ['stream.H2Stream.receive_data'],
}
# translations: (function, caught class, raised class, category)
TRANSLATIONS = [
    ('frame_buffer.FrameBuffer.__next__', 'InvalidFrameError',
     'FrameDataMissingError', 'FRAME_SIZE_ERROR'),
    ('frame_buffer.FrameBuffer.__next__', 'InvalidDataError',
     'ProtocolError', 'PROTOCOL_ERROR'),
    # a frame header hyperframe refuses (a stream id the frame type does not
    # allow) is not a size error
    ('frame_buffer.FrameBuffer.__next__', 'InvalidFrameError',
     'ProtocolError', 'PROTOCOL_ERROR', 'parse_frame_header'),
    ('frame_buffer.FrameBuffer.__next__', 'InvalidDataError',
     'ProtocolError', 'PROTOCOL_ERROR', 'parse_frame_header'),
    ('connection._decode_headers', 'OversizedHeaderListError',
     'DenialOfServiceError', 'ENHANCE_YOUR_CALM'),
    ('connection._decode_headers', 'HPACKError', None,
     'COMPRESSION_ERROR'),
]


def class_code(m, cname):
    """Statically resolved error_code of an h2 exception class: class
    attribute through the MRO, or the constant assigned in __init__."""
    c = m.class_by_name(cname)
    if c is None:
        return None
    init = c.methods.get('__init__')
    if init is not None:
        for nd in ast.walk(init.node):
            if isinstance(nd, ast.Assign) and any(
                    isinstance(t, ast.Attribute) and t.attr == 'error_code'
                    for t in nd.targets):
                v = m.try_fold(nd.value, c.module)
                if isinstance(v, EnumVal):
                    return v.name
                return None         # taken from an argument
    expr, owner = m.exc_class_attr(cname, 'error_code')
    if expr is None:
        return None
    v = m.try_fold(expr, owner.module)
    return v.name if isinstance(v, EnumVal) else None


def run(ctx, eng):
    ctx.rule('ORD/FLOW: handlers of receive_data and _terminate_connection '
             'by path analysis; TAB: error category of every detecting '
             'function vs the error_code of the class it raises (resolved '
             'statically)')
    m = eng.m
    fi = m.func(H + 'receive_data')
    paths = eng.I.run(fi)
    # ---- (a) handlers
    bad = []
    kinds = set()
    for p in paths:
        if p.exit != 'raise':
            continue
        names = p.exc['names']
        if not any(m.exc_is_subclass(x, 'ProtocolError') for x in names):
            continue
        catches = [e for e in p.events if e.kind == 'catch' and
                   e.frame == fi.qual]
        tc = cm.calls_to(p, '_terminate_connection')
        if not catches:
            # raised outside the try: only the preface check may do that
            via = p.exc.get('via_call')
            if via is not None and cm.is_call_to(via, 'add_data'):
                kinds.add('preface')
                continue
            bad.append('a ProtocolError leaves receive_data without passing '
                       'a handler (%s)' % sorted(names))
            continue
        if len(tc) != 1:
            bad.append('%d calls of _terminate_connection on a raising path'
                       % len(tc))
            continue
        if p.exc.get('via_call') is tc[0]:
            # _terminate_connection itself raising: SEND_GOAWAY is valid in
            # every connection state (rule C19 FSM.goaway)
            continue
        code = tc[0].args[0]
        if 'InvalidPaddingError' in catches[-1].names:
            kinds.add('padding')
            if cm.enum_name(code) != 'PROTOCOL_ERROR' or \
                    names != {'ProtocolError'}:
                bad.append('padding errors must become ProtocolError with '
                           'GOAWAY(PROTOCOL_ERROR)')
        else:
            kinds.add('protocol')
            if not (code[0] == 'a' and code[2] == 'error_code' and
                    code[1][0] in ('exc', 'obj')):
                bad.append('GOAWAY code is %s, not the exception\'s '
                           'error_code' % cm.show0(code))
            if not p.exc.get('reraise'):
                bad.append('the handler does not re-raise the exception it '
                           'caught')
        # the GOAWAY comes before the raise
        if p.index(tc[0]) > len(p.events):
            bad.append('raise precedes the GOAWAY')
    ctx.ob('ORD.terminate', fi.qual, 'one GOAWAY per connection error',
           {'padding', 'protocol'} <= kinds and not bad,
           '; '.join(sorted(set(bad))) or 'every ProtocolError leaving '
           'receive_data was preceded by exactly one '
           '_terminate_connection(e.error_code)', node=fi.node)
    # everything but add_data is inside the try
    tries = [n for n in fi.node.body if isinstance(n, ast.Try)]
    outside = []
    for st in fi.node.body:
        if isinstance(st, ast.Try):
            continue
        for nd in ast.walk(st):
            if isinstance(nd, ast.Call):
                for tg in eng.r.targets(nd):
                    if tg.kind == 'h2' and tg.fi is not None and \
                            tg.fi.name not in ('add_data', 'trace', 'debug'):
                        if eng.R.of(tg.fi.qual):
                            outside.append(tg.fi.name)
    loops = [n for t in tries for n in ast.walk(t)
             if isinstance(n, ast.For)]
    ctx.ob('ORD.terminate', fi.qual, 'frame processing inside the try',
           len(tries) == 1 and not outside and len(loops) >= 1,
           'only the preface check (add_data) may raise outside the try '
           '(found outside: %s)' % sorted(set(outside)), node=fi.node)
    # ---- (b) _terminate_connection
    f2 = m.func(H + '_terminate_connection')
    bad = []
    n = 0
    for p in eng.I.run(f2):
        if p.exit == 'raise':
            continue
        n += 1
        frames = [e for e in p.events if e.kind == 'new' and
                  e.cls == 'GoAwayFrame']
        emits = cm.calls_to(p, '_prepare_for_sending')
        steps = [s for s, _, _ in cm.process_inputs(p)]
        if len(frames) != 1 or len(emits) != 1:
            bad.append('a path emits %d GOAWAY frames' % min(len(frames),
                                                             len(emits)))
            continue
        f = p.state.objs.get(frames[0].obj, {})
        if f.get('stream_id') != T.C(0):
            bad.append('GOAWAY not on stream 0')
        if cm.attr_chain(f.get('last_stream_id')) != \
                'self.highest_inbound_stream_id':
            bad.append('last_stream_id is not highest_inbound_stream_id')
        if f.get('error_code') != ('p', 'error_code'):
            bad.append('error_code is not the argument')
        if f.get('additional_data') not in (None, T.C(b'')):
            bad.append('additional data on an internal GOAWAY')
        if steps != ['SEND_GOAWAY']:
            bad.append('connection input %s' % steps)
        el = cm.list_elems(p, emits[0].args[0])
        if el != (frames[0].obj,):
            bad.append('emitted list is not exactly the GOAWAY')
        if any(e.kind == 'assume' for e in p.events):
            bad.append('the GOAWAY is conditional')
    ctx.ob('FLOW.goaway', f2.qual, 'exactly one GOAWAY on every path',
           n > 0 and not bad, '; '.join(sorted(set(bad))) or
           'GoAwayFrame(0){last_stream_id=highest_inbound_stream_id, '
           'error_code=argument}, SEND_GOAWAY, one emit, unconditionally',
           node=f2.node)
    # ---- (c) categories
    codes = {}
    for c in m.classes.values():
        if c.module == 'exceptions':
            codes[c.name] = class_code(m, c.name)
    exp_codes = {
        'ProtocolError': 'PROTOCOL_ERROR',
        'FrameTooLargeError': 'FRAME_SIZE_ERROR',
        'FrameDataMissingError': 'FRAME_SIZE_ERROR',
        'TooManyStreamsError': 'PROTOCOL_ERROR',
        'FlowControlError': 'FLOW_CONTROL_ERROR',
        'StreamIDTooLowError': 'PROTOCOL_ERROR',
        'NoAvailableStreamIDError': 'PROTOCOL_ERROR',
        'NoSuchStreamError': 'PROTOCOL_ERROR',
        'StreamClosedError': 'STREAM_CLOSED',
        'InvalidBodyLengthError': 'PROTOCOL_ERROR',
        'UnsupportedFrameError': 'PROTOCOL_ERROR',
        'DenialOfServiceError': 'ENHANCE_YOUR_CALM',
    }
    for cname, exp in sorted(exp_codes.items()):
        ctx.ob('TAB.code', 'exceptions.' + cname, 'error_code', codes.get(
            cname) == exp, 'expected %s, found %s' % (exp, codes.get(cname)),
            node=m.class_by_name(cname).node if m.class_by_name(cname)
            else None)
    ec = m.enum_members(m.cls('errors.ErrorCodes').qual)
    rfc = {'NO_ERROR': 0, 'PROTOCOL_ERROR': 1, 'INTERNAL_ERROR': 2,
           'FLOW_CONTROL_ERROR': 3, 'SETTINGS_TIMEOUT': 4, 'STREAM_CLOSED': 5,
           'FRAME_SIZE_ERROR': 6, 'REFUSED_STREAM': 7, 'CANCEL': 8,
           'COMPRESSION_ERROR': 9, 'CONNECT_ERROR': 10,
           'ENHANCE_YOUR_CALM': 11, 'INADEQUATE_SECURITY': 12,
           'HTTP_1_1_REQUIRED': 13}
    ctx.ob('TAB.code', 'errors.ErrorCodes', 'RFC 7540 section 7 values',
           dict(ec) == rfc, 'found %s' % dict(ec))
    check_raise_classes(ctx, eng)
    for q, cname, cat in CATEGORIES:
        f3 = m.func(q)
        raised = set()
        for p in eng.I.run(f3):
            r = cm.explicit_raise(p)
            if r is not None and r.frame == f3.qual:
                raised |= set(p.exc['names'])
        # (the refusal may be made by the one caller of the helper: read
        # through the call)
        for cq in ONLY_CALLER_OF.get(q, ()):
            fc = m.funcs.get(cq)
            if fc is not None and cname not in raised:
                for p in eng.I.run(fc):
                    r = cm.explicit_raise(p)
                    if r is not None and r.frame == fc.qual and \
                            cname in p.exc['names']:
                        raised |= set(p.exc['names'])
        ok = cname in raised and codes.get(cname) == cat
        wrong = [x for x in raised if m.exc_is_subclass(x, 'ProtocolError')
                 and codes.get(x) != cat and x != cname and
                 q not in ('connection.H2Connection._begin_new_stream',
                           'connection.H2Connection._get_stream_by_id',
                           'connection.H2Connection._receive_headers_frame')]
        ctx.ob('TAB.category', f3.qual, '%s => %s' % (cname, cat),
               ok and not wrong,
               'raises %s whose error_code is %s (other classes raised: %s)'
               % (cname, codes.get(cname), sorted(raised - {cname})),
               node=f3.node)
    for tr_ in TRANSLATIONS:
        q, caught, cname, cat = tr_[:4]
        f3 = m.func(q)
        found = None
        guarded = tr_[4] if len(tr_) > 4 else (
            'parse_body' if 'frame_buffer' in q else 'decode')
        handlers = []
        for tr in walk_own(f3.node):
            if isinstance(tr, ast.Try) and any(
                    isinstance(c, ast.Call) and
                    isinstance(c.func, ast.Attribute) and
                    c.func.attr == guarded
                    for b in tr.body for c in ast.walk(b)):
                handlers.extend(tr.handlers)
        for nd in handlers:
            if nd.type is not None:
                tn = nd.type.elts if isinstance(nd.type, ast.Tuple) \
                    else [nd.type]
                names = [t.id if isinstance(t, ast.Name) else
                         getattr(t, 'attr', '?') for t in tn]
                if caught in names:
                    for r in ast.walk(nd):
                        if isinstance(r, ast.Raise) and r.exc is not None:
                            e = r.exc.func if isinstance(r.exc, ast.Call) \
                                else r.exc
                            found = e.id if isinstance(e, ast.Name) \
                                else getattr(e, 'attr', None)
        got = codes.get(found) if found else None
        ctx.ob('TAB.category', f3.qual, '%s => %s%s' % (
            caught, cat, (' (%s)' % guarded) if len(tr_) > 4 else ''),
               got == cat,
               '%s is translated to %s (error_code %s); RFC 7540 requires '
               '%s' % (caught, found, got, cat), node=f3.node)
    # ---- frames after END_STREAM: STREAM_CLOSED, from the extracted machine
    fsm = eng.fsm
    from ..spec.rfc7540_stream import feedable
    order, _ = fsm.reachable(feedable)
    ended = [s for s in order if s.st == 'CLOSED' and
             s.cb in ('SEND_END_STREAM', 'RECV_END_STREAM')]
    ctx.record('ended_states', len(ended))
    ctx.floor('ended_states', 2)
    for inp in ('RECV_HEADERS', 'RECV_INFORMATIONAL_HEADERS', 'RECV_DATA'):
        bad = []
        for s in ended:
            r = fsm.step_impl(s, inp)
            if r[0] != 'closed':
                bad.append('%s (%s)' % (r[0], r[3]))
        cell = fsm.stream.cells.get(('CLOSED', inp))
        ctx.ob('FSM.after-end', 'stream', 'CLOSED|%s' % inp, not bad,
               'on a stream that ended normally %s must raise '
               'StreamClosedError (GOAWAY STREAM_CLOSED), found %s' % (
                   inp, sorted(set(bad)) or 'StreamClosedError'),
               node=cell[2] if cell else fsm.stream.node)
    ctx.assume('hyperframe\'s own classification of malformed frames is '
               'trusted')
    cm.include(ctx, eng, 'C11',
               lambda o: o.rule == 'COH.apply-map' and
               o.desc.startswith('local '),
               'ENHANCE_YOUR_CALM, FRAME_SIZE_ERROR and FLOW_CONTROL_ERROR '
               'are judged against the limits the peer has acknowledged: '
               'each acknowledged setting reaches the place that enforces it')
    cm.include(ctx, eng, 'C19', {('ORD.gate', '_receive_headers_frame'),
                                 ('ORD.gate',
                                  '_receive_push_promise_frame')},
               'last-stream-id counts only streams the peer really opened: '
               'the connection machine refuses the frame before any stream '
               'is created for it')
    cm.include(ctx, eng, 'C06',
               lambda o: o.rule == 'FSM.layer3' and
               o.where.endswith('_receive_frame'),
               'frames for a forgotten stream: RST_STREAM after a reset, '
               'STREAM_CLOSED after END_STREAM, PROTOCOL_ERROR otherwise - '
               'decided for the stream the frame arrived on')
    cm.include(ctx, eng, 'C17', {'ORD.parse-body'},
               'a frame of the wrong size is detected by parse_body, whose '
               'refusal is translated into FRAME_SIZE_ERROR: no frame leaves '
               'the buffer unparsed')
    cm.include(ctx, eng, 'C21', {'COH.frame-size'},
               'FRAME_SIZE_ERROR is decided against the limit in force when '
               'the frame arrives: the acknowledged value, at once')
    cm.include(ctx, eng, 'C04', {'FLOW.charge'},
               'FLOW_CONTROL_ERROR for a window overrun counts what the RFC '
               'counts: the whole flow-controlled length, padding included, '
               'on both windows')
    cm.include(ctx, eng, 'C09', {'ARITH.lookup'},
               'a frame on an idle stream is PROTOCOL_ERROR, on a forgotten '
               'one STREAM_CLOSED: told apart by the id\'s own direction')
