"""C24 - alternative-service advertisements follow RFC 7838.

Decides: the argument checks and their order in
advertise_alternative_service, the alt-svc cells of both machines against the
references (only servers send, stream variant only after the request and
before response headers; receive side ignores on servers / after response
headers), the frame fields on the send side, the event fields on the receive
side, and that the request authority is captured once from the client's own
request (or from the promised request).
"""
from .. import terms as T
from . import common as cm
from .c06 import compare_cells, feedable_from_source
from .roles import compare_conn

H = 'connection.H2Connection.'


def run(ctx, eng):
    ctx.rule('ORD/ARITH argument checks; FSM alt-svc cells of stream and '
             'connection machines vs references; FLOW frame/event fields; '
             'OWN _authority written once')
    feedable = feedable_from_source(eng, ctx)
    compare_cells(eng, ctx, feedable,
                  inputs={'SEND_ALTERNATIVE_SERVICE',
                          'RECV_ALTERNATIVE_SERVICE'})
    compare_conn(eng, ctx, 'FSM.conn',
                 inputs={'SEND_ALTERNATIVE_SERVICE',
                         'RECV_ALTERNATIVE_SERVICE'})
    ctx.exhaustive = True
    # ---- advertise_alternative_service
    fi = eng.m.func(H + 'advertise_alternative_service')
    paths = eng.I.run(fi)
    checks = {'bytes': False, 'both': False, 'neither': False}
    for p in paths:
        r = cm.explicit_raise(p)
        if r is None or p.exc['names'] != {'ValueError'}:
            continue
        if cm.process_inputs(p):
            continue        # must precede the state step
        conds = [cm.show0(e.cond) for e in p.events if e.kind == 'assume']
        if conds and conds[-1] == 'not isinstance(field_value, bytes)':
            checks['bytes'] = True
        s = set(conds)
        if {'not (origin is None)', 'not (stream_id is None)'} <= s:
            checks['both'] = True
        if {'(origin is None)', '(stream_id is None)'} <= s:
            checks['neither'] = True
    for k, v in sorted(checks.items()):
        ctx.ob('ORD.args', fi.qual, 'argument check: %s' % k, v,
               {'bytes': 'field_value must be bytes (ValueError)',
                'both': 'origin and stream_id together are refused',
                'neither': 'one of origin / stream_id is required'}[k] +
               ', before the connection machine is stepped', node=fi.node)
    bad = []
    seen = set()
    for p in cm.normal_paths(paths):
        steps = [n for n, _, _ in cm.process_inputs(p)]
        if steps != ['SEND_ALTERNATIVE_SERVICE']:
            bad.append('connection input %s' % steps)
        origin_given = cm.fact_polarity(p, ('is', ('p', 'origin'), T.NONE))
        frames = [e for e in p.events if e.kind == 'new' and
                  e.cls == 'AltSvcFrame']
        if origin_given is False:
            seen.add('origin')
            if len(frames) != 1:
                bad.append('origin variant must build one AltSvcFrame')
            else:
                f = p.state.objs.get(frames[0].obj, {})
                if f.get('stream_id') != T.C(0) or \
                        f.get('origin') != ('p', 'origin') or \
                        f.get('field') != ('p', 'field_value'):
                    bad.append('origin variant: AltSvcFrame(0){origin, '
                               'field} expected')
            if cm.calls_to(p, '_get_stream_by_id'):
                bad.append('origin variant touches a stream')
        else:
            seen.add('stream')
            lk = cm.calls_to(p, '_get_stream_by_id')
            ad = [e for e in p.events if e.kind == 'call' and
                  'stream.H2Stream.advertise_alternative_service'
                  in e.names]
            if not lk or cm.attr_chain(lk[0].args[0]) != 'stream_id':
                bad.append('stream variant does not look up stream_id')
            if not ad or ad[0].args[0] != ('p', 'field_value'):
                bad.append('stream variant does not pass field_value to the '
                           'stream')
        if len(cm.calls_to(p, '_prepare_for_sending')) != 1:
            bad.append('exactly one emit expected')
    ctx.ob('FLOW.send', fi.qual, 'frame per variant',
           seen == {'origin', 'stream'} and not bad,
           '; '.join(sorted(set(bad))) or 'AltSvcFrame(0){origin, field} or '
           'the stream\'s own frame', node=fi.node)
    fi = eng.m.func('stream.H2Stream.advertise_alternative_service')
    ok = cm.Every()
    for p in cm.normal_paths(eng.I.run(fi)):
        frames = [e for e in p.events if e.kind == 'new' and
                  e.cls == 'AltSvcFrame']
        if len(frames) == 1:
            f = p.state.objs.get(frames[0].obj, {})
            ok(cm.is_self_attr(f.get('stream_id'), 'stream_id') and
               f.get('field') == ('p', 'field_value') and
               'origin' not in f)
    ctx.ob('FLOW.send', fi.qual, 'stream frame fields', ok,
           'AltSvcFrame(self.stream_id){field} without origin', node=fi.node)
    # ---- receive, stream 0
    fi = eng.m.func(H + '_receive_alt_svc_frame')
    paths = eng.I.run(fi)
    bad = []
    n_ev = 0
    for p in cm.normal_paths(paths):
        evs = [e for e in p.events if e.kind == 'new' and
               e.cls == 'AlternativeServiceAvailable' and e.frame == fi.qual]
        sid = cm.fact_polarity(p, ('a', ('p', 'frame'), 'stream_id', 0))
        if evs:
            n_ev += 1
            if sid is not False:
                bad.append('connection-level event for a stream frame')
            conds = {cm.show0(e.cond) for e in p.events if e.kind == "assume"}
            if 'frame.origin' not in conds:
                bad.append('event without a non-empty origin')
            if 'self.config.client_side' not in conds:
                bad.append('event reported on a server')
            f = p.state.objs.get(evs[0].obj, {})
            if cm.attr_chain(f.get('origin')) != 'frame.origin' or \
                    cm.attr_chain(f.get('field_value')) != 'frame.field':
                bad.append('event fields are not frame.origin/frame.field')
        if sid:
            if not cm.calls_to(p, '_get_stream_by_id'):
                bad.append('stream frame without stream lookup')
    ctx.ob('FLOW.recv', fi.qual, 'stream-0 advertisement', n_ev > 0 and
           not bad, '; '.join(sorted(set(bad))) or 'event only for a client, '
           'with the origin and field of the frame', node=fi.node)
    # ---- receive, stream variant
    fi = eng.m.func('stream.H2Stream.receive_alt_svc')
    bad = []
    n = 0
    for p in cm.normal_paths(eng.I.run(fi)):
        org = cm.fact_polarity(p, ('a', ('p', 'frame'), 'origin', 0))
        steps = [s for s, _, _ in cm.process_inputs(p)]
        if org:
            if steps:
                bad.append('a frame with an origin still steps the machine')
            continue
        ws = {e.attr: e for e in p.events if e.kind == 'write'}
        if 'origin' in ws:
            n += 1
            if not cm.is_self_attr(ws['origin'].value, '_authority'):
                bad.append('event origin is not the stream\'s authority')
            fv = ws.get('field_value')
            if fv is None or cm.attr_chain(fv.value) != 'frame.field':
                bad.append('event field_value is not frame.field')
    ctx.ob('FLOW.recv', fi.qual, 'stream advertisement', n > 0 and not bad,
           '; '.join(sorted(set(bad))) or 'ignored when the frame names an '
           'origin; otherwise origin = request authority', node=fi.node)
    # ---- _authority captured once
    fi = eng.m.func('stream.H2Stream.send_headers')
    bad = []
    n = 0
    for p in eng.I.run(fi):
        for i, e in enumerate(p.events):
            if e.kind == 'write' and e.attr == '_authority' and \
                    e.base == ('p', 'self'):
                n += 1
                conds = [cm.show0(x.cond) for x in p.events[:i]
                         if x.kind == 'assume']
                if '(self._authority is None)' not in conds:
                    bad.append('authority overwritten by later header '
                               'blocks (no `is None` guard)')
                if 'self.state_machine.client' not in conds:
                    bad.append('authority captured on a non-client stream')
                v = e.value
                if not (v[0] == 'call' and
                        v[1].endswith('authority_from_headers') and
                        v[2][-1] == ('p', 'headers')):
                    bad.append('authority not taken from the headers sent')
    ctx.ob('OWN.authority', fi.qual, 'request authority captured once',
           n > 0 and not bad, '; '.join(sorted(set(bad))) or
           'set from the first (request) block of a client stream only',
           node=fi.node)
    fi = eng.m.func('stream.H2Stream.remotely_pushed')
    np_ = cm.normal_paths(eng.I.run(fi))
    ok = bool(np_)
    for p in np_:
        ws = [e for e in p.events if e.kind == 'write' and
              e.attr == '_authority']
        # on every path: the origin of a pushed stream is that of the
        # promised request, whatever the parent asked for
        ok = ok and len(ws) == 1 and ws[0].value[0] == 'call' and \
            ws[0].value[1].endswith('authority_from_headers') and \
            ws[0].value[2][-1] == ('p', 'pushed_headers')
    ctx.ob('OWN.authority', fi.qual, 'authority of the promised request', ok,
           '_authority = authority_from_headers(pushed_headers)',
           node=fi.node)
    # other writers of _authority
    writers = set()
    import ast
    for f2 in eng.m.funcs.values():
        for nd in ast.walk(f2.node):
            if isinstance(nd, ast.Attribute) and nd.attr == '_authority' \
                    and isinstance(nd.ctx, ast.Store):
                writers.add(f2.qual)
    allowed = {'stream.H2Stream.__init__', 'stream.H2Stream.send_headers',
               'stream.H2Stream.remotely_pushed'}
    ctx.ob('OWN.authority', 'stream.H2Stream', 'writers of _authority',
           writers <= allowed and len(writers) >= 3,
           'written by %s' % sorted(writers))
    # authority_from_headers picks :authority
    fi = eng.m.func('utilities.authority_from_headers')
    ok = cm.Every()
    for p in eng.I.run(fi):
        if p.exit == 'return' and p.value != T.NONE:
            conds = [e.cond for e in p.events if e.kind == 'assume']
            ok(any(c[0] == 'in' and cm.tuple_items(c[2]) is not None and
                   {cm.const_of(x) for x in cm.tuple_items(c[2])} ==
                   {b':authority', ':authority'} for c in conds))
    # ... wherever it stands in the block: the scan is not cut short (the
    # blocks this is called on may not have been validated, and the value
    # is what a stream advertisement is attributed to)
    for nd in ast.walk(fi.node):
        if isinstance(nd, ast.For):
            for x in ast.walk(nd):
                if isinstance(x, ast.Break) or (
                        isinstance(x, ast.Return) and (
                            x.value is None or (
                                isinstance(x.value, ast.Constant) and
                                x.value.value is None))):
                    ok = False
    ctx.ob('FLOW.authority', fi.qual, 'selects the :authority field', ok,
           'returns the value of :authority (bytes or str spelling)',
           node=fi.node)
