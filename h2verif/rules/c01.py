"""C01 - two endpoints exchange every successful send faithfully.

Umbrella property; decided through the send/receive agreement clauses (each
a necessary condition): (a) the dispatch table covers every frame class the
parser can produce and every frame class the library builds has a handler;
(b) duality of the machines: for every accepting SEND cell the mirrored RECV
cell exists, accepts and targets the mirrored state (stream and connection
tables); (c) no raise may follow a stream allocation or an opening
state-machine step in a sending call (the stream would have advanced locally
with nothing emitted); (d) wire agreement per frame class: the field the send
path sets is the field the receive handler reads into the documented event
attribute; (e) send-path order of every public sending call.
"""
import ast

from .. import extlib, terms as T
from ..spec import rfc7540_stream as ref
from . import common as cm
from . import flow

H = 'connection.H2Connection.'
S = 'stream.H2Stream.'
MIRROR_STATE = {'IDLE': 'IDLE', 'RESERVED_LOCAL': 'RESERVED_REMOTE',
                'RESERVED_REMOTE': 'RESERVED_LOCAL', 'OPEN': 'OPEN',
                'HALF_CLOSED_LOCAL': 'HALF_CLOSED_REMOTE',
                'HALF_CLOSED_REMOTE': 'HALF_CLOSED_LOCAL',
                'CLOSED': 'CLOSED'}
SENDERS = ['send_headers', 'send_data', 'end_stream',
           'increment_flow_control_window', 'push_stream', 'ping',
           'reset_stream', 'close_connection', 'update_settings',
           'advertise_alternative_service', 'prioritize',
           'acknowledge_received_data', 'initiate_connection']


def run(ctx, eng):
    ctx.rule('TAB dispatch exhaustiveness; FSM duality of both tables; '
             'ATOM(STR) raise after allocation/opening step; FLOW wire '
             'agreement per frame class; ORD send-path order')
    m = eng.m
    fsm = eng.fsm
    # ---- (a)
    ok, why = eng.D._dispatch_complete()
    ctx.ob('TAB.dispatch', H + '__init__', 'every parsed frame class has a '
           'handler', ok, why)
    built = set()
    for q, fi in m.funcs.items():
        for nd in ast.walk(fi.node):
            if isinstance(nd, ast.Call) and isinstance(nd.func, ast.Name) \
                    and nd.func.id in extlib.frames():
                built.add(nd.func.id)
    init = m.func(H + '__init__')
    handled = set()
    for nd in ast.walk(init.node):
        if isinstance(nd, ast.Dict) and nd.keys and all(
                isinstance(k, ast.Name) for k in nd.keys) and all(
                isinstance(v, ast.Attribute) for v in nd.values):
            handled |= {k.id for k in nd.keys}
            for v in nd.values:
                meth = m.lookup_method('connection.H2Connection', v.attr)
                ctx.ob('TAB.dispatch', H + v.attr, 'handler exists',
                       meth is not None, 'dispatch target is a method')
    ctx.ob('TAB.dispatch', H + '__init__', 'every frame class built has a '
           'handler', built <= handled, 'built %s; unhandled %s' % (
               sorted(built), sorted(built - handled)))
    ctx.record('frame_classes_built', len(built))
    ctx.floor('frame_classes_built', 10)
    # ---- (b) duality, stream table
    refusers = {f for f, cmd in fsm.cmds.items()
                if all(o[0] == 'raise' for _, _, o, _ in cmd.alts)}
    n = 0
    for (st, inp), (fn, nxt, node) in sorted(fsm.stream.cells.items()):
        if not inp.startswith('SEND_') or fn in refusers:
            continue
        n += 1
        mi = 'RECV_' + inp[5:]
        ms = MIRROR_STATE[st]
        cell = fsm.stream.cells.get((ms, mi))
        okc = cell is not None and cell[0] not in refusers and \
            cell[1] == MIRROR_STATE[nxt]
        ctx.ob('FSM.duality', 'stream', '%s|%s' % (st, inp), okc,
               'what (%s, %s) -> %s lets this endpoint send, the peer in '
               '%s must accept as %s -> %s (found %s)' % (
                   st, inp, nxt, ms, mi, MIRROR_STATE[nxt],
                   '%s -> %s' % (cell[0], cell[1]) if cell else 'no cell'),
               node=node)
    ctx.record('send_cells', n)
    ctx.floor('send_cells', 25)
    for (st, inp), (fn, nxt, node) in sorted(fsm.conn.cells.items()):
        if st not in ('CLIENT_OPEN', 'SERVER_OPEN') or \
                not inp.startswith('SEND_'):
            continue
        other = 'SERVER_OPEN' if st == 'CLIENT_OPEN' else 'CLIENT_OPEN'
        mi = 'RECV_' + inp[5:]
        cell = fsm.conn.cells.get((other, mi))
        if inp == 'SEND_GOAWAY':
            okc = cell is not None and cell[1] == 'CLOSED'
        else:
            okc = cell is not None and cell[1] == other
        ctx.ob('FSM.duality', 'connection', '%s|%s' % (st, inp), okc,
               'the peer (%s) must accept %s' % (other, mi), node=node)
    # ---- (c) ATOM(STR)
    order, _ = fsm.reachable(ref.feedable)

    from ..discharge import PRESTATE_EXEMPT

    def opening(inp, fname):
        """can a successful step with this input open a stream / change an
        unopened one?"""
        for s in order:
            if (fname, inp, s.st) in PRESTATE_EXEMPT:
                continue
            r = fsm.step_impl(s, inp)
            if r[0] == 'ok' and not fsm.stream_open.get(s.st) and \
                    s.st != 'CLOSED' and r[2].st != s.st:
                return True
        return False
    for q in (S + 'send_headers', S + 'push_stream_in_band',
              H + 'send_headers', H + 'push_stream'):
        fi = m.func(q)
        sites = {}
        for p in cm.raise_paths(eng.I.run(fi)):
            via = p.exc.get('via_call')
            marks = []
            for i, e in enumerate(p.events):
                if e is via:
                    continue
                if cm.is_call_to(e, 'process_input') and e.args and \
                        e.get('recv') is not None and \
                        'state_machine' in cm.show0(e.recv) and \
                        q.startswith('stream.'):
                    nm = cm.enum_name(e.args[0])
                    if nm and opening(nm, fi.name):
                        marks.append('step %s' % nm)
                if cm.is_call_to(e, '_begin_new_stream',
                                 '_get_or_create_stream'):
                    marks.append('allocation')
                if e.kind == 'call' and any(
                        str(n) in (S + 'send_headers',
                                   S + 'push_stream_in_band')
                        for n in e.names):
                    marks.append('stream step')
            if not marks:
                continue
            if p.exc.get('assert') and id(p.exc['node']) in \
                    eng.D.assert_reasons:
                continue
            if via is None:
                conds = [cm.show0(e.cond) for e in p.events
                         if e.kind == 'assume']
                # trailers without END_STREAM: the step that set
                # trailers_sent was taken on an already open stream
                if any('trailers_sent' in c for c in conds[-2:]):
                    continue
                what = 'explicit raise under %s' % (conds[-1] if conds
                                                    else '-')
            else:
                what = '/'.join(sorted(cm.ev_callee_names(via)))
                if what == 'process_input' and via.args and \
                        cm.enum_name(via.args[0]) == 'SEND_END_STREAM':
                    steps = [nm for nm, _, _ in cm.process_inputs(p)]
                    okk = True
                    for s in order:
                        r = fsm.step_impl(s, 'SEND_HEADERS')
                        if r[0] == 'ok' and fsm.step_impl(
                                r[2], 'SEND_END_STREAM')[0] != 'ok':
                            okk = False
                    if okk and steps[:1] == ['SEND_HEADERS']:
                        continue
                if what == 'locally_pushed':
                    r0 = fsm.step_impl(ref.INITIAL, 'SEND_PUSH_PROMISE')
                    if r0[0] == 'ok' and r0[1] == ():
                        continue
            sites.setdefault(what, (p, marks[0]))
        for what, (p, mark) in sorted(sites.items()):
            ctx.ob('ATOM.STR', fi.qual, 'raise after %s|%s' % (
                'allocation' if mark == 'allocation' else 'opening step',
                what), False,
                '%s can raise %s (%s) after the stream was %s: nothing is '
                'emitted, yet the local stream has advanced, and a later '
                'successful send on it reaches a peer that never saw it '
                'open' % (fi.name, '/'.join(sorted(p.exc['names']))[:80],
                          what, 'allocated' if mark == 'allocation'
                          else 'stepped'), node=p.exc['node'])
        if not sites:
            ctx.ob('ATOM.STR', fi.qual, 'no raise after allocation or '
                   'opening step', True, 'ok', node=fi.node)
    # ---- (d) wire agreement
    I = flow.stream_inliner(eng)
    agreements = [
        # sender, frame class, frame field, argument; receiver, event attr
        # ... receiving stream method, event attribute, the frame handler
        # that calls it, and what the attribute is in the handler's terms
        (H + 'reset_stream', 'RstStreamFrame', 'error_code', 'error_code',
         S + 'stream_reset', 'error_code', H + '_receive_rst_stream_frame',
         'frame.error_code'),
        (H + 'increment_flow_control_window', 'WindowUpdateFrame',
         'window_increment', 'increment', S + 'receive_window_update',
         'delta', H + '_receive_window_update_frame',
         'frame.window_increment'),
        (H + 'push_stream', 'PushPromiseFrame', 'promised_stream_id',
         'promised_stream_id', S + 'receive_push_promise_in_band',
         'pushed_stream_id', H + '_receive_push_promise_frame',
         'frame.promised_stream_id'),
    ]
    for snd, cls, field, arg, rcv, attr, hnd, src in agreements:
        fs = m.func(snd)
        okf = False
        try:
            sp = I.run(fs) if 'push' not in snd else \
                eng.interp(frozenset({S + 'push_stream_in_band'}), depth=1,
                           fork_raises=False).run(fs)
        except Exception:
            sp = eng.I.run(fs)
        for p in cm.normal_paths(sp):
            for e in p.events:
                if e.kind == 'new' and e.cls == cls:
                    f = p.state.objs.get(e.obj, {})
                    if f.get(field) == ('p', arg):
                        okf = True
        # read through the call: the handler's paths with the stream method
        # taken in - whether the method is handed the frame or the field
        fr = m.func(rcv)
        fh = m.func(hnd)
        okr = cm.Every()
        for p in cm.normal_paths(eng.interp({fr.qual}, depth=1).run(fh)):
            for e in p.events:
                if e.kind == 'write' and e.attr == attr and \
                        e.frame in (fr.qual, fh.qual) and \
                        e.base[0] in ('obj', 'sub'):
                    s = cm.show0(e.value)
                    okr(s == src or s.endswith('(%s)' % src))
        ctx.ob('FLOW.wire', snd, '%s.%s <- %s' % (cls, field, arg), okf,
               'the argument reaches the frame field', node=fs.node)
        ctx.ob('FLOW.wire', rcv, 'event.%s <- %s' % (attr, src), okr,
               'the frame field reaches the documented event attribute',
               node=fr.node)
    # handlers pass the right frame fields to the stream methods
    passes = [
        ('_receive_data_frame', 'receive_data',
         ['frame.data', "('END_STREAM' in frame.flags)",
          'frame.flow_controlled_length']),
    ]
    for hn, meth, want in passes:
        fh = m.func(H + hn)
        okp = None
        for p in eng.I.run(fh):
            for e in p.events:
                if e.kind == 'call' and any(str(n) == S + meth
                                            for n in e.names):
                    okp = okp is not False and \
                        [cm.show0(a) for a in e.args] == want
        ctx.ob('FLOW.wire', fh.qual, '%s(%s)' % (meth, ', '.join(want)),
               bool(okp),
               'handler hands the frame\'s fields to the stream',
               node=fh.node)
    # DATA and GOAWAY events
    fr = m.func(S + 'receive_data')
    okd = False
    for p in cm.normal_paths(eng.I.run(fr)):
        w = {e.attr: cm.show0(e.value) for e in p.events
             if e.kind == 'write' and e.base[0] == 'sub'}
        okd = w.get('data') == 'data' and \
            w.get('flow_controlled_length') == 'flow_control_len'
        if not okd:
            break
    ctx.ob('FLOW.wire', fr.qual, 'DataReceived fields', okd,
           'data and flow_controlled_length of the frame', node=fr.node)
    fg = m.func(H + '_receive_goaway_frame')
    okg = None
    for p in cm.normal_paths(eng.I.run(fg)):
        evs = [e for e in p.events if e.kind == 'new' and
               e.cls == 'ConnectionTerminated']
        if len(evs) == 1:
            f = p.state.objs.get(evs[0].obj, {})
            okg = okg is not False and \
                cm.show0(f.get('last_stream_id', T.NONE)) == \
                'frame.last_stream_id' and 'frame.error_code' in cm.show0(
                    f.get('error_code', T.NONE))
    ctx.ob('FLOW.wire', fg.qual, 'ConnectionTerminated fields', bool(okg),
           'error_code, last_stream_id of the frame', node=fg.node)
    fc = m.func(H + 'close_connection')
    okc = False
    kinds = set()
    for p in cm.normal_paths(eng.I.run(fc)):
        fr_ = [e for e in p.events if e.kind == 'new' and
               e.cls == 'GoAwayFrame']
        if len(fr_) != 1:
            continue
        f = p.state.objs.get(fr_[0].obj, {})
        none = cm.fact_polarity(p, ('is', ('p', 'last_stream_id'), T.NONE))
        lsid = cm.show0(f.get('last_stream_id', T.NONE))
        if none:
            kinds.add('default')
            okc = lsid == 'self.highest_inbound_stream_id'
        else:
            kinds.add('given')
            okc = lsid == 'last_stream_id'
        okc = okc and f.get('error_code') == ('p', 'error_code') and \
            f.get('stream_id') == T.C(0) and \
            cm.show0(f.get('additional_data', T.NONE)) in (
                "(additional_data or b'')",)
        if not okc:
            break
    ctx.ob('FLOW.wire', fc.qual, 'GOAWAY fields', okc and kinds ==
           {'default', 'given'}, 'GoAwayFrame(0){error_code, last_stream_id '
           'or highest_inbound_stream_id, additional_data or b""}',
           node=fc.node)
    # ---- (e) send-path order
    for name in SENDERS:
        fi = m.func(H + name)
        paths = eng.I.run(fi)
        bad = []
        n = 0
        for p in cm.normal_paths(paths):
            n += 1
            emits = [e for e in p.events if
                     (cm.is_call_to(e, '_prepare_for_sending') or
                      (e.kind == 'write' and e.attr == '_data_to_send' and
                       e.get('aug') == '+')) and e.frame == fi.qual]
            if len(emits) != 1:
                bad.append('%d emits on a successful path' % len(emits))
                continue
            ie = p.index(emits[0])
            steps = [p.index(ev) for _, ev, _ in cm.process_inputs(p)
                     if cm.show0(ev.recv) == 'self.state_machine']
            if name != 'acknowledge_received_data' and (
                    not steps or min(steps) > ie):
                bad.append('the connection machine is not consulted before '
                           'the emit')
            scall = [i for i, e in enumerate(p.events) if e.kind == 'call'
                     and any(str(x).startswith('stream.H2Stream.')
                             for x in e.names) and not e.get('is_prop')]
            if scall and steps and min(scall) < min(steps):
                bad.append('a stream is stepped before the connection '
                           'machine')
            if scall and max(scall) > ie:
                bad.append('a stream method runs after the emit')
            later = [e for e in p.events[ie + 1:] if e.kind == 'call' and
                     e.get('raises')]
            if later:
                bad.append('something that can raise follows the emit')
        ctx.ob('ORD.send-path', fi.qual, 'connection machine, stream, build, '
               'one emit', n > 0 and not bad, '; '.join(sorted(set(bad))) or
               '%d successful paths' % n, node=fi.node)
    # ---- settings changes racing traffic: what one side may send after an
    # acknowledged change, the other side must accept at once
    from .c21 import check_coh_frame_size
    from .c03 import check_settings_delta
    from .c11 import check_apply, REMOTE_APPLY, LOCAL_APPLY
    check_coh_frame_size(ctx, eng)
    check_settings_delta(ctx, eng)
    check_apply(ctx, eng, H + '_acknowledge_settings', REMOTE_APPLY,
                'remote')
    check_apply(ctx, eng, H + '_local_settings_acked', LOCAL_APPLY, 'local')
    ctx.assume('HPACK round-trip fidelity, byte equality of bodies and '
               'programs of unbounded length are not decided; arbitrary '
               'chunking is decided under C21')
    # necessary conditions decided in detail by sibling checks
    cm.include(ctx, eng, 'C03', {'ARITH.amount', 'ARITH.guard',
                                 'ATOM.window'},
               'what one side sends within its view of the windows the '
               'other side accepts: both sides charge the same amount')
    cm.include(ctx, eng, 'C04', {'FLOW.charge', 'ARITH.consume',
                                 'FLOW.delta'},
               'the receiver charges exactly the flow-controlled length, and '
               'moves every stream window by exactly the acknowledged change '
               'of INITIAL_WINDOW_SIZE: what the peer may then send is what '
               'is accepted')
    cm.include(ctx, eng, 'C23', {'FLOW.priority-frame',
                                 'FLOW.priority-handler', 'PAIR.reassembly'},
               'priority fields arrive as sent')
    cm.include(ctx, eng, 'C26', {'FLOW.ping'}, 'pings are answered')
    cm.include(ctx, eng, 'C16', {'FLOW.track', 'ARITH.length',
                                 'ORD.init-length', 'OWN.method'},
               'a body sent with the matching content-length is accepted: '
               'the receiver counts payload octets only, and what it '
               'remembers as the request method of a stream (which decides '
               'whether a body is expected at all) is written by the request '
               'it sent on that stream and nothing else')
    cm.include(ctx, eng, 'C20', {'ORD.decode-first', 'FSM.layer3'},
               'every header block the peer encoded reaches the decoder, '
               'or the two compression contexts part; a frame the peer sent '
               'while it still saw the stream open is tolerated once the '
               'stream is gone here')
    cm.include(ctx, eng, 'C14',
               lambda o: o.rule in ('PIPE.order', 'PIPE.stages') and
               isinstance(o.where, str) and
               o.where.endswith('normalize_outbound_headers'),
               'what the sender does not refuse it normalises so that the '
               'receiver accepts it: lower-casing and trimming come before '
               'the stages that match names')
    cm.include(ctx, eng, 'C11', {'FLOW.queue'},
               'settings changes race traffic: what the peer may use is what '
               'each SETTINGS frame announced, one value per frame, in order')
    cm.include(ctx, eng, 'C07', {'TAB.event-fields'},
               'the receiver\'s events reproduce the send: every documented '
               'field of an event is there to be read, set or not')
    cm.include(ctx, eng, 'C08', {'TAB.inputs'},
               'a send is accepted where the connection state permits that '
               'frame type, on both ends: each call and each frame handler '
               'steps the connection machine with its own input')
    cm.include(ctx, eng, 'C05', {'ARITH.increment'},
               'the credit announced to the peer is the credit recorded '
               'here, or a send the peer was entitled to is refused')
