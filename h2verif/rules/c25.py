"""C25 - h2c upgrade hands over settings and stream 1 consistently.

Decides: the HTTP2-Settings value is filled by the same iteration over
local_settings.items() as the initial SETTINGS frame and encoded with
urlsafe_b64encode(serialize_body); the server side decodes with the matching
codec and feeds the frame through _receive_settings_frame (so that every
cached copy of the peer's settings is refreshed); the connection input by
role; stream 1 through _begin_new_stream(1, ODD) and the UPGRADE_* cells,
which lead to the half-closed states in which a request body can be neither
sent (client) nor received (server); next stream ids 3 and 2.
"""
from .. import terms as T
from ..spec.rfc7540_stream import INITIAL
from . import common as cm

H = 'connection.H2Connection.'


def settings_fill(path, frame_qual):
    """Is there, on this path, a SettingsFrame(0) filled by iterating
    self.local_settings.items() with f.settings[k] = v ?  -> frame objs"""
    out = []
    for e in path.events:
        if e.kind == 'new' and e.cls == 'SettingsFrame' and \
                e.frame == frame_qual:
            f = path.state.objs.get(e.obj, {})
            if f.get('stream_id') not in (T.C(0), None):
                continue
            filled = False
            for s in path.events:
                if not (s.kind == 'store' and s.in_loop and
                        cm.is_attr(s.container, e.obj, 'settings') and
                        s.key[0] == 'lv'):
                    continue
                it = s.key[2]
                # for k, v in self.local_settings.items(): f.settings[k] = v
                if s.value[0] == 'lv' and s.key[1] == s.value[1] and \
                        s.key[3:] == (0,) and s.value[3:] == (1,) and \
                        it[0] == 'call' and it[1].endswith('.items') and \
                        cm.attr_chain(it[2][0]) == 'self.local_settings':
                    filled = True
                # for k in self.local_settings[.keys()]:
                #     f.settings[k] = self.local_settings[k]
                src = it[2][0] if (it[0] == 'call' and
                                   it[1].endswith('.keys')) else it
                if len(s.key) == 3 and \
                        cm.attr_chain(src) == 'self.local_settings' and \
                        s.value[0] == 'sub' and \
                        cm.attr_chain(s.value[1]) == 'self.local_settings' \
                        and s.value[2] == s.key:
                    filled = True
            # every setting goes in: nothing is decided per item
            if any(s2.kind == 'assume' and s2.in_loop and
                   s2.frame == frame_qual for s2 in path.events):
                filled = False
            out.append((e.obj, filled))
    return out


def run(ctx, eng):
    ctx.rule('TAB sibling agreement of the two SETTINGS fills; FLOW codec '
             'pair; ORD/FSM upgrade steps; FSM body refusal in the upgraded '
             'states; ARITH next stream ids')
    fsm = eng.fsm
    # ---- initiate_connection: frame filled from all local settings
    fi0 = eng.m.func(H + 'initiate_connection')
    ok = False
    for p in cm.normal_paths(eng.I.run(fi0)):
        fr = settings_fill(p, fi0.qual)
        if any(filled for _, filled in fr):
            ok = True
    ctx.ob('TAB.fill', fi0.qual, 'initial SETTINGS carries every local '
           'setting', ok, 'for k, v in self.local_settings.items(): '
           'f.settings[k] = v (zero-iteration paths excluded)',
           node=fi0.node)
    fi = eng.m.func(H + 'initiate_upgrade_connection')
    paths = eng.I.run(fi)
    normal = cm.normal_paths(paths)
    ctx.require(normal, 'initiate_upgrade_connection has no normal path')
    # ---- client branch
    bad = []
    n_client = 0
    for p in normal:
        cs = cm.fact_polarity(p, ('a', ('a', ('p', 'self'), 'config', 0),
                                  'client_side', 0))
        if cs is None:
            for e in p.events:
                if e.kind == 'assume' and \
                        cm.show0(e.cond) in ('self.config.client_side',
                                           'not self.config.client_side'):
                    cs = e.cond[0] != 'not'
                    break
        if not cs:
            continue
        n_client += 1
        v = p.value
        looped = any(e.kind == 'iter' and e.frame == fi.qual
                     for e in p.events) and any(
            e.kind == 'store' and e.in_loop and e.frame == fi.qual
            for e in p.events)
        fr = settings_fill(p, fi.qual)
        if looped and not any(filled for _, filled in fr):
            bad.append('HTTP2-Settings frame not filled from '
                       'local_settings.items()')
        if not (v and v[0] == 'call' and
                v[1].endswith('urlsafe_b64encode')):
            bad.append('return value is not urlsafe_b64encode(...)')
        else:
            inner = v[2][-1]
            if not (inner[0] == 'call' and
                    inner[1].endswith('serialize_body') and
                    inner[2][0][0] == 'obj' and
                    inner[2][0][2] == 'SettingsFrame'):
                bad.append('encoded value is not the SETTINGS frame body')
        steps = [n for n, _, _ in cm.process_inputs(p)]
        if 'SEND_HEADERS' not in steps:
            bad.append('client upgrade does not feed SEND_HEADERS')
    ctx.ob('FLOW.codec', fi.qual, 'client HTTP2-Settings value',
           n_client > 0 and not bad, '; '.join(sorted(set(bad))) or
           'urlsafe_b64encode(SettingsFrame(local settings).serialize_body())',
           node=fi.node)
    # ---- server branch
    bad = []
    n_srv = 0
    for p in normal:
        cs = None
        for e in p.events:
            if e.kind == 'assume' and cm.show0(e.cond) in (
                    'self.config.client_side', 'not self.config.client_side'):
                cs = e.cond[0] != 'not'
                break
        if cs is not False:
            continue
        sh = cm.param_truth(p, 'settings_header')
        steps = [n for n, _, _ in cm.process_inputs(p)]
        if 'RECV_HEADERS' not in steps:
            bad.append('server upgrade does not feed RECV_HEADERS')
        if not sh:
            continue
        n_srv += 1
        dec = [e for e in p.events if e.kind == 'call' and
               any(str(n).endswith('urlsafe_b64decode') for n in e.names)]
        pb = [e for e in p.events if e.kind == 'call' and
              any(str(n).endswith('parse_body') for n in e.names)]
        rs = cm.calls_to(p, '_receive_settings_frame')
        if not dec or dec[0].args[0] != ('p', 'settings_header'):
            bad.append('settings_header is not decoded with '
                       'urlsafe_b64decode')
        if not pb or not (pb[0].recv and pb[0].recv[0] == 'obj' and
                          pb[0].recv[2] == 'SettingsFrame') or \
                not (pb[0].args and pb[0].args[0][0] == 'call' and
                     pb[0].args[0][1].endswith('urlsafe_b64decode')):
            bad.append('decoded value is not parsed as a SETTINGS frame '
                       'body')
        if not rs or not (pb and rs[0].args and
                          rs[0].args[0] == pb[0].recv):
            bad.append('the client\'s settings are not applied through '
                       '_receive_settings_frame (cached copies of the '
                       'peer\'s settings would stay stale)')
        if rs and cm.calls_to(p, '_prepare_for_sending'):
            bad.append('the ACK for the HTTP2-Settings frame is emitted')
        # what is applied is what was parsed: nothing edits the frame (its
        # settings mapping in particular) between parse_body and the apply
        if pb and rs:
            lo, hi = p.index(pb[0]), p.index(rs[0])
            for e in p.events[lo + 1:hi]:
                touched = None
                if e.kind in ('store', 'del') and \
                        pb[0].recv in list(cm._subterms(e.container)):
                    touched = 'item assignment'
                if e.kind == 'write' and e.base == pb[0].recv:
                    touched = 'attribute %s' % e.attr
                if e.kind == 'call' and e.get('recv') is not None and \
                        pb[0].recv in list(cm._subterms(e.recv)) and \
                        cm.ev_callee_names(e) & {
                            'pop', 'popitem', 'clear', 'update',
                            'setdefault', '__setitem__', '__delitem__'}:
                    touched = 'call of %s' % sorted(cm.ev_callee_names(e))
                if touched:
                    bad.append('the parsed frame is edited before it is '
                               'applied (%s)' % touched)
    ctx.ob('FLOW.codec', fi.qual, 'server applies HTTP2-Settings',
           n_srv > 0 and not bad, '; '.join(sorted(set(bad))) or
           'urlsafe_b64decode -> SettingsFrame.parse_body -> '
           '_receive_settings_frame, ACK discarded', node=fi.node)
    # ---- both: initiate_connection first, stream 1
    bad = []
    for p in normal:
        ic = cm.calls_to(p, 'initiate_connection')
        bn = cm.calls_to(p, '_begin_new_stream')
        up = cm.calls_to(p, 'upgrade')
        if not ic:
            bad.append('preamble/SETTINGS not produced (initiate_connection)')
        if not bn:
            bad.append('stream 1 not created')
        else:
            a = dict(bn[0].kwargs)
            sid = a.get('stream_id', bn[0].args[0] if bn[0].args else None)
            par = a.get('allowed_ids', bn[0].args[1]
                        if len(bn[0].args) > 1 else None)
            if sid != T.C(1) or cm.enum_name(par) != 'ODD':
                bad.append('_begin_new_stream(1, ODD) expected')
        if not up or cm.attr_chain(up[0].args[0]) != \
                'self.config.client_side':
            bad.append('stream 1 not upgraded with config.client_side')
        elif not ((up[0].recv[0] == 'sub' and up[0].recv[2] == T.C(1) and
                   cm.attr_chain(up[0].recv[1]) == 'self.streams') or
                  (bn and up[0].recv == bn[0].result)):
            # streams[1], or the stream _begin_new_stream(1, ..) returned
            bad.append('upgrade() not called on stream 1')
        if bn and up and p.index(bn[0]) > p.index(up[0]):
            bad.append('upgrade before creation')
        st = [n for n, _, _ in cm.process_inputs(p)]
        if bn and st and p.index(cm.process_inputs(p)[-1][1]) > \
                p.index(bn[0]):
            bad.append('connection machine stepped after stream creation')
    ctx.ob('ORD.upgrade', fi.qual, 'stream 1 set-up', not bad,
           '; '.join(sorted(set(bad))) or 'initiate_connection, connection '
           'input by role, _begin_new_stream(1, ODD), streams[1].upgrade('
           'client_side)', node=fi.node)
    # ---- FSM: upgraded states
    for inp, body_in, role in (('UPGRADE_CLIENT', 'SEND_DATA', 'client'),
                               ('UPGRADE_SERVER', 'RECV_DATA', 'server')):
        r = fsm.step_impl(INITIAL, inp)
        exp_state = 'HALF_CLOSED_LOCAL' if role == 'client' \
            else 'HALF_CLOSED_REMOTE'
        ok = r[0] == 'ok' and r[2].st == exp_state and \
            r[2].client is (role == 'client')
        cell = fsm.stream.cells.get(('IDLE', inp))
        ctx.ob('FSM.upgrade', 'stream', 'IDLE|%s' % inp, ok,
               'leads to %s with the role recorded (found %s, %s)'
               % (exp_state, r[0], r[2].st),
               node=cell[2] if cell else fsm.stream.node)
        if r[0] == 'ok':
            r2 = fsm.step_impl(r[2], body_in)
            ctx.ob('FSM.upgrade', 'stream', '%s|%s' % (r[2].st, body_in),
                   r2[0] in ('refuse', 'reset'),
                   'a request body on the upgraded stream 1 must be refused '
                   '(found %s)' % r2[0])
            # the response can flow
            if role == 'client':
                r3 = fsm.step_impl(r[2], 'RECV_HEADERS')
                ctx.ob('FSM.upgrade', 'stream', '%s|RECV_HEADERS' % r[2].st,
                       r3[0] == 'ok' and r3[1] == ('ResponseReceived',),
                       'the client receives the response on stream 1')
            else:
                r3 = fsm.step_impl(r[2], 'SEND_HEADERS')
                ctx.ob('FSM.upgrade', 'stream', '%s|SEND_HEADERS' % r[2].st,
                       r3[0] == 'ok' and r3[1] == ('_ResponseSent',),
                       'the server can answer stream 1')
    # ---- next ids
    fi = eng.m.func(H + 'get_next_available_stream_id')
    vals = {}
    for p in eng.I.run(fi):
        if p.exit != 'return':
            continue
        hw = None
        cs = None
        for e in p.events:
            if e.kind == 'assume':
                s = cm.show0(e.cond)
                if s == 'self.highest_outbound_stream_id':
                    hw = True
                elif s == 'not self.highest_outbound_stream_id':
                    hw = False
                elif s == 'self.config.client_side':
                    cs = True
                elif s == 'not self.config.client_side':
                    cs = False
        vals[(hw, cs)] = cm.show0(p.value)
    ok = vals.get((False, True)) == '1' and vals.get((False, False)) == '2' \
        and vals.get((True, None)) == 'self.highest_outbound_stream_id + 2'
    ctx.ob('ARITH.next-id', fi.qual, 'next stream id', ok,
           '1 / 2 by role when nothing was opened, else watermark + 2 '
           '(found %s): after an upgrade the client continues with 3, the '
           'server with 2' % vals, node=fi.node)
    ctx.assume('hyperframe\'s serialize_body/parse_body are inverse')
    cm.include(ctx, eng, 'C04', {'FLOW.init'},
               'the settings handed over in HTTP2-Settings are never '
               'acknowledged by a frame: stream 1 gets the announced window '
               'only because a new stream reads the current local value, not '
               'a copy refreshed at ACK time')
    cm.include(ctx, eng, 'C03', {'FLOW.init', 'OWN.window'},
               'likewise for the server\'s view of the client\'s window; '
               'and the upgrade step leaves the windows of stream 1 as the '
               'settings made them')
    cm.include(ctx, eng, 'C11', {('ORD.settings', '_receive_settings_frame')},
               'the decoded HTTP2-Settings frame goes through the ordinary '
               'SETTINGS handler: the server\'s view equals the client\'s '
               'settings only if that handler stores every setting of the '
               'frame, whatever its identifier and whichever side we are')
    cm.include(ctx, eng, 'C11', {('FLOW.queue', '__iter__'),
                                 ('FLOW.queue', '__getitem__')},
               'the header and the preface carry what iterating '
               'local_settings yields: every key that is set, an extension '
               'identifier included, with the value in force')
    cm.include(ctx, eng, 'C11', {'OWN.ack-caller'},
               'the header and the preface are both filled from '
               'local_settings: they agree because nothing makes pending '
               'values current in between (only a SETTINGS frame does)')
    cm.include(ctx, eng, 'C06',
               lambda o: o.rule == 'FSM.cell' and isinstance(o.desc, str) and
               o.desc.startswith(('HALF_CLOSED_LOCAL|', 'HALF_CLOSED_REMOTE|'))
               and o.desc.split('|')[1] in (
                   # (SEND_DATA / SEND_END_STREAM before the response
                   # headers are finding F15, recorded under C06/C08)
                   'RECV_PUSH_PROMISE',
                   'SEND_PUSH_PROMISE', 'RECV_INFORMATIONAL_HEADERS',
                   'SEND_INFORMATIONAL_HEADERS', 'RECV_DATA',
                   'RECV_END_STREAM', 'SEND_HEADERS', 'RECV_HEADERS'),
               'stream 1 lives in the two half-closed states from the '
               'upgrade on: no frame that may legitimately arrive or be sent '
               'there (a push, a 1xx response) re-opens the closed half')
    cm.include(ctx, eng, 'C10', {'ARITH.limit'},
               'the server can answer stream 1 (and the client receive the '
               'answer) whatever MAX_CONCURRENT_STREAMS was handed over: the '
               'limit guards only HEADERS that open a stream')
    cm.include(ctx, eng, 'C09', {'ORD.id-bookkeeping', 'ARITH.id-low',
                                 'OWN.creators'},
               'stream 1 is used up by the upgrade on both sides: every '
               'creation path records the id in the watermark of its '
               'direction')
    # "neither side can send a request body on it": on the state the upgrade
    # leaves each side in, the body-carrying inputs are refused exactly as
    # the reference machine refuses them
    from .c06 import compare_cells, feedable_from_source
    feedable = feedable_from_source(eng, ctx)
    compare_cells(eng, ctx, feedable, rule='FSM.no-body',
                  inputs={'SEND_DATA', 'SEND_END_STREAM', 'SEND_HEADERS'},
                  states_filter=lambda s: s.st == 'HALF_CLOSED_LOCAL')
    compare_cells(eng, ctx, feedable, rule='FSM.no-body',
                  inputs={'RECV_DATA', 'RECV_END_STREAM', 'RECV_HEADERS'},
                  states_filter=lambda s: s.st == 'HALF_CLOSED_REMOTE')
