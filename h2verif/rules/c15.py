"""C15 - inbound header validation accepts exactly the conformant blocks.

Decides: the name sets; the stages of validate_headers and their order; each
RFC 7540 8.1.2 clause has its refusal, control-dependent on the right fact,
and passes every other header on unchanged; the upper-case test is the regex
class [A-Z] applied with search(); cookie joining; _process_received_headers
runs normalise -> validate -> decode, each under its config flag, and
returns a concrete list; names are tested for emptiness before any index
into them.
"""
import ast
import re

from .. import terms as T
from . import common as cm
from . import headers as hd
from .headers import U, HDR, N0, V1, has


def run(ctx, eng):
    ctx.rule('TAB: name sets vs the RFC reference; PIPE: stages and order; '
             'ORD: each clause\'s refusal by path analysis of its stage; '
             'regex read with the standard library\'s parser')
    m = eng.m
    hd.check_name_sets(ctx, eng)
    hd.check_pipelines(ctx, eng, ['validate_headers',
                                  'normalize_inbound_headers'])
    hd.check_common_validators(ctx, eng, inbound=True)
    hd.check_flags(ctx, eng)
    # ---- upper case
    mod = m.modules['utilities']
    pat = None
    for v in mod.assigns.get('UPPER_RE', []):
        if isinstance(v, ast.Call) and ast.unparse(v.func) == 're.compile' \
                and v.args and isinstance(v.args[0], ast.Constant):
            pat = v.args[0].value
    ok = False
    if pat is not None:
        try:
            import re._parser as sre_parse
        except ImportError:                 # pragma: no cover
            import sre_parse
        parsed = list(sre_parse.parse(pat if isinstance(pat, str)
                                      else pat.decode('latin-1')))
        ok = len(parsed) == 1 and str(parsed[0][0]) == 'IN' and \
            [(str(k), tuple(v)) for k, v in parsed[0][1]] == \
            [('RANGE', (65, 90))]
    ctx.ob('TAB.regex', U + 'UPPER_RE', 'the class [A-Z]', ok,
           'UPPER_RE = re.compile(b"[A-Z]") (found %r)' % (pat,))
    fi, paths = hd.loop_paths(eng, U + '_reject_uppercase_header_fields')
    bad = []
    raised = False
    n = 0
    SEARCH = 'Pattern.search(UPPER_RE, %s)' % N0
    for p in paths:
        conds, ys = hd.body_facts(p)
        r = cm.explicit_raise(p)
        if r is not None:
            raised = raised or conds[-1:] == [SEARCH]
            if conds[-1:] != [SEARCH]:
                bad.append('rejects under %s (UPPER_RE.search(name) '
                           'expected: an upper-case letter anywhere in the '
                           'name)' % conds)
        elif p.exit != 'raise':
            n += 1
            if conds[-1:] != ['not ' + SEARCH] or len(ys) != 1 or \
                    cm.show0(ys[0].value) != HDR:
                bad.append('accepting path: %s' % conds)
    ctx.ob('ORD.clause', fi.qual, 'upper-case names are refused', raised and
           n > 0 and not bad, '; '.join(sorted(set(bad))) or 'ok',
           node=fi.node)
    # ---- surrounding whitespace
    fi, paths = hd.loop_paths(eng, U + '_reject_surrounding_whitespace')
    WS = '_WHITESPACE'
    name_rej = {'(%s[0] in %s)' % (N0, WS), '(%s[-1] in %s)' % (N0, WS)}
    val_rej = {'(%s[0] in %s)' % (V1, WS), '(%s[-1] in %s)' % (V1, WS)}
    seen = set()
    bad = []
    n = 0
    for p in paths:
        conds, ys = hd.body_facts(p)
        r = cm.explicit_raise(p)
        if r is not None:
            last = conds[-1]
            if last in name_rej:
                seen.add(last)
            elif last in val_rej:
                # (an empty value cannot reach the subscript: ESC decides)
                seen.add(last)
            else:
                bad.append('rejects under %s' % last)
        elif p.exit != 'raise':
            n += 1
            if any(c in name_rej | val_rej for c in conds):
                bad.append('a padded field passes')
            if len(ys) != 1 or cm.show0(ys[0].value) != HDR:
                bad.append('header not passed on unchanged')
            neg_names = {'not ' + c for c in name_rej}
            # an empty field has nothing around it
            if 'not ' + N0 not in conds and not neg_names <= set(conds):
                bad.append('an accepted name was not tested at both ends')
            if 'not ' + V1 not in conds and \
                    not {'not ' + c for c in val_rej} <= set(conds):
                bad.append('an accepted non-empty value was not tested at '
                           'both ends')
    ctx.ob('ORD.clause', fi.qual, 'surrounding whitespace is refused',
           seen == name_rej | val_rej and n > 0 and not bad,
           '; '.join(sorted(set(bad))) or 'name and (non-empty) value are '
           'tested at both ends', node=fi.node)
    # ---- cookies
    fi, paths = hd.loop_paths(eng, U + '_combine_cookie_fields')
    bad = []
    kinds = set()
    for p in paths:
        if p.exit == 'raise':
            continue
        conds, ys = hd.body_facts(p)
        is_cookie = "(%s == b'cookie')" % N0 in conds or \
            "(b'cookie' == %s)" % N0 in conds
        aps = [e for e in p.events if e.kind == 'append' and e.in_loop]
        if is_cookie:
            kinds.add('cookie')
            if ys or len(aps) != 1 or cm.show0(aps[0].value) != V1:
                bad.append('a cookie field must be collected, not yielded')
            # the joined field comes last
            tail = [e for e in p.events if e.kind == 'yield' and
                    not e.in_loop]
            if len(tail) != 1:
                bad.append('one joined cookie field expected at the end')
            else:
                v = tail[0].value
                if not (v[0] == 'call' and v[1] == 'NeverIndexedHeaderTuple'
                        and v[2][0] == T.C(b'cookie') and
                        v[2][1][0] == 'call' and v[2][1][1] == '.join' and
                        v[2][1][2][0] == T.C(b'; ') and
                        v[2][1][2][1] == aps[0].container):
                    bad.append('joined field is %s, expected '
                               'NeverIndexedHeaderTuple(b"cookie", '
                               'b"; ".join(collected values in arrival '
                               'order))' % cm.show0(v)[:80])
        else:
            kinds.add('other')
            if len(ys) != 1 or cm.show0(ys[0].value) != HDR:
                bad.append('other fields must be yielded unchanged, in '
                           'order')
    ctx.ob('PIPE.cookies', fi.qual, 'cookie fields joined into one trailing '
           'never-indexed field', kinds == {'cookie', 'other'} and not bad,
           '; '.join(sorted(set(bad))) or 'ok', node=fi.node)
    # ---- _process_received_headers
    f2 = m.func('stream.H2Stream._process_received_headers')
    bad = []
    n = 0
    for p in cm.normal_paths(eng.I.run(f2)):
        n += 1
        conds = [cm.show0(e.cond) for e in p.events if e.kind == 'assume']
        order = []
        for e in p.events:
            if e.kind == 'call':
                for nm in ('normalize_inbound_headers', 'validate_headers',
                           '_decode_headers'):
                    if nm in cm.ev_callee_names(e):
                        order.append(nm)
        exp = []
        if 'self.config.normalize_inbound_headers' in conds:
            exp.append('normalize_inbound_headers')
        if 'self.config.validate_inbound_headers' in conds:
            exp.append('validate_headers')
        if 'header_encoding' in conds:
            exp.append('_decode_headers')
        if order != exp:
            bad.append('stages run %s under %s' % (order, [
                c for c in conds if 'not' not in c]))
        for flag in ('self.config.normalize_inbound_headers',
                     'self.config.validate_inbound_headers',
                     'header_encoding'):
            if flag not in conds and 'not ' + flag not in conds:
                bad.append('%s is not consulted' % flag)
        v = p.value
        if v in (None, T.NONE):
            # handed the event, it stores the list there itself
            hw = [e for e in p.events if e.kind == 'write' and
                  e.attr == 'headers' and e.base[0] == 'p']
            v = hw[-1].value if len(hw) == 1 else T.NONE
        if not (v[0] == 'call' and v[1] == 'list'):
            bad.append('the result is not made concrete with list()')
    ctx.ob('PIPE.inbound', f2.qual, 'normalise -> validate -> decode, each '
           'under its flag', n == 8 and not bad,
           '; '.join(sorted(set(bad))) or '8 configurations, each running '
           'exactly the stages it promises', node=f2.node)
    # ---- decode step
    fi, paths = hd.loop_paths(eng, 'stream._decode_headers')
    bad = []
    n = 0
    for p in paths:
        if p.exit == 'raise':
            continue
        n += 1
        ys = [e for e in p.events if e.kind == 'yield']
        if len(ys) != 1:
            bad.append('one field per field expected')
            continue
        v = ys[0].value
        s = cm.show0(v)
        if not (v[0] == 'call' and '__class__' in v[1] or
                '.decode(' in s):
            bad.append('yields %s' % s[:60])
        if s.count('.decode(') != 2 or 'encoding' not in s:
            bad.append('name and value must both be decoded with the '
                       'configured encoding (found %s)' % s[:80])
    ctx.ob('PIPE.decode', fi.qual, 'fields decoded, class kept', n > 0 and
           not bad, '; '.join(sorted(set(bad))) or
           'header.__class__(name.decode(enc), value.decode(enc))',
           node=fi.node)
    # ---- every stage keeps the tuple class (PIPE.class)
    keep = True
    who = []
    for q, fi in sorted(m.funcs.items()):
        if fi.module != 'utilities' or not fi.is_generator:
            continue
        for p in eng.I.run(fi):
            for e in p.events:
                if e.kind == 'yield' and e.value not in (T.NONE,):
                    v = e.value
                    s = cm.show0(v)
                    if s == HDR or s.startswith(
                            ('NeverIndexedHeaderTuple(', HDR + '.__class__(',
                             '.__class__(')):
                        continue
                    if v[0] == 'tuple' and any(
                            c.startswith('not isinstance(%s, ' % HDR)
                            for c in (cm.show0(x.cond) for x in p.events
                                      if x.kind == 'assume')):
                        continue        # plain tuples stay plain tuples
                    keep = False
                    who.append('%s yields %s' % (fi.name, s[:50]))
    ctx.ob('PIPE.class', 'utilities', 'stages keep the header tuple class',
           keep, '; '.join(sorted(set(who))) or 'every stage yields the '
           'header itself, header.__class__(...) or a '
           'NeverIndexedHeaderTuple')
    ctx.assume('"accepts every conformant block" is decided through the form '
               'of each guard, not by executing the string operations')
    cm.include(ctx, eng, 'C17',
               lambda o: isinstance(o.where, str) and (
                   o.rule == 'ESC.translate' and
                   o.where.endswith('._decode_headers') or
                   o.rule == 'ESC' and ('<-stream._decode_headers' in o.desc
                                        or '<-utilities.' in o.desc)),
               'a block that cannot be decoded or normalised is refused as a '
               'ProtocolError like any other malformed block: an exception of '
               'another kind out of the header pipeline is not a refusal')
    cm.include(ctx, eng, 'C18',
               lambda o: o.rule == 'TAB.raise-class' and
               isinstance(o.where, str) and o.where.startswith('utilities.'),
               'a non-conformant block is refused with PROTOCOL_ERROR: every '
               'refusal of the validation stages is a plain ProtocolError')
