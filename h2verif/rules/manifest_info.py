"""Per-property text for MANIFEST.json (what is decided, by which method)."""
DEFAULT_NOTE = ('trusts CPython ast, hyperframe/hpack as summarised from their '
                'source, and the reference tables in /verif/h2verif/spec '
                '(transcribed from RFC 7540/7541/7838/8441); decides the listed '
                'structural clauses (each a necessary condition of the '
                'property), not the behaviour as a whole; see DESIGN.md '
                'section 4 for what is not decided')

_FSM = ('typestate: transition table + guarded commands extracted from the '
        'AST, compared cell-wise with an RFC 7540 5.1 reference machine over '
        'all API-reachable abstract states; ')
_PATH = 'path effect traces (syntax-directed path walk with affine normal forms, callees inlined where needed)'

INFO = {
 'C01': {
  'technique': 'table exhaustiveness (dispatch vs hyperframe registry), duality of both transition tables, allocation/opening-step atomicity and send-path order by ' + _PATH + ', wire agreement by value flow, cache-coherence of settings',
  'level': 'umbrella property decided through send/receive agreement clauses: every dispatch entry, every accepting SEND cell and its mirror, every raise after an allocation or opening step in the header-sending calls, 13 public sending calls; HPACK/byte round trips and unbounded programs are not decided',
 },
 'C02': {
  'technique': 'frame-size budget per emit site (fixed size / dominating guard on the same affine amount / slice bound minus per-flag overhead from the hyperframe summary), header-block contiguity and argument->field contracts by ' + _PATH,
  'level': 'all 17 emit sites classified; every frame built by a public call traced from argument to field; preface literal; hyperframe serialisation and HPACK output are trusted',
 },
 'C03': {
  'technique': 'affine normal forms: guard, frame-size check and both window decrements of send_data reduced to one form per path (stream method and hyperframe flow_controlled_length inlined); writer ownership of the window attributes; refusal-before-effect ordering',
  'level': 'all paths of send_data with the stream method inlined, all writers of outbound_flow_control_window, the settings delta on every stream; the inductive step over histories is argued in prose, not mechanised',
 },
 'C04': {
  'technique': 'value flow of charged/credited amounts, boundary guards of the window manager as affine normal forms, no-raise-after-window-write atomicity with callees inlined, per-stream settings delta',
  'level': 'both charge sites, both boundary guards, two public window-changing calls (all paths, callees inlined), five credit sites, the acknowledge-time delta on every live stream',
 },
 'C05': {
  'technique': 'normal forms of the increment assignments and reset discipline of _maybe_update_window; must-pass-through of the closed-stream refill; value flow of acknowledged amounts',
  'level': 'the over-credit half and the refill plumbing on all paths of five functions; THE LIVENESS HALF IS NOT DECIDED (needs the value of the threshold expression and an induction over histories) and is stated as such',
  'note': DEFAULT_NOTE + '; liveness ("a zero window does not stay zero") is explicitly outside what this check decides',
 },
 'C06': {
  'technique': _FSM + 'path analysis of process_input and _receive_frame',
  'level': 'exhaustive static comparison of the extracted stream machine (78 cells x flag valuations, ~100 reachable abstract states x 19 inputs) with a hand-written reference, plus step-sequence contracts of every H2Stream method and the stream-error/connection-error mapping; any cell, guard, flag update or mapping that deviates is reported by cell',
 },
 'C07': {
  'technique': _FSM + 'grammar-phase invariants on every extracted transition; link=>append pairing, event-field value flow and local-reset recording by path effect traces',
  'level': 'every RECV cell on every reachable abstract state, every related-event link, every event constructed by the machine; header contents and cross-stream ordering are not decided',
 },
 'C08': {
  'technique': _FSM + 'connection table vs a role reference per role with role gates extracted from path conditions; trailers/END_STREAM and 1xx selection by path analysis of H2Stream.send_headers',
  'level': 'every SEND cell on every reachable abstract state, every (role, connection state, input) the role can feed; header-list validity is C14',
 },
 'C09': {
  'technique': 'affine/parity normal forms of the three refusals of _begin_new_stream against folded constants, guards-before-bookkeeping ordering, parity argument of every creation call site, write sets of the PRIORITY paths',
  'level': 'all paths of _begin_new_stream, get_next_available_stream_id and _get_stream_by_id, 5 creation call sites, the three-way StreamIDTooLowError split',
 },
 'C10': {
  'technique': 'affine normal forms of the two limit guards dominating stream creation; STREAM_OPEN evaluated from the module-level construction; opening transitions of the table vs guarded connection paths',
  'level': 'both guards on all paths, all opening transitions of the extracted table; counting over histories follows by induction (not mechanised)',
 },
 'C11': {
  'technique': 'handler ordering, apply-map (cache coherence) per setting code and per stream, validate-all-before-queue atomicity, queue discipline of Settings, all by ' + _PATH + '; information-flow check for a per-frame record',
  'level': 'both acknowledge handlers for every cached copy and every code independently, all paths of update_settings and of the Settings queue operations',
 },
 'C12': {
  'technique': 'interval analysis of _validate_setting (guards reduced to integer regions per identifier) compared with the RFC table; value flow of the error code',
  'level': 'decided for ALL identifiers and ALL values 0..2**32-1 (exhaustive by intervals), three validating entry points, the window-overflow guard on every stream',
 },
 'C13': {
  'technique': 'must-precede (state step before encode), no-raise-after-encode atomicity over the five functions on the header send path, lazy-value typing of the encoder argument (generators consumed inside the encoder), writer ownership of the encoder table size',
  'level': 'every path of the five functions; hpack itself and the decode side are trusted',
 },
 'C14': {
  'technique': 'table comparison of the six name sets, pipeline stage presence/order/transformation and every validation clause by path analysis of each generator stage (one symbolic iteration)',
  'level': 'all stages of both outbound pipelines, every clause\'s refusal condition and pass-through, the four config combinations of _build_headers_frames',
 },
 'C15': {
  'technique': 'as C14 for the inbound pipeline, plus the upper-case regex read with the standard library\'s regex parser, cookie joining, the eight config combinations of _process_received_headers',
  'level': 'all 8 validation stages and the normalisation stage, clause by clause; "accepts every conformant block" is decided through the form of each guard, not by executing string operations',
 },
 'C16': {
  'technique': 'ordering/pairing rules and affine normal forms on the five functions that carry the content-length logic; writer ownership of request_method',
  'level': 'all paths of receive_headers, receive_data, _track_content_length, _initialize_content_length and send_headers',
 },
 'C17': {
  'technique': 'exception-escape analysis over the resolved call graph from receive_data (dispatch table, state machines, lazily consumed generator pipelines, iteration protocol), every partial operation/assertion/external call discharged by handler, dominating guard, shape fact (minimum list length, state-machine column, table coverage) or named exemption',
  'level': '~105 partial operations, 15 assertions and 31 external calls in ~90 functions reachable from one entry point; hyperframe/hpack raise only what their source says; recursion depth through the CONTINUATION backlog rule',
 },
 'C18': {
  'technique': 'handler/terminate ordering and GOAWAY field flow by ' + _PATH + '; error category table: statically resolved error_code of the exception class each detecting function raises; state-machine clause for frames after END_STREAM',
  'level': 'all paths of receive_data and _terminate_connection, 13 detecting functions, 4 translations, 12 exception classes',
 },
 'C19': {
  'technique': 'CLOSED row and GOAWAY column of the connection table; must-precede: a connection-machine step that CLOSED refuses dominates every emit and stream creation in all public methods and frame handlers',
  'level': '30+ entry points, all their paths; the property is essentially structural',
 },
 'C20': {
  'technique': 'typestate on reset-closed abstract states x in-flight receive inputs; dominance/ordering rules on frame handlers (decode before lookup, classification before connection-level refusals, RST => record, charged DATA => refill) by path effect traces',
  'level': 'all reachable states closed by a local reset x 8 in-flight inputs; every path of the seven frame handlers that look a stream up; schedules themselves are not enumerated',
 },
 'C21': {
  'technique': 'buffer discipline of FrameBuffer (no write on StopIteration paths, exact consumption, decisions read only parser state), single drain loop, cache coherence of the frame-size limit, output slicing forms',
  'level': 'all paths of the four FrameBuffer methods, every write of max_inbound_frame_size; equality of event lists under chunkings rests on these structural facts',
 },
 'C22': {
  'technique': 'ordered-gate (must-precede) analysis of push_stream and _receive_push_promise_frame on every path; push cells and reserved rows vs the reference machine; event-field value flow; allocation-before-raise atomicity',
  'level': 'all paths of the two push entry points and the stream-level push methods, all push cells x reachable abstract states',
 },
 'C23': {
  'technique': 'gate ordering, range/self-dependency guards as normal forms, frame and event field flow with callees inlined, write set of the PRIORITY handler, self-loops of the connection table',
  'level': 'all paths of prioritize, the priority branch of send_headers, _receive_priority_frame and the validation helpers',
 },
 'C24': {
  'technique': 'argument-check ordering, alt-svc cells of both machines vs references, frame/event field flow, single-capture of the request authority',
  'level': 'all paths of the send and receive entry points, all alt-svc cells x reachable abstract states, all writers of _authority',
 },
 'C25': {
  'technique': 'sibling agreement of the two SETTINGS fills, codec pairing, upgrade step order, upgrade cells of the extracted machine, next-id forms',
  'level': 'all paths of initiate_upgrade_connection and initiate_connection; equality of the two settings views rests on hyperframe serialize/parse being inverse',
 },
 'C26': {
  'technique': 'trace shape of _receive_ping_frame and ping() (value flow of the payload, one frame per path), writer ownership of the output buffer',
  'level': 'completely structural: both paths of the handler, the sender, all writers of _data_to_send',
 },
 'C27': {
  'technique': 'transitive write sets of the non-opening handlers, writers of the stream tables, folded caps and the eviction loop, clean-up on every creating path, backlog and frame-length guards',
  'level': '9 handlers, all inserters of both stream tables, 3 caps, both creating paths; actual memory is not measured',
 },
 'C28': {
  'technique': 'purity lint specific to this package: imports and calls of 11 modules, every iteration/join/format site by container type (sets vs ordered containers), shared mutable objects (class attributes, globals, default arguments)',
  'level': 'sufficient condition over all modules, ~150 order-sensitive sites',
 },
 'C29': {
  'technique': 'exception-escape set of each of the 23 public entry points; frame-size budget at every emit site (post-append assertion as a precondition); no-raise-after-append atomicity with callees inlined',
  'level': '23 entry points x escape set, every direct use of the stream table, 17 emit sites',
 },
}
