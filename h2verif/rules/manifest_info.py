"""Per-property text for MANIFEST.json (what is decided, by which method)."""
DEFAULT_NOTE = ('trusts CPython ast, hyperframe/hpack as summarised from their '
                'source, and the reference tables in /verif/h2verif/spec '
                '(transcribed from RFC 7540/7541/7838/8441); decides the listed '
                'structural clauses, not the behaviour as a whole')

INFO = {
 'C06': {
  'technique': 'typestate: transition table + guarded commands extracted from the AST, compared cell-wise with an RFC 7540 5.1 reference machine over all API-reachable abstract states; path analysis of process_input and _receive_frame',
  'level': 'exhaustive static comparison of the extracted stream machine (78 cells x flag valuations, ~100 reachable abstract states x 19 inputs) with a hand-written reference, plus step-sequence contracts of every H2Stream method and the stream-error/connection-error mapping; any cell, guard, flag update or mapping that deviates is reported by cell',
 },
}
