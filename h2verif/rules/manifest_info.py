"""Per-property text for MANIFEST.json (what is decided, by which method)."""
DEFAULT_NOTE = ('trusts CPython ast, hyperframe/hpack as summarised from their '
                'source, and the reference tables in /verif/h2verif/spec '
                '(transcribed from RFC 7540/7541/7838/8441); decides the listed '
                'structural clauses, not the behaviour as a whole')

_FSM = ('typestate: transition table + guarded commands extracted from the '
        'AST, compared cell-wise with an RFC 7540 5.1 reference machine over '
        'all API-reachable abstract states; ')

INFO = {
 'C06': {
  'technique': _FSM + 'path analysis of process_input and _receive_frame',
  'level': 'exhaustive static comparison of the extracted stream machine (78 cells x flag valuations, ~100 reachable abstract states x 19 inputs) with a hand-written reference, plus step-sequence contracts of every H2Stream method and the stream-error/connection-error mapping; any cell, guard, flag update or mapping that deviates is reported by cell',
 },
 'C07': {
  'technique': _FSM + 'grammar-phase invariants on every extracted transition; link=>append pairing, event-field value flow and local-reset recording by path effect traces',
  'level': 'every RECV cell on every reachable abstract state, every related-event link, every event constructed by the machine; header contents and cross-stream ordering are not decided',
 },
 'C08': {
  'technique': _FSM + 'connection table vs a role reference per role with role gates extracted from path conditions; trailers/END_STREAM and 1xx selection by path analysis of H2Stream.send_headers',
  'level': 'every SEND cell on every reachable abstract state, every (role, connection state, input) the role can feed; header-list validity is C14',
 },
 'C20': {
  'technique': 'typestate on reset-closed abstract states x in-flight receive inputs; dominance/ordering rules on frame handlers (decode before lookup, classification before connection-level refusals, RST => record, charged DATA => refill) by path effect traces',
  'level': 'all reachable states closed by a local reset x 8 in-flight inputs; every path of the seven frame handlers that look a stream up; schedules themselves are not enumerated',
 },
 'C22': {
  'technique': 'ordered-gate (must-precede) analysis of push_stream and _receive_push_promise_frame on every path; push cells and reserved rows vs the reference machine; event-field value flow; allocation-before-raise atomicity',
  'level': 'all paths of the two push entry points and the stream-level push methods, all push cells x reachable abstract states; ENABLE_PUSH timing over histories is not decided beyond "the acknowledged value is the one read"',
 },
}
