"""Header pipelines (rule families TAB / PIPE / ORD; C14 and C15).

The stages are generators.  For each stage the path walk with one symbolic
iteration gives, per path through the loop body, the conditions assumed and
whether the path raises or yields (and what).  The clauses below compare
those with the RFC 7540 section 8.1.2 rules.
"""
import ast
import re

from .. import terms as T
from ..core import AnalysisError
from . import common as cm

U = 'utilities.'

NAME_SETS = {
    'CONNECTION_HEADERS': ['connection', 'proxy-connection', 'keep-alive',
                           'transfer-encoding', 'upgrade'],
    '_ALLOWED_PSEUDO_HEADER_FIELDS': [':method', ':scheme', ':authority',
                                      ':path', ':status', ':protocol'],
    '_SECURE_HEADERS': ['authorization', 'proxy-authorization'],
    '_REQUEST_ONLY_HEADERS': [':scheme', ':path', ':authority', ':method',
                              ':protocol'],
    '_RESPONSE_ONLY_HEADERS': [':status'],
    '_CONNECT_REQUEST_ONLY_HEADERS': [':protocol'],
}
PIPELINES = {
    'validate_headers': [
        '_reject_empty_header_names', '_reject_uppercase_header_fields',
        '_reject_surrounding_whitespace', '_reject_te',
        '_reject_connection_header', '_reject_pseudo_header_fields',
        '_check_host_authority_header', '_check_path_header'],
    'validate_outbound_headers': [
        '_reject_empty_header_names', '_reject_te',
        '_reject_connection_header', '_reject_pseudo_header_fields',
        '_check_sent_host_authority_header', '_check_path_header'],
    'normalize_outbound_headers': [
        '_lowercase_header_names', '_strip_surrounding_whitespace',
        '_strip_connection_headers', '_secure_headers'],
    'normalize_inbound_headers': ['_combine_cookie_fields'],
}
# stage -> stages that must run before it in the same pipeline
BEFORE = {
    '_reject_surrounding_whitespace': ['_reject_empty_header_names'],
    '_reject_te': ['_reject_empty_header_names'],
    '_reject_connection_header': ['_reject_empty_header_names'],
    '_reject_pseudo_header_fields': ['_reject_empty_header_names'],
    '_strip_surrounding_whitespace': ['_lowercase_header_names'],
    '_strip_connection_headers': ['_lowercase_header_names',
                                  '_strip_surrounding_whitespace'],
    '_secure_headers': ['_lowercase_header_names',
                        '_strip_surrounding_whitespace'],
}
INBOUND_ONLY_BEFORE = {
    '_reject_te': ['_reject_uppercase_header_fields'],
    '_reject_connection_header': ['_reject_uppercase_header_fields'],
    '_reject_pseudo_header_fields': ['_reject_uppercase_header_fields'],
}
# the two authority stages of the pinned tree have the same body; a pipeline
# may use either (their bodies are checked wherever they are used)
TWINS = {'_check_sent_host_authority_header': '_check_host_authority_header',
         '_check_host_authority_header': '_check_sent_host_authority_header'}
HDR = "each(headers)"
N0 = HDR + '[0]'
V1 = HDR + '[1]'


def both(names):
    out = set()
    for n in names:
        out.add(n)
        out.add(n.encode('ascii'))
    return out


def check_name_sets(ctx, eng):
    for gname, names in sorted(NAME_SETS.items()):
        v = eng.m.try_fold(ast.Name(id=gname, ctx=ast.Load()), 'utilities')
        ok = isinstance(v, frozenset) and set(v) == both(names)
        ctx.ob('TAB.names', U + gname, 'equals the reference set', ok,
               'bytes and str spelling of %s (found %s)' % (
                   names, sorted(map(repr, v)) if isinstance(
                       v, frozenset) else v))
    v = eng.m.try_fold(ast.Name(id='_WHITESPACE', ctx=ast.Load()),
                       'utilities')
    # frozenset(map(ord, string.whitespace)) is not folded: check its shape
    mod = eng.m.modules['utilities']
    src = [ast.unparse(x) for x in mod.assigns.get('_WHITESPACE', [])]
    ctx.ob('TAB.names', U + '_WHITESPACE', 'the ASCII whitespace ordinals',
           src == ['frozenset(map(ord, whitespace))'] and
           mod.imports.get('whitespace') == ('ext', 'string', 'whitespace'),
           'frozenset(map(ord, string.whitespace)) (found %s)' % src)


def stage_order(eng, builder):
    """The chain of stage calls of a pipeline builder: every stage takes the
    value the previous one produced (whatever the variable is called) and
    the last value is returned."""
    fi = eng.m.func(U + builder)
    order = []
    cur = fi.params[0] if fi.params else 'headers'
    chained = True
    returned = False
    for st in fi.node.body:
        if isinstance(st, ast.Assign) and len(st.targets) == 1 and \
                isinstance(st.targets[0], ast.Name):
            tgt = st.targets[0].id
            v = st.value
            if isinstance(v, ast.Name):
                if v.id == cur:
                    cur = tgt           # plain copy of the current value
                continue
            if isinstance(v, ast.Call) and isinstance(v.func, ast.Name):
                ok = bool(v.args) and isinstance(v.args[0], ast.Name) and \
                    v.args[0].id == cur
                order.append(v.func.id)
                chained = chained and ok
                cur = tgt
        elif isinstance(st, ast.Return):
            v = st.value
            if isinstance(v, ast.Call) and isinstance(v.func, ast.Name):
                # the last stage's result returned without a temporary
                ok = bool(v.args) and isinstance(v.args[0], ast.Name) and \
                    v.args[0].id == cur
                order.append(v.func.id)
                chained = chained and ok
                returned = True
            else:
                returned = isinstance(v, ast.Name) and v.id == cur
    rets = [n for n in ast.walk(fi.node) if isinstance(n, ast.Return)]
    chained = chained and returned and len(rets) == 1
    return fi, order, chained


def check_pipelines(ctx, eng, which):
    for b in which:
        fi, order, chained = stage_order(eng, b)
        want = [TWINS[s] if s not in order and TWINS.get(s) in order else s
                for s in PIPELINES[b]]
        missing = [s for s in want if s not in order]
        ctx.ob('PIPE.stages', fi.qual, 'stages present and chained',
               not missing and chained,
               'each stage consumes the previous one\'s output; missing: %s; '
               'found %s' % (missing or '-', order), node=fi.node)
        bad = []
        deps = dict(BEFORE)
        if b == 'validate_headers':
            for k, v in INBOUND_ONLY_BEFORE.items():
                deps[k] = deps.get(k, []) + v
        for s, pre in deps.items():
            if s in order:
                for x in pre:
                    if x in want and (x not in order or
                                      order.index(x) > order.index(s)):
                        bad.append('%s must run before %s' % (x, s))
        ctx.ob('PIPE.order', fi.qual, 'order respects the dependencies',
               not bad, '; '.join(bad) or 'ok (%s)' % ' -> '.join(order),
               node=fi.node)


def loop_paths(eng, q):
    """Paths of a generator stage that run the loop body once."""
    fi = eng.m.func(q)
    out = []
    for p in eng.I.run(fi):
        if any(e.in_loop for e in p.events):
            out.append(p)
    return fi, out


def body_facts(p):
    conds = [cm.show0(e.cond) for e in p.events if e.kind == 'assume' and
             e.in_loop]
    ys = [e for e in p.events if e.kind == 'yield' and e.in_loop]
    return conds, ys


def check_rejecting_stage(ctx, eng, name, reject_when, descr):
    """A stage that raises ProtocolError exactly under `reject_when` (a
    predicate on the list of assumed condition strings) and otherwise yields
    the header unchanged."""
    fi, paths = loop_paths(eng, U + name)
    bad = []
    raised = False
    n = 0
    for p in paths:
        conds, ys = body_facts(p)
        r = cm.explicit_raise(p)
        if r is not None and r.in_loop:
            if 'ProtocolError' not in p.exc['names']:
                bad.append('raises %s' % sorted(p.exc['names']))
            if reject_when(conds):
                raised = True
            else:
                bad.append('rejects under %s' % conds)
            continue
        if p.exit == 'raise':
            continue
        n += 1
        if reject_when(conds):
            bad.append('a header that must be rejected passes (%s)' % conds)
        if len(ys) != 1 or cm.show0(ys[0].value) != HDR:
            bad.append('does not yield the header unchanged')
    ctx.ob('ORD.clause', fi.qual, descr, raised and n > 0 and not bad,
           '; '.join(sorted(set(bad))) or 'ProtocolError exactly then, '
           'otherwise the header is passed on unchanged', node=fi.node)
    return fi


def has(conds, *alts):
    return any(a in conds for a in alts)


def check_common_validators(ctx, eng, inbound):
    # empty names
    check_rejecting_stage(
        ctx, eng, '_reject_empty_header_names',
        lambda c: has(c, '(len(%s) == 0)' % N0, 'not %s' % N0),
        'empty header names are refused')
    check_rejecting_stage(
        ctx, eng, '_reject_te',
        lambda c: has(c, "(%s in (b'te', 'te'))" % N0) and has(
            c, "not (.lower(%s) in (b'trailers', 'trailers'))" % V1),
        'TE other than "trailers" is refused')
    check_rejecting_stage(
        ctx, eng, '_reject_connection_header',
        lambda c: has(c, '(%s in CONNECTION_HEADERS)' % N0),
        'connection-specific fields are refused')
    # path: the generator _check_path_header hands out when it applies (a
    # closure in the pinned tree; a module-level generator taking the
    # headers does as well)
    f2 = eng.m.func(U + '_check_path_header')
    gens = []
    skip_ok = check_skip(eng, f2, gens=gens)
    gq = sorted(set(gens))
    if len(gq) == 1 and eng.m.func(gq[0], required=False) is not None:
        fi, paths = loop_paths(eng, gq[0])
    else:
        fi, paths = loop_paths(eng, U + '_check_path_header.inner')
    bad = []
    raised = False
    n = 0
    for p in paths:
        conds, ys = body_facts(p)
        rej = has(conds, "(%s in (b':path', ':path'))" % N0) and \
            has(conds, 'not %s' % V1)
        r = cm.explicit_raise(p)
        if r is not None:
            raised = raised or rej
            if not rej:
                bad.append('rejects under %s' % conds)
        elif p.exit != 'raise':
            n += 1
            if rej or len(ys) != 1 or cm.show0(ys[0].value) != HDR:
                bad.append('empty :path passes or header not passed on')
    ctx.ob('ORD.clause', fi.qual, 'empty :path is refused', raised and n > 0
           and not bad, '; '.join(sorted(set(bad))) or 'ok', node=fi.node)
    ctx.ob('ORD.clause', f2.qual, ':path rule applies to requests only',
           skip_ok, 'skipped for response headers and trailers, applied '
           'otherwise', node=f2.node)
    # host / authority
    nm = '_check_host_authority_header' if inbound else \
        '_check_sent_host_authority_header'
    _, order, _ = stage_order(eng, 'validate_headers' if inbound else
                              'validate_outbound_headers')
    if nm not in order and TWINS[nm] in order:
        nm = TWINS[nm]          # the pipeline uses the twin stage
    for nm in [nm]:
        f3 = eng.m.func(U + nm)
        ctx.ob('ORD.clause', f3.qual, 'authority rule applies to requests '
               'only', check_skip(eng, f3, '_validate_host_authority_header'),
               'skipped for response headers and trailers', node=f3.node)
    f4 = eng.m.func(U + '_validate_host_authority_header')
    paths = eng.I.run(f4)
    AUTH = 'phi(authority_header_val)'
    HOST = 'phi(host_header_val)'
    missing = mismatch = False
    bad = []
    for p in paths:
        conds = [cm.show0(e.cond) for e in p.events if e.kind == 'assume'
                 and not e.in_loop]
        r = cm.explicit_raise(p)
        if r is None or r.in_loop:
            continue
        looped = any(e.in_loop for e in p.events)
        if not looped:
            continue
        if all(c.endswith('is None)') and not c.startswith('not')
               for c in conds[-2:]) and len(conds) >= 2:
            missing = True
        elif any('!=' in c or 'ne' in c for c in conds[-1:]) and \
                sum(1 for c in conds if c.startswith('not (') and
                    c.endswith('is None)')) >= 2:
            mismatch = True
        else:
            bad.append('rejects under %s' % conds)
    # presence must be tested with `is None`, not truthiness
    truthy = [c for p in paths for c in (
        cm.show0(e.cond) for e in p.events if e.kind == 'assume' and
        not e.in_loop) if 'is None' not in c and '!=' not in c and
        '==' not in c]
    # what is tested and compared are the field values as received: a value
    # rewritten on the way into the local (`header[1] or None`, stripped,
    # lower-cased ...) makes a present field count as absent or two
    # different values count as equal
    import re
    OPND = r'(?:phi\(\w+\)|each\(headers\)\[1\])'
    shape = re.compile(r'^(?:not )?\(%s (?:is None|(?:!=|==) %s)\)$'
                       % (OPND, OPND))
    for p in paths:
        for e in p.events:
            if e.kind == 'assume' and not e.in_loop:
                c = cm.show0(e.cond)
                if ('is None' in c or '!=' in c or '==' in c) and \
                        not shape.match(c):
                    bad.append('decides on a rewritten value: %s' % c)
    ctx.ob('ORD.clause', f4.qual, ':authority / Host agreement',
           missing and mismatch and not bad and not truthy,
           '; '.join(sorted(set(bad + ['presence decided by truthiness: %s'
                                       % t for t in truthy]))) or
           'refused when neither is present or when both are present and '
           'differ (presence = `is not None`, so an empty value counts)',
           node=f4.node)
    fi, lp = loop_paths(eng, U + '_validate_host_authority_header')
    okc = all(len(body_facts(p)[1]) == 1 and
              cm.show0(body_facts(p)[1][0].value) == HDR
              for p in lp if p.exit != 'raise' or cm.explicit_raise(p))
    ctx.ob('PIPE.yield', fi.qual, 'passes every header on', okc and bool(lp),
           'yield header for every field', node=fi.node)
    check_pseudo(ctx, eng)


def check_skip(eng, fi, inner=None, gens=None):
    """if is_response_header or is_trailer: return headers (unchanged)
    else: return <inner generator>(headers)
    gens, when given, collects the qualified names of the generators
    returned on the applying paths."""
    ok_skip = ok_apply = False
    bad = False
    # one of these stages may be written as a call of its twin
    I = eng.interp({U + '_check_host_authority_header',
                    U + '_check_sent_host_authority_header',
                    U + '_check_path_header'}, 2, fork_raises=False)
    for p in cm.normal_paths(I.run(fi)):
        conds = [cm.show0(e.cond) for e in p.events if e.kind == 'assume']
        skip = any(c in ('hdr_validation_flags.is_response_header',
                         'hdr_validation_flags.is_trailer') for c in conds)
        v = p.value
        if skip:
            ok_skip = v == ('p', 'headers')
            bad = bad or not ok_skip
        else:
            if not {'not hdr_validation_flags.is_response_header',
                    'not hdr_validation_flags.is_trailer'} <= set(conds):
                bad = True
            ok_apply = v[0] == 'gen' and v[2][:1] in (
                (('p', 'headers'),), ()) and (
                    inner is None or v[1].endswith(inner))
            if gens is not None and v[0] == 'gen':
                gens.append(v[1])
            bad = bad or not ok_apply
    return ok_skip and ok_apply and not bad


def check_pseudo(ctx, eng):
    fi, paths = loop_paths(eng, U + '_reject_pseudo_header_fields')
    # "the name starts with a colon", however it is spelt: the helper of
    # the pinned tree or str/bytes.startswith on the name directly
    PSEUDO = {"utilities._custom_startswith(%s, b':', ':')" % N0,
              ".startswith(%s, b':')" % N0, ".startswith(%s, ':')" % N0}
    seen = {'dup': False, 'seq': False, 'unknown': False}
    bad = []
    n = 0
    flag_vars = set()
    flag_set = []
    adds = []
    for p in paths:
        conds, ys = body_facts(p)
        r = cm.explicit_raise(p)
        is_pseudo = bool(PSEUDO & set(conds))
        not_pseudo = bool({'not ' + c for c in PSEUDO} & set(conds))
        for c in conds:
            if c.startswith('phi(') and c.endswith(')'):
                flag_vars.add(c[4:-1])
        if p.exit != 'raise':
            if not_pseudo:
                flag_set.append({k for k, v in p.state.env.items()
                                 if v == T.C(True)})
            elif is_pseudo:
                adds.append([cm.show0(e.recv) for e in p.events
                             if e.kind == 'call' and
                             cm.ev_callee_names(e) & {'add'} and e.args and
                             cm.show0(e.args[0]) == N0])
        if r is not None and r.in_loop:
            if not is_pseudo:
                bad.append('a regular field is rejected (%s)' % conds)
            last = conds[-1] if conds else ''
            lastc = [e.cond for e in p.events if e.kind == 'assume' and
                     e.in_loop][-1]
            if lastc[0] == 'in' and cm.show0(lastc[1]) == N0 and \
                    lastc[2][0] != 'global' and \
                    _is_seen_set(fi, p, lastc[2]):
                seen['dup'] = True
            elif last.startswith('phi(') and last.endswith(')'):
                seen['seq'] = True
            elif last == 'not (%s in _ALLOWED_PSEUDO_HEADER_FIELDS)' % N0:
                seen['unknown'] = True
            else:
                bad.append('rejects under %s' % last)
            continue
        if p.exit == 'raise':
            continue
        n += 1
        if len(ys) != 1 or cm.show0(ys[0].value) != HDR:
            bad.append('does not yield the header unchanged')
    ctx.ob('ORD.clause', fi.qual, 'pseudo-header placement and uniqueness',
           all(seen.values()) and n > 0 and not bad,
           '; '.join(sorted(set(bad))) or 'duplicate / after a regular field '
           '/ unknown pseudo-header => ProtocolError (seen %s)' % seen,
           node=fi.node)
    # every accepted pseudo-header name is added to a set (the one the
    # duplicate test reads: _is_seen_set above); every accepted regular field
    # sets the flag that the ordering test reads; the block-type check is
    # called at the end
    add_ok = bool(adds) and all(a for a in adds)
    flag_ok = bool(flag_set) and bool(flag_vars) and all(
        flag_vars & fs for fs in flag_set)
    final = [p for p in eng.I.run(fi) if p.exit != 'raise' and
             cm.calls_to(p, '_check_pseudo_header_field_acceptability')]
    fin_ok = bool(final) and all(
        [cm.show0(a) for a in cm.calls_to(
            p, '_check_pseudo_header_field_acceptability')[0].args][2:] ==
        ['hdr_validation_flags'] for p in final)
    # ... and with the method: what the block-type check compares with
    # b'CONNECT' is the value of the :method field, as bytes whichever type
    # the caller used
    # (the variable itself, or the one variable of a test such as
    # `method == b'CONNECT'` handed over in its place)
    margs = set()
    for n in ast.walk(fi.node):
        if isinstance(n, ast.Call) and isinstance(n.func, ast.Name) and \
                n.func.id == '_check_pseudo_header_field_acceptability' and \
                len(n.args) >= 2:
            nm = {x.id for x in ast.walk(n.args[1])
                  if isinstance(x, ast.Name)}
            margs.add(nm.pop() if len(nm) == 1 else None)
    mvar = margs.pop() if len(margs) == 1 else None
    meth = cm.Every()
    for p in paths:
        inl = [cm.show0(e.cond) for e in p.events
               if e.kind == 'assume' and e.in_loop]
        if p.exit == 'raise' or not any(
                ":method'" in c and not c.startswith('not') for c in inl):
            continue
        v = p.state.env.get(mvar) if mvar else None
        s = cm.show0(v) if v is not None else None
        if s == V1:
            meth('not isinstance(%s, bytes)' % V1 not in inl)
        else:
            meth(s in (".encode(%s, 'utf-8')" % V1,
                       ".encode(%s, 'ascii')" % V1, ".encode(%s)" % V1))
    fin_ok = fin_ok and bool(meth)
    ctx.ob('ORD.clause', fi.qual, 'bookkeeping of seen fields', add_ok and
           flag_ok and fin_ok, 'names added to the set that is tested; '
           'the :method value kept (as bytes) for the block-type check; '
           'regular fields set the flag; the block-type check runs at the '
           'end with the collected set', node=fi.node)
    # block-type rules
    f2 = eng.m.func(U + '_check_pseudo_header_field_acceptability')
    paths = eng.I.run(f2)
    clauses = {'trailer': False, 'status': False, 'req-in-resp': False,
               'path': False, 'method': False, 'scheme': False,
               'resp-in-req': False, 'connect': False}
    RESP = 'hdr_validation_flags.is_response_header'
    TRAIL = 'hdr_validation_flags.is_trailer'

    def unconditional(cs, block_type):
        # a mandatory field is demanded of every block of its type: besides
        # the block-type tests only the outcome of the other mandatory-field
        # tests may have been assumed on the way
        def flag_test(c):
            c = c[4:] if c.startswith('not ') else c
            return c in (RESP, TRAIL, 'pseudo_headers')
        return all(c in block_type or flag_test(c) or
                   c.endswith('in pseudo_headers)') for c in cs)
    for p in paths:
        conds = [cm.show0(e.cond) for e in p.events if e.kind == 'assume']
        r = cm.explicit_raise(p)
        via = p.exc.get('via_call') if p.exit == 'raise' else None
        if r is not None:
            last = conds[-1]
            if TRAIL in conds and last == 'pseudo_headers':
                clauses['trailer'] = True
            if RESP in conds and '_REQUEST_ONLY_HEADERS' in last:
                clauses['req-in-resp'] = True
            if 'not ' + RESP in conds and 'not ' + TRAIL in conds:
                if '_RESPONSE_ONLY_HEADERS' in last:
                    clauses['resp-in-req'] = True
                if '_CONNECT_REQUEST_ONLY_HEADERS' in last and (any(
                        _raw_not_connect(e.cond) for e in p.events
                        if e.kind == 'assume') or any(
                        c.startswith('not ') and c[4:] in f2.params and
                        _flag_is_connect(eng, f2, c[4:]) for c in conds)):
                    clauses['connect'] = True
            # the required-field test written out at the use site: refusal
            # when neither spelling of the name is in the set
            for k, nm in (('status', ':status'), ('path', ':path'),
                          ('method', ':method'), ('scheme', ':scheme')):
                miss = {'not (%r in pseudo_headers)' % nm,
                        'not (%r in pseudo_headers)' % nm.encode()}
                if miss == set(conds[-2:]):
                    if k == 'status' and RESP in conds and \
                            unconditional(conds[:-2], {RESP}):
                        clauses[k] = True
                    if k != 'status' and 'not ' + RESP in conds and \
                            'not ' + TRAIL in conds and unconditional(
                                conds[:-2], {'not ' + RESP, 'not ' + TRAIL}):
                        clauses[k] = True
        elif via is not None and cm.is_call_to(via, '_assert_header_in_set'):
            a = [cm.show0(x) for x in via.args]
            for k, nm in (('status', ':status'), ('path', ':path'),
                          ('method', ':method'), ('scheme', ':scheme')):
                if a[:2] == [repr(nm), repr(nm.encode())] and \
                        a[2] == 'pseudo_headers':
                    if k == 'status' and RESP in conds and \
                            unconditional(conds, {RESP}):
                        clauses[k] = True
                    if k != 'status' and 'not ' + RESP in conds and \
                            'not ' + TRAIL in conds and unconditional(
                                conds, {'not ' + RESP, 'not ' + TRAIL}):
                        clauses[k] = True
    ctx.ob('ORD.clause', f2.qual, 'pseudo-headers fit the block type',
           all(clauses.values()), 'trailers: none; responses: :status and no '
           'request pseudo-headers; requests: :path, :method, :scheme, no '
           ':status, :protocol only with CONNECT (clauses found: %s)'
           % {k: v for k, v in clauses.items()}, node=f2.node)
    try:
        f3 = eng.m.func(U + '_assert_header_in_set')
    except AnalysisError:
        # written out at its use sites; the clauses above have read the test
        # there (and only count a clause when they found it)
        ctx.note('_assert_header_in_set not present; required-field tests '
                 'read at the use sites')
        return
    ok = cm.Every()
    for p in eng.I.run(f3):
        if cm.explicit_raise(p) is not None and \
                p.exc['names'] == {'ProtocolError'}:
            conds = [cm.show0(e.cond) for e in p.events
                     if e.kind == 'assume']
            ok(set(conds) == {'not (string_header in header_set)',
                              'not (bytes_header in header_set)'})
        elif p.exit in ('return', 'fall'):
            conds = {cm.show0(e.cond) for e in p.events
                     if e.kind == 'assume'}
            ok(not {'not (string_header in header_set)',
                    'not (bytes_header in header_set)'} <= conds)
    ctx.ob('ORD.clause', f3.qual, 'required field missing => refusal', ok,
           'ProtocolError iff neither spelling is in the set', node=f3.node)


def _raw_not_connect(cond):
    """`<parameter> != b'CONNECT'` on the method as it is (the method token
    is case-sensitive: no .upper()/.lower()/.strip() in between)."""
    neg = False
    c = cond
    while c[0] == 'not':
        neg = not neg
        c = c[1]
    if c[0] not in ('eq', 'ne'):
        return False
    if (c[0] == 'ne') == neg:
        return False        # this literal says "is CONNECT"
    a, b = c[1], c[2]
    for x, y in ((a, b), (b, a)):
        if x[0] == 'p' and y == T.C(b'CONNECT'):
            return True
    return False


def _flag_is_connect(eng, fi, pname):
    """Every call of fi passes `<method> == b'CONNECT'` for the flag."""
    idx = fi.params.index(pname)
    n = 0
    for g in eng.m.funcs.values():
        for c in ast.walk(g.node):
            if not (isinstance(c, ast.Call) and
                    isinstance(c.func, ast.Name) and c.func.id == fi.name and
                    getattr(c, '_func', None) is g):
                continue
            n += 1
            a = c.args[idx] if idx < len(c.args) else None
            for k in c.keywords:
                if k.arg == pname:
                    a = k.value
            if not (isinstance(a, ast.Compare) and len(a.ops) == 1 and
                    isinstance(a.ops[0], ast.Eq) and any(
                        isinstance(x, ast.Constant) and x.value == b'CONNECT'
                        for x in [a.left] + a.comparators)):
                return False
    return n > 0


def _is_seen_set(fi, p, term):
    """term is the set the stage adds every pseudo-header name to (the
    receiver of the .add(header[0]) call on this path or in this stage)."""
    for e in p.events:
        if e.kind == 'call' and cm.ev_callee_names(e) & {'add'} and \
                e.get('recv') == term:
            return True
    # the duplicate test precedes the add on the raising path: compare with
    # the receiver used on the accepting paths of the same stage
    for nd in ast.walk(fi.node):
        if isinstance(nd, ast.Call) and isinstance(nd.func, ast.Attribute) \
                and nd.func.attr == 'add' and \
                isinstance(nd.func.value, ast.Name):
            name = nd.func.value.id
            for c in ast.walk(fi.node):
                if isinstance(c, ast.Compare) and \
                        isinstance(c.ops[0], ast.In) and \
                        isinstance(c.comparators[0], ast.Name) and \
                        c.comparators[0].id == name:
                    return True
    return False


def flags_builder(eng):
    """The one function that constructs HeaderValidationFlags (a method of
    H2Stream in the pinned tree; a module-level function taking the client
    flag as an argument does as well)."""
    cands = [fi for fi in eng.m.funcs.values() if any(
        isinstance(n, ast.Call) and isinstance(n.func, ast.Name) and
        n.func.id == 'HeaderValidationFlags' and
        getattr(n, '_func', None) is fi for n in ast.walk(fi.node))]
    if len(cands) == 1:
        return cands[0]
    return eng.m.func('stream.H2Stream._build_hdr_validation_flags',
                      required=not cands)


def flags_builders(eng):
    """All functions that construct the flags (several when a new helper
    doing it was inlined into its callers by the normaliser)."""
    return [fi for fi in eng.m.funcs.values() if any(
        isinstance(n, ast.Call) and isinstance(n.func, ast.Name) and
        n.func.id == 'HeaderValidationFlags' and
        getattr(n, '_func', None) is fi for n in ast.walk(fi.node))]


def flags_on_path(eng, p):
    """[(the event list the flags were derived from, the flags object)] for
    every construction of validation flags on the path: a call of the
    builder, or the constructor itself."""
    out = []
    names = {fi.name for fi in flags_builders(eng)}
    for e in p.events:
        if e.kind == 'new' and e.cls == 'namedtuple' and \
                'is_trailer' in (e.get('kwargs') or {}):
            t = e.kwargs['is_trailer']
            if t[0] == 'isinstance' and t[1][0] == 'sub':
                out.append((t[1][1], e.obj))
        elif names and is_builder_call(e, names) and e.d.get('args'):
            a0 = e.args[0]
            if a0[0] == 'sub' and a0[2] == T.C(0):
                a0 = a0[1]      # handed the first event: events[0]
            out.append((a0, e.get('result')))
    return out


def is_builder_call(e, names):
    return cm.is_call_to(e, *sorted(names))


def _first_event_arg_ok(eng, fi, pname):
    """Every call of the flags builder passes `<list>[0]` for `pname`."""
    idx = fi.params.index(pname) - (1 if fi.params[:1] == ['self'] else 0)
    n = 0
    for g in eng.m.funcs.values():
        for c in ast.walk(g.node):
            if not (isinstance(c, ast.Call) and
                    getattr(c, '_func', None) is g):
                continue
            f = c.func
            nm = f.id if isinstance(f, ast.Name) else (
                f.attr if isinstance(f, ast.Attribute) else None)
            if nm != fi.name:
                continue
            n += 1
            a = c.args[idx] if idx < len(c.args) else None
            for k in c.keywords:
                if k.arg == pname:
                    a = k.value
            if not (isinstance(a, ast.Subscript) and
                    isinstance(a.slice, ast.Constant) and
                    a.slice.value == 0):
                return False
    return n > 0


def _client_arg_ok(eng, fi, pname):
    """Every call of the flags builder passes the stream machine's client
    flag for the parameter `pname`."""
    idx = fi.params.index(pname) - (1 if fi.params[:1] == ['self'] else 0)
    n = 0
    for g in eng.m.funcs.values():
        for c in ast.walk(g.node):
            if not (isinstance(c, ast.Call) and
                    getattr(c, '_func', None) is g):
                continue
            f = c.func
            nm = f.id if isinstance(f, ast.Name) else (
                f.attr if isinstance(f, ast.Attribute) else None)
            if nm != fi.name:
                continue
            n += 1
            a = c.args[idx] if idx < len(c.args) else None
            for k in c.keywords:
                if k.arg == pname:
                    a = k.value
            if a is None or ast.unparse(a) != 'self.state_machine.client':
                return False
    return n > 0


def check_flags(ctx, eng):
    fis = flags_builders(eng)
    if not fis:
        fis = [eng.m.func('stream.H2Stream._build_hdr_validation_flags')]
    for fi in fis:
        _check_flags_in(ctx, eng, fi)


def _check_flags_in(ctx, eng, fi):
    want = {
        'is_trailer': {'_TrailersSent', 'TrailersReceived'},
        'is_response_header': {'_ResponseSent', 'ResponseReceived',
                               'InformationalResponseReceived'},
        'is_push_promise': {'PushedStreamReceived', '_PushedRequestSent'},
    }
    ok = None
    detail = ''
    for p in cm.normal_paths(eng.I.run(fi)):
        v = p.value
        kw = None
        for e in p.events:
            if e.kind == 'new' and e.cls == 'namedtuple' and \
                    'is_trailer' in (e.get('kwargs') or {}):
                kw = e.kwargs
        if kw is None:
            continue
        good = True
        # the subject is element 0 of the event list: the builder's
        # parameter, or (built in place) what the state step returned
        steps = [e.get('result') for _, e, _ in cm.process_inputs(p)]
        for k, classes in want.items():
            t = kw.get(k)
            subj_ok = bool(t) and t[0] == 'isinstance' and (
                (t[1][0] == 'sub' and t[1][2] == T.C(0) and
                 (t[1][1][0] == 'p' or t[1][1] in steps)) or
                # the builder is handed the first event itself
                (t[1][0] == 'p' and t[1][1] in fi.params and
                 _first_event_arg_ok(eng, fi, t[1][1])))
            if not (subj_ok and set(t[2]) == classes):
                good = False
                detail = '%s is %s' % (k, cm.show0(t) if t else None)
        ic = kw.get('is_client', T.NONE)
        if cm.show0(ic) == 'self.state_machine.client':
            pass
        elif ic[0] == 'p' and ic[1] in fi.params and \
                _client_arg_ok(eng, fi, ic[1]):
            pass        # handed in by every caller
        else:
            good = False
            detail = 'is_client'
        ok = good if ok is None else (ok and good)
    ctx.ob('FLOW.flags', fi.qual, 'validation flags from the state step',
           bool(ok), 'is_trailer / is_response_header / is_push_promise from the '
           'class of the event the machine returned; is_client from the '
           'machine %s' % detail, node=fi.node)
