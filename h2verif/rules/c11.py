"""C11 - settings take effect exactly when acknowledged, one frame per ACK.

Decides: the order update -> RemoteSettingsChanged (built from the
pre-acknowledge values) -> acknowledge in _receive_settings_frame, one ACK
frame on the non-ACK path and none on the ACK path, one SettingsAcknowledged
carrying what _local_settings_acked returned; the apply-maps of the two
acknowledge handlers (every cached copy refreshed from new_value, each code
decided independently of the others, every stream reached); update_settings
validates everything before queuing anything and emits exactly new_settings;
the queue discipline of Settings; and whether a frame boundary survives from
update_settings to acknowledge().
"""
import ast

from .. import terms as T
from . import budget
from . import common as cm

H = 'connection.H2Connection.'

# code -> list of (owner chain, attribute) that must be set to new_value
REMOTE_APPLY = {
    'HEADER_TABLE_SIZE': [('self.encoder', 'header_table_size')],
    'MAX_FRAME_SIZE': [('self', 'max_outbound_frame_size'),
                       ('<each stream>', 'max_outbound_frame_size')],
    'INITIAL_WINDOW_SIZE': [('call', '_flow_control_change_from_settings')],
}
LOCAL_APPLY = {
    'MAX_HEADER_LIST_SIZE': [('self.decoder', 'max_header_list_size')],
    'MAX_FRAME_SIZE': [('self', 'max_inbound_frame_size'),
                       ('self.incoming_buffer', 'max_frame_size')],
    'HEADER_TABLE_SIZE': [('self.decoder', 'max_allowed_table_size')],
    'INITIAL_WINDOW_SIZE': [('call',
                             '_inbound_flow_control_change_from_settings')],
}


def code_facts(path):
    """code name -> True/False for every test "is CODE among the changes"
    decided on the path, however it is spelt: `CODE in changes`, or
    `changes.get(CODE)` compared with None / tested for truth."""
    out = {}
    for e in path.events:
        if e.kind != 'assume':
            continue
        c, neg = (e.cond[1], True) if e.cond[0] == 'not' \
            else (e.cond, False)
        if c[0] == 'in' and cm.enum_name(c[1]):
            out[cm.enum_name(c[1])] = not neg
            continue
        g = None
        present_when = True
        if c[0] == 'is' and T.NONE in (c[1], c[2]):
            g = c[2] if c[1] == T.NONE else c[1]
            present_when = False            # `x is None` true => absent
        elif c[0] == 'truth':
            g = c[1]
        if g is not None and g[0] == 'call' and g[1].endswith('.get') and \
                len(g[2]) >= 2 and cm.enum_name(g[2][1]):
            truth = not neg
            out[cm.enum_name(g[2][1])] = truth if present_when else not truth
    return out


def handler_paths(eng, side):
    """Normally returning paths of the SETTINGS handler for one kind of
    frame - 'local': an ACK of our settings, 'remote': the peer's settings -
    with both acknowledge helpers taken in (read through the call)."""
    fh = eng.m.func(H + '_receive_settings_frame')
    allp = cm.normal_paths(eng.interp(
        {H + '_local_settings_acked', H + '_acknowledge_settings'},
        depth=2).run(fh))
    want_ack = side == 'local'
    return [p for p in allp if cm.fact_polarity(
        p, ('in', T.C('ACK'), ('a', ('p', 'frame'), 'flags', 0))) is
        want_ack]


def check_apply(ctx, eng, qual, table, side):
    fi = eng.m.func(qual)
    # read through the call: the SETTINGS handler's paths of the matching
    # kind (ACK received for the local side, settings received for the remote
    # side) with both acknowledge helpers taken in
    fh = eng.m.func(H + '_receive_settings_frame')
    allp = cm.normal_paths(eng.interp(
        {H + '_local_settings_acked', H + '_acknowledge_settings'},
        depth=2).run(fh))
    want_ack = side == 'local'
    paths = [p for p in allp if cm.fact_polarity(
        p, ('in', T.C('ACK'), ('a', ('p', 'frame'), 'flags', 0))) is
        want_ack]
    own_frames = {fi.qual, fh.qual}
    bads = {k: [] for k in table}
    seen = {k: False for k in table}
    for p in paths:
        facts = code_facts(p)
        for code in table:
            if code not in facts:
                bads[code].append(
                    'a path does not decide %s (the codes must be handled '
                    'independently of each other)' % code)
        for code, targets in table.items():
            bad = bads[code]
            if not facts.get(code):
                continue
            seen[code] = True
            for owner, attr in targets:
                if owner == 'call':
                    # (the callee is an anchor: gone = cannot decide)
                    eng.m.func('connection.H2Connection.' + attr)
                    cs = cm.calls_to(p, attr)
                    a = [cm.show0(x) for x in cs[0].args] if cs else []
                    if len(a) != 2 or not a[0].endswith('.original_value') \
                            or not a[1].endswith('.new_value') or \
                            cm.enum_name(_changes_key(cs[0].args[0])) != code:
                        bad.append('%s(original_value, new_value) of '
                                   'that change expected' % attr)
                    continue
                ws = [e for e in p.events if e.kind == 'write' and
                      e.attr == attr and e.frame in own_frames]
                if owner == '<each stream>':
                    ws = [e for e in ws if e.in_loop]
                    loop_events = [e for e in p.events if e.in_loop]
                    its = [e for e in p.events if e.kind == 'iter']
                    if not its:
                        bad.append('no loop over the streams')
                        continue
                    if not any(e.kind == 'endloop' for e in p.events):
                        continue        # zero-iteration path (a loop
                        #                 whose body does nothing is not one)
                    if any(e.kind == 'assume' for e in loop_events):
                        bad.append('some streams keep the stale %s' % attr)
                    it = its[-1].iterable
                    if not (it[0] == 'call' and it[1].endswith('.values')
                            and cm.attr_chain(it[2][0]) == 'self.streams'):
                        bad.append('loop is not over self.streams')
                else:
                    ws = [e for e in ws if not e.in_loop and
                          cm.attr_chain(e.base) == owner]
                if not ws:
                    bad.append('%s.%s is not refreshed' % (owner, attr))
                    continue
                v = ws[-1].value
                if not (v[0] == 'a' and v[2] == 'new_value' and
                        cm.enum_name(_changes_key(v)) == code):
                    bad.append('%s.%s set to %s, expected that '
                               'change\'s new_value' % (owner, attr,
                                                        cm.show0(v)))
    for code in sorted(table):
        bad = bads[code]
        if not seen[code]:
            bad.append('never applied')
        ctx.ob('COH.apply-map', fi.qual, '%s %s applied at acknowledge'
               % (side, code), not bad, '; '.join(sorted(set(bad))) or
               'every cached copy (%s) is refreshed from new_value, '
               'independently of the other codes' % ', '.join(
                   '%s.%s' % t for t in table[code]), node=fi.node)
    # changes come from the right Settings object and are returned/used
    src = 'self.remote_settings' if side == 'remote' else \
        'self.local_settings'
    ok = all(any(cm.is_call_to(e, 'acknowledge') and
                 cm.attr_chain(e.recv) == src for e in p.events)
             for p in paths) and bool(paths)
    ctx.ob('FLOW.ack-source', fi.qual, 'changes of the %s settings' % side,
           ok, '%s.acknowledge()' % src, node=fi.node)
    return paths


def _changes_key(term):
    """for changes[K].x or changes.get(K).x return K"""
    t = term
    while t is not None and t[0] == 'a':
        t = t[1]
    if t is not None and t[0] == 'sub':
        return t[2]
    if t is not None and t[0] == 'call' and t[1].endswith('.get') and \
            len(t[2]) >= 2:
        return t[2][1]
    return None


def run(ctx, eng):
    ctx.rule('ORD: handler order; COH/TAB: apply-maps of both acknowledge '
             'handlers, per code and per stream; ATOM(SET): validate all '
             'before queuing any; FLOW: emitted settings; ARITH/FLOW: queue '
             'discipline of Settings; OWN: frame boundary information')
    m = eng.m
    # ---- (a) _receive_settings_frame
    fi = m.func(H + '_receive_settings_frame')
    # read through the calls: the two acknowledge helpers are taken into the
    # handler's paths, so that the clauses speak of what happens (which
    # Settings object is acknowledged, what the event carries, which frame is
    # returned) and not of which side of a call does it
    helpers = {H + '_local_settings_acked', H + '_acknowledge_settings'}
    paths = eng.interp(helpers, depth=2).run(fi)
    bad = []
    kinds = set()
    n_ackframe = 0

    def acks(p, which):
        return [e for e in p.events if cm.is_call_to(e, 'acknowledge') and
                cm.attr_chain(e.get('recv')) == 'self.%s_settings' % which]
    for p in cm.normal_paths(paths):
        ack = cm.fact_polarity(p, ('in', T.C('ACK'),
                                   ('a', ('p', 'frame'), 'flags', 0)))
        if ack is None:
            bad.append('a path does not test the ACK flag')
            continue
        v = p.value
        if not (v and v[0] == 'tuple' and len(v[1]) == 2):
            bad.append('does not return (frames, events)')
            continue
        steps = [s for s, _, _ in cm.process_inputs(p)]
        if ack:
            kinds.add('ack')
            la = acks(p, 'local')
            evs = [e for e in p.events if e.kind == 'new' and
                   e.cls == 'SettingsAcknowledged']
            if len(la) != 1 or len(evs) != 1:
                bad.append('ACK path: one local_settings.acknowledge() and '
                           'one SettingsAcknowledged expected')
                continue
            f = p.state.objs.get(evs[0].obj, {})
            if f.get('changed_settings') != la[0].result:
                bad.append('SettingsAcknowledged does not carry what '
                           'local_settings.acknowledge() returned')
            if cm.list_elems(p, v[1][0]) != ():
                bad.append('an ACK is answered with frames')
            if acks(p, 'remote') or [
                    e for e in p.events if e.kind == 'call' and
                    cm.ev_callee_names(e) & {'update'} and
                    cm.attr_chain(e.recv) == 'self.remote_settings']:
                bad.append('ACK path touches the remote settings')
            if steps != ['RECV_SETTINGS']:
                bad.append('connection input %s on the ACK path' % steps)
        else:
            kinds.add('settings')
            up = [e for e in p.events if e.kind == 'call' and
                  cm.ev_callee_names(e) & {'update'} and
                  cm.attr_chain(e.recv) == 'self.remote_settings']
            fs = cm.calls_to(p, 'from_settings')
            ak = acks(p, 'remote')
            if len(up) != 1 or len(fs) != 1 or len(ak) != 1:
                bad.append('non-ACK path: one update, one '
                           'RemoteSettingsChanged and one acknowledge '
                           'expected')
                continue
            if cm.attr_chain(up[0].args[0]) != 'frame.settings':
                bad.append('remote settings not updated with frame.settings')
            if not (p.index(up[0]) < p.index(fs[0]) < p.index(ak[0])):
                bad.append('order must be update -> RemoteSettingsChanged '
                           '-> acknowledge (the event is built from the '
                           'values in force before the acknowledge)')
            a = [cm.attr_chain(x) for x in fs[0].args]
            if a != ['self.remote_settings', 'frame.settings']:
                bad.append('RemoteSettingsChanged.from_settings(remote '
                           'settings, frame.settings) expected')
            el = cm.list_elems(p, v[1][0])
            if el is None or len(el) != 1 or el[0][0] != 'obj' or \
                    el[0][2] != 'SettingsFrame':
                bad.append('the frames returned must be exactly one SETTINGS '
                           'frame')
            else:
                n_ackframe += 1
                f = p.state.objs.get(el[0], {})
                if f.get('flags') != ('set', frozenset([T.C('ACK')])) or \
                        f.get('settings') not in (None, T.NONE):
                    bad.append('the returned frame must be an empty ACK')
            if acks(p, 'local'):
                bad.append('non-ACK path acknowledges local settings')
            if steps != ['RECV_SETTINGS', 'SEND_SETTINGS']:
                bad.append('connection inputs %s, expected RECV_SETTINGS '
                           'then SEND_SETTINGS' % steps)
    ctx.ob('ORD.settings', fi.qual, 'apply, report, acknowledge', kinds ==
           {'ack', 'settings'} and not bad, '; '.join(sorted(set(bad))) or
           'ok', node=fi.node)
    f2 = m.func(H + '_acknowledge_settings')
    ctx.ob('FLOW.ack-frame', f2.qual, 'exactly one empty SETTINGS ACK',
           n_ackframe > 0 and not [b for b in bad if 'frame' in b],
           'every non-ACK path returns [SettingsFrame(0){ACK}] after '
           'SEND_SETTINGS', node=f2.node)
    # ---- (b) apply maps
    check_apply(ctx, eng, H + '_acknowledge_settings', REMOTE_APPLY, 'remote')
    lp = check_apply(ctx, eng, H + '_local_settings_acked', LOCAL_APPLY,
                     'local')
    # (that what is acknowledged reaches the SettingsAcknowledged event is
    # part of ORD.settings above)
    ctx.ob('FLOW.ack-source', H + '_local_settings_acked',
           'returns the acknowledged changes', bool(lp),
           '%d ACK paths of the SETTINGS handler acknowledge the local '
           'settings' % len(lp))
    # ---- (c) update_settings
    f3 = m.func(H + 'update_settings')
    paths = eng.I.run(f3)
    bad = []
    n = 0
    for p in cm.normal_paths(paths):
        up = [e for e in p.events if e.kind == 'call' and
              cm.ev_callee_names(e) & {'update'} and
              cm.attr_chain(e.recv) == 'self.local_settings']
        if len(up) != 1 or up[0].args[0] != ('p', 'new_settings'):
            bad.append('local settings not updated with new_settings once')
            continue
        n += 1
        frames = [e for e in p.events if e.kind == 'new' and
                  e.cls == 'SettingsFrame']
        if len(frames) != 1:
            bad.append('one SETTINGS frame expected')
        else:
            f = p.state.objs.get(frames[0].obj, {})
            if f.get('settings') != ('p', 'new_settings') or \
                    f.get('flags') != ('set', frozenset()) or \
                    f.get('stream_id') != T.C(0):
                bad.append('the frame must carry exactly new_settings, no '
                           'ACK')
        if [s for s, _, _ in cm.process_inputs(p)] != ['SEND_SETTINGS']:
            bad.append('connection input')
        # validation of every value before the update
        i = p.index(up[0])
        its = [e for e in p.events[:i] if e.kind == 'iter']
        vals = [e for e in p.events[:i] if
                cm.is_call_to(e, '_validate_setting') and e.in_loop]
        looped = any(e.in_loop for e in p.events[:i])
        if not its or not (its[0].iterable[0] == 'call' and
                           its[0].iterable[1].endswith('items') and
                           its[0].iterable[2][0] == ('p', 'new_settings')):
            bad.append('values are queued without all of them having been '
                       'validated first')
        elif looped and not vals:
            bad.append('the validation loop does not validate')
        elif looped:
            # each value's verdict is looked at inside its own iteration
            res = vals[0].get('result')
            tested = any(e.kind == 'assume' and e.in_loop and res is not None
                         and res in cm._subterms(e.cond)
                         for e in p.events[:i])
            if not tested:
                bad.append('the verdict of _validate_setting is not tested '
                           'for every value (only after the loop, or not at '
                           'all)')
    # the validation loop raises on a code
    raised = any(cm.explicit_raise(p) is not None and
                 cm.explicit_raise(p).in_loop and
                 p.exc['names'] == {'InvalidSettingsValueError'} and
                 not [e for e in p.events if e.kind == 'call' and
                      cm.ev_callee_names(e) & {'update'}]
                 for p in paths)
    ctx.ob('ATOM.SET', f3.qual, 'all values validated before any is queued',
           n > 0 and raised and not bad, '; '.join(sorted(set(bad))) or
           'for every (setting, value): _validate_setting, raise on a code; '
           'only then local_settings.update(new_settings)', node=f3.node)
    # raises after the update
    late = {}
    for p in cm.raise_paths(paths):
        ups = [e for e in p.events if e.kind == 'call' and
               cm.ev_callee_names(e) & {'update'}]
        if not ups:
            continue
        via = p.exc.get('via_call')
        if via is ups[0]:
            continue        # same values already validated above
        what = 'explicit raise' if via is None else '/'.join(
            sorted(cm.ev_callee_names(via)))
        late[what] = p
    for what, p in sorted(late.items()):
        ctx.ob('ATOM.SET', f3.qual, 'raise after queuing|%s' % what, False,
               'update_settings can raise %s after the values were queued'
               % sorted(p.exc['names']), node=p.exc['node'])
    sites, hok, why = budget.emit_sites(eng)
    for (q, ln), s in sites.items():
        if q == f3.qual:
            for desc, ok, reason in sorted(s['frames']):
                ctx.ob('ATOM.SET', q, 'post-append assertion|%s' % desc, ok,
                       ('%s: %s' % (desc, reason)) if ok else
                       'the SETTINGS frame is checked against the frame-size '
                       'limit only by an assertion after the values were '
                       'queued and the bytes appended: %s' % reason,
                       node=s['node'])
    # ---- (f) queue discipline
    f4 = m.func('settings.Settings.__getitem__')
    ok = cm.Every()
    for p in eng.I.run(f4):
        if p.exit == 'return':
            v = p.value
            ok(bool(v) and v[0] == 'sub' and v[2] == T.C(0) and
               v[1][0] == 'sub' and v[1][2] == ('p', 'key') and
               cm.attr_chain(v[1][1]) == 'self._settings')
    ctx.ob('FLOW.queue', f4.qual, 'reads the acknowledged (first) value',
           ok, 'self._settings[key][0]', node=f4.node)
    # every named accessor reads through that: the value in force is the
    # acknowledged one for enable_push, initial_window_size ... as well, and
    # iterating the settings yields every key that is set (what fills the
    # SETTINGS frame and the HTTP2-Settings header), known or not
    for nm, code in (('header_table_size', 'HEADER_TABLE_SIZE'),
                     ('enable_push', 'ENABLE_PUSH'),
                     ('initial_window_size', 'INITIAL_WINDOW_SIZE'),
                     ('max_frame_size', 'MAX_FRAME_SIZE'),
                     ('max_concurrent_streams', 'MAX_CONCURRENT_STREAMS'),
                     ('max_header_list_size', 'MAX_HEADER_LIST_SIZE'),
                     ('enable_connect_protocol', 'ENABLE_CONNECT_PROTOCOL')):
        fg = m.func('settings.Settings.' + nm, required=False)
        if fg is None:
            continue
        okg = cm.Every()
        for p in eng.I.run(fg):
            if p.exit != 'return':
                continue
            v = p.value
            okg(v is not None and (
                (v[0] == 'sub' and v[1] == ('p', 'self') and
                 cm.enum_name(v[2]) == code) or
                (v[0] == 'call' and v[1].endswith('.get') and
                 len(v[2]) >= 2 and v[2][0] == ('p', 'self') and
                 cm.enum_name(v[2][1]) == code)))
        ctx.ob('FLOW.queue', fg.qual, 'reads through the mapping', okg,
               'self[%s] or self.get(%s, default): the acknowledged value'
               % (code, code), node=fg.node)
    fit = m.func('settings.Settings.__iter__')
    okg = cm.Every()
    for p in eng.I.run(fit):
        if p.exit == 'return':
            v = p.value
            okg(v is not None and v[0] == 'call' and
                v[1] in ('.__iter__', 'iter') and
                cm.attr_chain(v[2][0]) == 'self._settings')
    ctx.ob('FLOW.queue', fit.qual, 'iterates every key that is set', okg,
           'iter(self._settings)', node=fit.node)
    none_is_absent = any(
        cm.explicit_raise(p) is not None and p.exc['names'] == {'KeyError'}
        and any(e.kind == 'assume' and e.cond[0] == 'is' and
                e.cond[2] == T.NONE for e in p.events)
        for p in eng.I.run(f4))
    ctx.ob('FLOW.queue', f4.qual, 'pending unknown identifiers read as '
           'absent', none_is_absent, 'raise KeyError while the first '
           'element is the None placeholder', node=f4.node)
    # pending values become current when the peer says so and at no other
    # time: the two acknowledge handlers are reached from the SETTINGS
    # handler only (the h2c upgrade goes through it as well)
    for hname in ('_local_settings_acked', '_acknowledge_settings'):
        callers = sorted({f.qual.split('.')[-1] for f, _ in
                          cm.find_funcs_calling(eng, hname)})
        ctx.ob('OWN.ack-caller', H + hname, 'called from the SETTINGS '
               'handler only', callers == ['_receive_settings_frame'],
               'callers: %s' % callers)
    # the queues are unbounded: any number of SETTINGS frames may be in
    # flight, and a bounded deque would silently drop the value in force
    import ast as _ast
    bounded = []
    smod = m.modules['settings']
    for nd in _ast.walk(smod.tree):
        if isinstance(nd, _ast.Call) and (
                (isinstance(nd.func, _ast.Attribute) and
                 nd.func.attr == 'deque') or
                (isinstance(nd.func, _ast.Name) and nd.func.id == 'deque')):
            if len(nd.args) > 1 or any(k.arg == 'maxlen' and not (
                    isinstance(k.value, _ast.Constant) and
                    k.value.value is None) for k in nd.keywords):
                bounded.append(nd)
    ctx.ob('FLOW.queue', 'settings.Settings._settings', 'queues are '
           'unbounded', not bounded, 'no deque(..., maxlen=n) in settings.py'
           if not bounded else 'a pending-value queue is built with a '
           'maximum length', node=bounded[0] if bounded else None)
    f5 = m.func('settings.Settings.__setitem__')
    bad = []
    n = 0
    for p in cm.normal_paths(eng.I.run(f5)):
        n += 1
        aps = [e for e in p.events if e.kind == 'call' and
               cm.ev_callee_names(e) & {'append'} and e.frame == f5.qual]
        if len(aps) != 1 or aps[0].args[0] != ('p', 'value'):
            bad.append('a path does not append the value at the end of '
                       'the key\'s queue (every accepted value must be '
                       'queued, even one equal to the current value)')
            continue
        # (every normally returning path appends: no condition can skip
        # it.)  A key seen for the first time - KeyError handler or a
        # failed membership test - starts its queue with the None marker
        new_q = any(e.kind == 'catch' and 'KeyError' in e.names
                    for e in p.events) or any(
            e.kind == 'assume' and e.cond[0] == 'not' and
            e.cond[1][0] == 'in' and e.cond[1][1] == ('p', 'key') and
            cm.attr_chain(e.cond[1][2]) == 'self._settings'
            for e in p.events)
        if new_q:
            st = [e for e in p.events if e.kind == 'store' and
                  cm.store_base_attr(e) == '_settings']
            el = None
            if st:
                v = st[0].value
                el = cm.list_elems(p, v[2][-1]) if (
                    v[0] == 'call' and v[2]) else None
            if el != (T.NONE,):
                bad.append('a new identifier must start as deque([None])')
    ctx.ob('FLOW.queue', f5.qual, 'appends at the end of the queue',
           n > 0 and not bad, '; '.join(sorted(set(bad))) or 'ok',
           node=f5.node)
    f6 = m.func('settings.Settings.acknowledge')
    bad = []
    n = 0
    for p in cm.normal_paths(eng.I.run(f6)):
        body = [e for e in p.events if e.in_loop]
        if not body:
            continue
        pops = [e for e in body if e.kind == 'call' and
                cm.ev_callee_names(e) & {'popleft'}]
        guard = [cm.aff_key(e.cond) for e in body if e.kind == 'assume']
        long_q = any(k and k[0] == '>' and k[2] == -1 and
                     len(k[1]) == 1 and list(k[1])[0][0].startswith('len(')
                     for k in guard)
        if long_q:
            n += 1
            if len(pops) != 1:
                bad.append('exactly one element must be removed per queue')
            cs = [e for e in body if e.kind == 'new' and
                  e.cls == 'ChangedSetting']
            if len(cs) != 1:
                bad.append('one ChangedSetting per changed key')
            else:
                a = cs[0].args
                if not (len(a) == 3 and pops and a[1] == pops[0].result and
                        a[2][0] == 'sub' and a[2][2] == T.C(0) and
                        a[2][1] == pops[0].recv):
                    bad.append('ChangedSetting(key, removed value, new first '
                               'value) expected')
        elif pops:
            bad.append('an element is removed from a queue without pending '
                       'values')
    ctx.ob('FLOW.queue', f6.qual, 'one step per key per acknowledge', n > 0
           and not bad, '; '.join(sorted(set(bad))) or 'ok', node=f6.node)
    # ---- (e) frame boundary information
    W = eng.I.writes
    w_update = {a for a in W.attrs(f5.qual)} | {
        a for a in W.attrs(f3.qual) if a.startswith('_pending') or
        'batch' in a or 'frames' in a}
    reads_ack = set()
    for nd in ast.walk(f6.node):
        if isinstance(nd, ast.Attribute) and isinstance(nd.ctx, ast.Load) \
                and isinstance(nd.value, ast.Name) and nd.value.id == 'self':
            reads_ack.add(nd.attr)
    carrier = (w_update & reads_ack) - {'_settings'}
    ctx.ob('OWN.ack-matching', f6.qual, 'no per-frame record', bool(carrier),
           'acknowledge() sees only one queue per key (%s): nothing written '
           'per update_settings call tells it where one SETTINGS frame ends, '
           'so `update({A}); update({B}); ACK` applies both changes and the '
           'ACK of the initial frame applies a later update'
           % sorted(reads_ack), node=f6.node)
    ctx.assume('the full ordering semantics over histories beyond these '
               'clauses are not decided')
    cm.include(ctx, eng, 'C03', {'ARITH.window-guard'},
               '"applied correctly": the peer\'s INITIAL_WINDOW_SIZE delta '
               'moves every stream window by exactly that amount, below zero '
               'if need be')
    cm.include(ctx, eng, 'C25',
               lambda o: o.rule == 'FLOW.codec' and 'server' in o.desc,
               'the settings a client hands over in HTTP2-Settings are a '
               'received SETTINGS frame like any other: applied through the '
               'same path, so that every cached copy follows')
    cm.include(ctx, eng, 'C04',
               lambda o: o.rule == 'FLOW.delta' and 'settings' in o.where,
               'an acknowledged local INITIAL_WINDOW_SIZE is enforced on '
               'every existing stream from that moment (window and maximum '
               'move by exactly the delta)')
    cm.include(ctx, eng, 'C03', lambda o: o.rule == 'FLOW.delta',
               'a received INITIAL_WINDOW_SIZE is applied at once to every '
               'stream that exists, reserved ones included')
    cm.include(ctx, eng, 'C10', {'FLOW.limit-default'},
               'a MAX_CONCURRENT_STREAMS of 0 that was acknowledged is '
               'enforced as 0, not read back as "no limit"')
