"""C22 - server push rules on both ends.

Decides: the ordered gates of push_stream and _receive_push_promise_frame
(enable_push, connection input, parent lookup, parity, promised id through
_begin_new_stream(EVEN), stream-level step), the push cells and the reserved
rows of the stream machine vs the reference, the event fields of
PushedStreamReceived, and failure atomicity of push_stream.
"""
from .. import terms as T
from . import common as cm
from .c06 import compare_cells, feedable_from_source

H = 'connection.H2Connection.'


def parity_fact(cond, var_chain):
    """'even' / 'odd' when cond states the parity of <var_chain>, else
    None.  Accepts x % 2 == 0, x % 2 != 1, not (x % 2) and their duals."""
    c, neg = (cond[1], True) if cond[0] == 'not' else (cond, False)
    res = None
    if c[0] in ('eq', 'ne'):
        a, b = c[1], c[2]
        for x, y in ((a, b), (b, a)):
            if x[0] == 'bin' and x[1] == '%' and \
                    cm.attr_chain(x[2]) == var_chain and x[3] == T.C(2) and \
                    y[0] == 'c' and y[1] in (0, 1):
                even = (y[1] == 0)
                if c[0] == 'ne':
                    even = not even
                res = even
    elif c[0] == 'cmp0' and c[1] in ('==', '!='):
        f = T.to_aff(c[2])
        if f and len(f[0]) == 1:
            (atom, coef), = f[0].items()
            if atom[0] == 'bin' and atom[1] == '%' and \
                    cm.attr_chain(atom[2]) == var_chain and \
                    atom[3] == T.C(2) and coef in (1, -1) and \
                    f[1] in (0, -coef):
                even = (f[1] == 0)
                if c[1] == '!=':
                    even = not even
                res = even
    elif c[0] == 'truth' and c[1][0] == 'bin' and c[1][1] == '%' and \
            cm.attr_chain(c[1][2]) == var_chain and c[1][3] == T.C(2):
        res = False
    if res is None:
        return None
    if neg:
        res = not res
    return 'even' if res else 'odd'


def setting_gate(path, which):
    """polarity of the assume on self.<which>.enable_push, and its index"""
    for i, e in enumerate(path.events):
        if e.kind == 'assume':
            c, neg = (e.cond[1], True) if e.cond[0] == 'not' \
                else (e.cond, False)
            if c[0] == 'truth' and cm.attr_chain(c[1]) == \
                    'self.%s.enable_push' % which:
                return (not neg), i
    return None, -1


def first_effect_index(path):
    """index of the first event that is a call (other than property reads
    of settings) or a write."""
    for i, e in enumerate(path.events):
        if e.kind in ('write', 'store', 'new'):
            return i
        if e.kind == 'call':
            names = cm.ev_callee_names(e)
            if names & {'enable_push', '__getitem__', 'get'}:
                continue
            return i
    return len(path.events)


def run(ctx, eng):
    ctx.rule('ORD gates of push_stream/_receive_push_promise_frame by path '
             'analysis; FSM push cells vs reference; FLOW event fields; '
             'ATOM(STR) allocation before raise')
    fsm = eng.fsm
    feedable = feedable_from_source(eng, ctx)
    compare_cells(eng, ctx, feedable,
                  inputs={'SEND_PUSH_PROMISE', 'RECV_PUSH_PROMISE'})
    compare_cells(eng, ctx, feedable, rule='FSM.reserved',
                  states_filter=lambda s: s.st in ('RESERVED_LOCAL',
                                                   'RESERVED_REMOTE'))
    ctx.exhaustive = True
    # ------------------------------------------------ push_stream
    fi = eng.m.func(H + 'push_stream')
    paths = eng.I.run(fi)
    normal = cm.normal_paths(paths)
    ctx.require(normal, 'push_stream has no normally returning path')
    bad = []
    for p in paths:
        pol, gi = setting_gate(p, 'remote_settings')
        if pol is None:
            if p.exit == 'raise' and (p.exc.get('via_call') is not None or
                                      p.exc.get('via_load') is not None):
                continue
            bad.append('a path never tests remote_settings.enable_push')
            continue
        if gi > first_effect_index(p):
            bad.append('an effect precedes the enable_push gate')
        if not pol:
            r = cm.explicit_raise(p)
            if r is None or p.exc['names'] != {'ProtocolError'}:
                bad.append('push disabled does not end in ProtocolError')
    ctx.ob('ORD.gate', fi.qual, 'remote enable_push gate first', not bad,
           '; '.join(sorted(set(bad))) or 'ProtocolError unless the peer '
           'allows push, before any effect', node=fi.node)
    seq_bad = []
    for p in normal:
        steps = [n for n, _, _ in cm.process_inputs(p)]
        order = []
        for e in p.events:
            if e.kind != 'call':
                continue
            names = cm.ev_callee_names(e)
            for nm in ('process_input', '_get_stream_by_id',
                       '_begin_new_stream', 'push_stream_in_band',
                       'locally_pushed', '_prepare_for_sending'):
                if nm in names:
                    order.append(nm)
        exp = ['process_input', '_get_stream_by_id', '_begin_new_stream',
               'push_stream_in_band', 'locally_pushed',
               '_prepare_for_sending']
        if steps != ['SEND_PUSH_PROMISE']:
            seq_bad.append('connection input is %s' % steps)
        if order != exp:
            seq_bad.append('order of gates is %s' % order)
        par = None
        for e in p.events:
            if e.kind == 'assume':
                f = parity_fact(e.cond, 'stream_id')
                if f:
                    par = f
        if par != 'odd':
            seq_bad.append('parent parity not established (odd)')
        for e in cm.calls_to(p, '_get_stream_by_id'):
            if cm.attr_chain(e.args[0]) != 'stream_id':
                seq_bad.append('parent looked up by another id')
        for e in cm.calls_to(p, '_begin_new_stream'):
            if cm.attr_chain(e.args[0]) != 'promised_stream_id' or \
                    cm.enum_name(e.args[1]) != 'EVEN':
                seq_bad.append('promised stream not created with '
                               '(promised_stream_id, EVEN)')
        for e in cm.calls_to(p, 'push_stream_in_band'):
            a = [cm.attr_chain(x) for x in e.args]
            if a != ['promised_stream_id', 'request_headers',
                     'self.encoder']:
                seq_bad.append('push_stream_in_band arguments %s' % a)
            if not (e.recv and e.recv[0] == 'call' and
                    '_get_stream_by_id' in e.recv[1]):
                seq_bad.append('PUSH_PROMISE not sent on the parent stream')
        for e in cm.calls_to(p, 'locally_pushed'):
            if not (e.recv and e.recv[0] == 'call' and
                    '_begin_new_stream' in e.recv[1]):
                seq_bad.append('locally_pushed not on the promised stream')
    ctx.ob('ORD.gates', fi.qual, 'push_stream gate sequence', not seq_bad,
           '; '.join(sorted(set(seq_bad))) or
           'connection SEND_PUSH_PROMISE, parent lookup, odd parent, '
           '_begin_new_stream(promised, EVEN), push_stream_in_band on the '
           'parent, locally_pushed on the new stream, one emit',
           node=fi.node)
    ok = any(cm.explicit_raise(p) is not None and
             p.exc['names'] == {'ProtocolError'} and any(
                 e.kind == 'assume' and parity_fact(e.cond, 'stream_id')
                 == 'even' for e in p.events) and
             not cm.calls_to(p, '_begin_new_stream') for p in paths)
    ctx.ob('ORD.gate', fi.qual, 'no push on pushed (even) streams', ok,
           'ProtocolError for an even parent before the promised stream is '
           'allocated', node=fi.node)
    # "succeeds exactly when": push_stream itself refuses for these two
    # reasons and no other (everything else is the two state machines, the
    # lookup and header validation in the callees)
    extra = []
    for p in paths:
        r = cm.explicit_raise(p)
        if r is None or r.frame != fi.qual:
            continue
        pol, _ = setting_gate(p, 'remote_settings')
        even = any(e.kind == 'assume' and
                   parity_fact(e.cond, 'stream_id') == 'even'
                   for e in p.events)
        if pol is False or even:
            continue
        extra.append('%s under %s' % (
            '/'.join(sorted(p.exc['names'])), '; '.join(
                cm.show0(e.cond)[:60] for e in p.events
                if e.kind == 'assume' and e.frame == fi.qual)[-160:]))
    ctx.ob('ORD.gates', fi.qual, 'push_stream has no refusal of its own '
           'beyond push-disabled and pushed-parent', not extra,
           '; '.join(sorted(set(extra)))[:300] or 'the only raise statements '
           'of push_stream are the enable_push and the parity refusal',
           node=fi.node)
    # the parent is looked up before anything that depends on its id is
    # refused: a parent that is gone is reported as gone (StreamClosedError /
    # NoSuchStreamError, C29), whatever its parity
    late = [p for p in paths if cm.explicit_raise(p) is not None and any(
        e.kind == 'assume' and parity_fact(e.cond, 'stream_id')
        for e in p.events) and not cm.calls_to(p, '_get_stream_by_id')]
    ctx.ob('ORD.lookup-first', fi.qual, 'parent looked up before the parity '
           'refusal', not late, 'the recursive-push refusal is decided '
           'before _get_stream_by_id(stream_id) has classified the parent'
           if late else '_get_stream_by_id precedes the parity test',
           node=fi.node)
    # ATOM(STR): raise after allocation
    sites = {}
    for p in cm.raise_paths(paths):
        alloc = cm.calls_to(p, '_begin_new_stream')
        if not alloc:
            continue
        via = p.exc.get('via_call')
        if via is None or via is alloc[0]:
            if via is None and cm.explicit_raise(p) is not None:
                sites.setdefault('explicit raise', p)
            continue
        nm = '/'.join(sorted(cm.ev_callee_names(via)))
        if nm == 'locally_pushed' and via.recv == alloc[0].get('result'):
            # the promised stream is fresh: the step of locally_pushed is
            # (initial state, SEND_PUSH_PROMISE); the extracted machine says
            # whether that can be refused and what it returns
            from ..spec.rfc7540_stream import INITIAL
            r = fsm.step_impl(INITIAL, 'SEND_PUSH_PROMISE')
            if r[0] == 'ok' and r[1] == ():
                continue
        sites.setdefault(nm, p)
    for nm, p in sorted(sites.items()):
        ctx.ob('ATOM.STR', fi.qual, 'raise after allocation|%s' % nm, False,
               'push_stream can raise in %s after _begin_new_stream '
               'allocated the promised stream and consumed its id (%s)'
               % (nm, ', '.join(sorted(p.exc['names']))[:120]),
               node=p.exc['node'])
    if not sites:
        ctx.ob('ATOM.STR', fi.qual, 'raise after allocation', True,
               'nothing can raise after the promised stream is allocated',
               node=fi.node)
    # the post-append size assertion of _prepare_for_sending (treated as a
    # precondition of the call): PUSH_PROMISE frames have no size bound here
    from . import flow
    unb = None
    for p in normal:
        for e in cm.calls_to(p, '_prepare_for_sending'):
            if cm.calls_to(p, '_begin_new_stream') and \
                    not flow.emit_cannot_fail(p, e):
                unb = e
    ctx.ob('ATOM.STR', fi.qual,
           'raise after allocation|_prepare_for_sending', unb is None,
           'the frames handed to _prepare_for_sending are not of fixed size '
           'and nothing bounds them: its post-append assertion can fail '
           'after the promised stream was allocated',
           node=unb.node if unb is not None else fi.node)
    # ------------------------------------------------ receive side
    fi = eng.m.func(H + '_receive_push_promise_frame')
    paths = eng.I.run(fi)
    bad = []
    for p in paths:
        pol, gi = setting_gate(p, 'local_settings')
        if pol is None:
            if p.exit == 'raise' and (p.exc.get('via_call') is not None or
                                      p.exc.get('via_load') is not None):
                continue
            bad.append('a path never tests local_settings.enable_push')
            continue
        if gi > first_effect_index(p):
            bad.append('something is done before the enable_push gate')
        if not pol:
            if cm.explicit_raise(p) is None or \
                    p.exc['names'] != {'ProtocolError'}:
                bad.append('push disabled does not end in ProtocolError')
    ctx.ob('ORD.gate', fi.qual, 'local enable_push gate first', not bad,
           '; '.join(sorted(set(bad))) or 'a client with push disabled '
           '(acknowledged value) raises ProtocolError before anything else',
           node=fi.node)
    seq_bad = []
    n_ok = 0
    for p in cm.normal_paths(paths):
        if not cm.calls_to(p, 'remotely_pushed'):
            continue        # refusal paths are checked under C20
        n_ok += 1
        order = []
        for e in p.events:
            if e.kind != 'call':
                continue
            names = cm.ev_callee_names(e)
            for nm in ('_decode_headers', 'process_input',
                       '_get_stream_by_id', 'receive_push_promise_in_band',
                       '_begin_new_stream', 'remotely_pushed'):
                if nm in names:
                    order.append(nm)
        exp = ['_decode_headers', 'process_input', '_get_stream_by_id',
               'receive_push_promise_in_band', '_begin_new_stream',
               'remotely_pushed']
        if order != exp:
            seq_bad.append('order is %s' % order)
        if [n for n, _, _ in cm.process_inputs(p)] != ['RECV_PUSH_PROMISE']:
            seq_bad.append('connection input')
        par = [parity_fact(e.cond, 'frame.stream_id') for e in p.events
               if e.kind == 'assume']
        if 'odd' not in par:
            seq_bad.append('parent parity not established (odd)')
        for e in cm.calls_to(p, '_begin_new_stream'):
            if cm.attr_chain(e.args[0]) != 'frame.promised_stream_id' or \
                    cm.enum_name(e.args[1]) != 'EVEN':
                seq_bad.append('promised stream not created with '
                               '(frame.promised_stream_id, EVEN)')
        for e in cm.calls_to(p, 'receive_push_promise_in_band'):
            a = e.args
            if cm.attr_chain(a[0]) != 'frame.promised_stream_id' or \
                    not (a[1][0] == 'call' and '_decode_headers' in a[1][1]) \
                    or cm.attr_chain(a[2]) != 'self.config.header_encoding':
                seq_bad.append('receive_push_promise_in_band arguments')
        for e in cm.calls_to(p, 'remotely_pushed'):
            if not (e.args and e.args[0][0] == 'call' and
                    '_decode_headers' in e.args[0][1]):
                seq_bad.append('remotely_pushed not given the pushed '
                               'headers')
    ctx.ob('ORD.gates', fi.qual, 'receive gate sequence',
           n_ok > 0 and not seq_bad, '; '.join(sorted(set(seq_bad))) or
           'decode, connection RECV_PUSH_PROMISE, parent lookup, odd parent, '
           'stream step, _begin_new_stream(promised, EVEN), remotely_pushed',
           node=fi.node)
    ok = any(cm.explicit_raise(p) is not None and
             p.exc['names'] == {'ProtocolError'} and any(
                 e.kind == 'assume' and
                 parity_fact(e.cond, 'frame.stream_id') == 'even'
                 for e in p.events) and
             not cm.calls_to(p, '_begin_new_stream') for p in paths)
    ctx.ob('ORD.gate', fi.qual, 'no push on pushed (even) streams', ok,
           'ProtocolError for a PUSH_PROMISE on an even stream', node=fi.node)
    # event fields
    fi = eng.m.func('stream.H2Stream.receive_push_promise_in_band')
    bad = []
    n = 0
    paths_ev = eng.I.run(fi)
    PRH = 'stream.H2Stream._process_received_headers'
    through = not any(e.kind == 'write' and e.attr == 'headers'
                      for p in paths_ev for e in p.events) and \
        eng.m.func(PRH, required=False) is not None
    if through:
        # the helper is handed the event and stores the headers itself: read
        # through the call (what the helper does to them is C15's PIPE.inbound)
        paths_ev = eng.interp({PRH}, depth=1).run(fi)
    for p in cm.normal_paths(paths_ev):
        n += 1
        w = {e.attr: e for e in p.events if e.kind == 'write'}
        ps = w.get('pushed_stream_id')
        if ps is None or cm.attr_chain(ps.value) != 'promised_stream_id':
            bad.append('pushed_stream_id is not the promised id')
        hd = w.get('headers')
        if through:
            if hd is None or not (hd.value[0] == 'call' and
                                  hd.value[1] == 'list' and
                                  "('p', 'headers')" in repr(hd.value)):
                bad.append('headers are not the validated request headers')
        elif hd is None or not (hd.value[0] == 'call' and
                                '_process_received_headers' in hd.value[1] and
                                cm.attr_chain(hd.value[2][1]) == 'headers'):
            bad.append('headers are not the validated request headers')
        for x in (ps, hd):
            if x is not None and not (x.base[0] == 'sub' and
                                      x.base[2] == T.C(0)):
                bad.append('field not set on the first event')
    ctx.ob('FLOW.event', fi.qual, 'PushedStreamReceived fields',
           n > 0 and not bad, '; '.join(sorted(set(bad))) or
           'pushed_stream_id = promised id; headers = processed headers',
           node=fi.node)
    from . import c20
    c20.check_push_leniency(ctx, eng)
    ctx.assume('ENABLE_PUSH timing over histories beyond "the acknowledged '
               'value is the one read" is not decided')
    cm.include(ctx, eng, 'C09', {'ARITH.id-high', 'ORD.id-bookkeeping'},
               'a promised id is held to the same rules on both ends: no '
               'larger than 2**31-1 whether we chose it or read it off the '
               'wire (the promised-id word is not masked by the parser)')
    cm.include(ctx, eng, 'C06',
               {('FSM.api-gates', 'push_stream'),
                ('FSM.api-gates', '_receive_push_promise_frame')},
               'push_stream succeeds exactly when the listed conditions '
               'hold: a promise reserves a stream and opens none, so neither '
               'MAX_CONCURRENT_STREAMS nor a window may refuse it (RFC 7540 '
               '8.2.2)')
    cm.include(ctx, eng, 'C11', {'FLOW.queue', 'FLOW.ack-source'},
               'the client allows push = the ENABLE_PUSH value the peer has '
               'acknowledged: one queued value per update, one popped per '
               'ACK')
