"""C10 - concurrent-stream limits.

Decides: the outbound guard is open_outbound_streams + 1 > remote limit and
the inbound guard open_inbound_streams + 1 > local (acknowledged) limit,
both dominating stream creation on the new-stream path; STREAM_OPEN is true
exactly for the three open states; _open_streams counts `stream.open and id
parity` and moves closed streams to _closed_streams; the two properties pass
the right parity; the limit settings default to "unbounded"; every table
transition from an uncounted into a counted state is taken only on a
connection path where the matching guard was evaluated.
"""
from .. import terms as T
from . import common as cm

H = 'connection.H2Connection.'


def run(ctx, eng):
    ctx.rule('ARITH: limit guards as affine normal forms; TAB: STREAM_OPEN; '
             'FLOW: counting and parity; FSM: opening transitions vs guarded '
             'connection paths')
    fsm = eng.fsm
    # ---- STREAM_OPEN
    exp = {'OPEN', 'HALF_CLOSED_LOCAL', 'HALF_CLOSED_REMOTE'}
    got = {s for s, v in fsm.stream_open.items() if v}
    ctx.ob('TAB.stream-open', 'stream.STREAM_OPEN', 'counted states',
           got == exp, 'open or half-closed states count (found %s)'
           % sorted(got))
    fo = eng.m.func('stream.H2Stream.open')
    ok = any(p.exit == 'return' and p.value[0] == 'sub' and
             p.value[1] == ('global', 'stream', 'STREAM_OPEN') and
             cm.attr_chain(p.value[2]) == 'self.state_machine.state'
             for p in eng.I.run(fo))
    ctx.ob('FLOW.open', fo.qual, 'open reads STREAM_OPEN[state]', ok,
           'STREAM_OPEN[self.state_machine.state]', node=fo.node)
    fc = eng.m.func('stream.H2Stream.closed')
    ok = any(p.exit == 'return' and p.value[0] == 'eq' and
             {cm.show0(p.value[1]), cm.show0(p.value[2])} ==
             {'StreamState.CLOSED', 'self.state_machine.state'}
             for p in eng.I.run(fc))
    ctx.ob('FLOW.open', fc.qual, 'closed iff state CLOSED', ok,
           'self.state_machine.state == StreamState.CLOSED', node=fc.node)
    # ---- guards
    for fname, setting, counter, exc in (
            ('send_headers', 'self.remote_settings.max_concurrent_streams',
             'open_outbound_streams', 'TooManyStreamsError'),
            ('_receive_headers_frame',
             'self.local_settings.max_concurrent_streams',
             'open_inbound_streams', 'TooManyStreamsError')):
        fi = eng.m.func(H + fname)
        paths = eng.I.run(fi)
        sid = 'stream_id' if fname == 'send_headers' else 'frame.stream_id'
        form_raise = cm.mk_aff_key('>', {'self.' + counter: 1, setting: -1},
                                   1)
        form_pass = cm.mk_aff_key('>=', {'self.' + counter: -1, setting: 1},
                                  -1)
        seen_raise = False
        bad = []
        for p in paths:
            conds = [cm.show0(e.cond) for e in p.events if e.kind == 'assume']
            keys = cm.assume_keys(p)
            r = cm.explicit_raise(p)
            if r is not None and p.exc['names'] == {exc}:
                if keys and keys[-1] == form_raise and \
                        'not (%s in self.streams)' % sid in conds:
                    seen_raise = True
                else:
                    bad.append('%s raised under %s' % (exc, conds[-2:]))
            creates = cm.calls_to(p, '_get_or_create_stream',
                                  '_begin_new_stream')
            if creates:
                i = p.index(creates[0])
                before = [cm.show0(e.cond) for e in p.events[:i]
                          if e.kind == 'assume']
                live = '(%s in self.streams)' % sid in before
                if not live and form_pass not in cm.assume_keys(p, i):
                    bad.append('a new stream can be created without the '
                               'limit having been checked')
        ctx.ob('ARITH.limit', fi.qual, 'concurrency guard',
               seen_raise and not bad, '; '.join(sorted(set(bad))) or
               '%s iff the id is new and %s + 1 > %s, decided before the '
               'stream is created' % (exc, counter, setting), node=fi.node)
    # ---- properties
    for prop, arg in (('open_outbound_streams',
                       'int(self.config.client_side)'),
                      ('open_inbound_streams',
                       'int(not self.config.client_side)')):
        fi = eng.m.func(H + prop)
        ok = cm.Every()
        for p in cm.normal_paths(eng.I.run(fi)):
            cs = cm.calls_to(p, '_open_streams')
            ok(len(cs) == 1 and cm.show0(cs[0].args[0]) == arg and
               p.value == cs[0].result)
        ctx.ob('FLOW.count', fi.qual, 'parity of counted streams', ok,
               'returns _open_streams(%s)' % arg, node=fi.node)
    fi = eng.m.func(H + '_open_streams')
    paths = eng.I.run(fi)
    bad = []
    counted = moved = False
    for p in cm.normal_paths(paths):
        conds = [cm.show0(e.cond) for e in p.events if e.kind == 'assume']
        for e in p.events:
            if e.kind == 'store' and cm.attr_chain(e.container) == \
                    'self._closed_streams':
                moved = True
    # the counting condition
    for p in paths:
        for i, e in enumerate(p.events):
            pass
    src_ok = False
    for p in cm.normal_paths(paths):
        shows = cm.filter_conditions(p)
        has_open = any(s.endswith('.open') and ('each(' in s or 'lv(' in s
                                                or '<' in s)
                       for s in shows)
        has_par = any('% 2)' in s and 'remainder' in s and '==' in s
                      and not s.startswith('not ') for s in shows)
        v = p.value
        aff = T.to_aff(v) if v is not None else None
        loop_counter = aff is not None and aff[1] == 1 and \
            len(aff[0]) == 1 and all(
                c == 1 and cm.show0(a).startswith('phi(')
                for a, c in aff[0].items())
        counted = v is not None and (
            loop_counter or                                 # count += 1
            (v[0] == 'call' and v[1] == 'sum' and
             [c[1] for c in cm.comp_terms(v)] == [T.C(1)]))  # sum(1 for ..)
        if has_open and has_par and counted:
            src_ok = True
    ctx.ob('FLOW.count', fi.qual, 'counts open streams of the parity',
           src_ok, 'count += 1 iff stream.open and stream_id %% 2 == '
           'remainder', node=fi.node)
    ctx.ob('FLOW.count', fi.qual, 'closed streams are remembered', moved,
           'closed streams move to _closed_streams', node=fi.node)
    # ---- settings default: unbounded
    fs = eng.m.func('settings.Settings.max_concurrent_streams')
    ok = cm.Every()
    for p in cm.normal_paths(eng.I.run(fs)):
        v = p.value
        if v and v[0] == 'call' and v[1].endswith('.get') and \
                len(v[2]) == 3:
            k, d = v[2][1], v[2][2]
            ok(cm.enum_name(k) == 'MAX_CONCURRENT_STREAMS' and
               T.is_int_const(d) and d[1] >= 2 ** 31)
        else:
            ok(False)
    ctx.ob('FLOW.limit-default', fs.qual, 'absent limit means unbounded', ok,
           'self.get(MAX_CONCURRENT_STREAMS, <a value no count can reach>) '
           '- in particular a limit of 0 stays 0', node=fs.node)
    # ---- opening transitions
    n = 0
    for (st, inp), (fn, nxt, node) in sorted(fsm.stream.cells.items()):
        if fsm.stream_open.get(st) or not fsm.stream_open.get(nxt):
            continue
        n += 1
        if inp in ('UPGRADE_CLIENT', 'UPGRADE_SERVER'):
            ctx.ob('FSM.opening', 'stream', '%s|%s' % (st, inp),
                   st == 'IDLE', 'the upgraded stream 1 is opened once, '
                   'before any other stream exists', node=node)
            continue
        # a stream in IDLE is fresh: it was created on the path on which the
        # guard ran (checked above); any other source state means the stream
        # already sits in self.streams and the guard is skipped
        ctx.ob('FSM.opening', 'stream', '%s|%s->%s' % (st, inp, nxt),
               st == 'IDLE',
               'the transition (%s, %s) -> %s makes a stream count against '
               'MAX_CONCURRENT_STREAMS, but it is taken on a stream that '
               'already exists, where neither limit guard is evaluated'
               % (st, inp, nxt), node=node)
    ctx.record('opening_transitions', n)
    ctx.floor('opening_transitions', 4)
    ctx.exhaustive = True
    ctx.assume('counting over histories follows by induction from the '
               'clauses above; the induction is not mechanised')
    # the counters equal the number of open streams of the RFC model: on
    # every accepted step the implementation's next state is counted iff the
    # reference machine's is
    from .c06 import compare_cells, feedable_from_source
    counted = {'OPEN', 'HALF_CLOSED_LOCAL', 'HALF_CLOSED_REMOTE'}
    compare_cells(eng, ctx, feedable_from_source(eng, ctx),
                  rule='FSM.counted',
                  # ... and, since the count after every later step must
                  # agree as well, is the reference's state whenever either
                  # of the two is a counted one
                  differs=lambda exp, got: exp[0] == 'ok' and got[0] == 'ok'
                  and exp[2].st != got[2].st and
                  (exp[2].st in counted or got[2].st in counted))
    cm.include(ctx, eng, 'C11',
               lambda o: o.rule in ('FLOW.queue', 'FLOW.ack-source') or (
                   o.rule == 'ATOM.SET' and
                   o.desc.startswith('all values validated')),
               'the enforced local limit is the acknowledged one: one '
               'pending value per setting becomes current per ACK, and a '
               'refused update_settings leaves nothing pending')
    cm.include(ctx, eng, 'C07', {'PAIR.local-reset'},
               'a stream the library resets itself stops being counted: the '
               'reset goes through the machine')
    cm.include(ctx, eng, 'C06', {'FSM.step'},
               'a stream the machine refuses is closed, whatever subclass of '
               'ProtocolError says so: a refused stream left in its state '
               'stays counted for good')
