"""Connection-machine role analysis shared by C08, C19, C24 (DESIGN.md
section 2.5 layer 3): which connection inputs each role can feed, and the
comparison of the connection table with the role reference."""
from .. import terms as T
from ..spec import rfc7540_stream as ref
from . import common as cm


def conn_input_sites(eng):
    """input name -> list of (FuncInfo, role restriction) for every
    process_input(ConnectionInputs.X) call site in H2Connection.
    role restriction: 'client' | 'server' | None, derived from the path facts
    about config.client_side that hold on *every* path reaching the call."""
    out = {}
    cls = eng.m.cls('connection.H2Connection')
    for fi in eng.m.methods_of(cls.qual).values():
        paths = eng.I.run(fi)
        per_input = {}
        for p in paths:
            facts = None
            for e in p.events:
                if e.kind == 'assume':
                    c, neg = (e.cond[1], True) if e.cond[0] == 'not' \
                        else (e.cond, False)
                    if c[0] == 'truth' and c[1][0] == 'a' and \
                            c[1][2] == 'client_side':
                        facts = 'server' if neg else 'client'
                if cm.is_call_to(e, 'process_input') and e.d.get('args'):
                    a = e.args[0]
                    recv = e.get('recv')
                    if recv is None or not (recv[0] == 'a' and
                                            recv[2] == 'state_machine' and
                                            recv[1] == ('p', 'self')):
                        continue
                    names = []
                    n = cm.enum_name(a)
                    if n is not None:
                        names = [n]
                    else:
                        # conditional expression on the role
                        names = [x for x in _enum_names_in(a)]
                    for n in names:
                        per_input.setdefault(n, set()).add(facts)
        for n, roles in per_input.items():
            r = None
            if roles == {'client'}:
                r = 'client'
            elif roles == {'server'}:
                r = 'server'
            out.setdefault(n, []).append((fi, r))
    return out


def _enum_names_in(t):
    from ..srcmodel import EnumVal
    for x in T.subterms(t):
        if x[0] == 'c' and isinstance(x[1], EnumVal):
            yield x[1].name


def feedable_for_role(sites, inp, client_side):
    """Can an endpoint of this role feed the input at all?  Local (SEND_*)
    inputs only through call sites not restricted to the other role; RECV_*
    inputs are fed by whatever the peer sends."""
    role = 'client' if client_side else 'server'
    lst = sites.get(inp)
    if lst is None:
        return False
    return any(r is None or r == role for _, r in lst)


def compare_conn(eng, ctx, prop_rule, inputs=None, states=None):
    """Role-wise comparison of the connection table with conn_ref."""
    fsm = eng.fsm
    sites = conn_input_sites(eng)
    ctx.record('connection_input_sites',
               sum(len(v) for v in sites.values()))
    n = 0
    for client_side in (True, False):
        role = 'client' if client_side else 'server'
        my_open = 'CLIENT_OPEN' if client_side else 'SERVER_OPEN'
        for st in ('IDLE', my_open, 'CLOSED'):
            if states is not None and st not in states:
                continue
            for inp in fsm.conn_inputs:
                if inputs is not None and inp not in inputs:
                    continue
                if not feedable_for_role(sites, inp, client_side):
                    continue
                cell = fsm.conn.cells.get((st, inp))
                impl = cell[1] if cell else None
                exp = ref.conn_ref(st, inp, client_side)
                n += 1
                node = cell[2] if cell else fsm.conn.node
                if impl == exp:
                    ctx.ob(prop_rule, 'connection',
                           'role=%s|%s|%s' % (role, st, inp), True,
                           'next state %s' % (impl or 'refused'), node=node)
                else:
                    ctx.ob(prop_rule, 'connection',
                           'role=%s|%s|%s|ref=%s impl=%s'
                           % (role, st, inp, exp or 'refuse',
                              impl or 'refuse'), False,
                           'a %s in connection state %s feeding %s: the '
                           'reference says %s, the table says %s (call '
                           'sites: %s)' % (
                               role, st, inp,
                               exp or 'refuse (ProtocolError)',
                               impl or 'refuse',
                               ', '.join(sorted(f.qual.split('.')[-1]
                                                for f, _ in sites[inp]))),
                           node=node)
    ctx.count('connection_cells_compared', n)
    return sites
