"""Connection-machine role analysis shared by C08, C19, C24 (DESIGN.md
section 2.5 layer 3): which connection inputs each role can feed, and the
comparison of the connection table with the role reference."""
from .. import terms as T
from ..spec import rfc7540_stream as ref
from . import common as cm


def conn_input_sites(eng):
    """input name -> list of (FuncInfo, role restriction) for every
    process_input(ConnectionInputs.X) call site in H2Connection.
    role restriction: 'client' | 'server' | None, derived from the path facts
    about config.client_side that hold on *every* path reaching the call."""
    out = {}
    cls = eng.m.cls('connection.H2Connection')
    for fi in eng.m.methods_of(cls.qual).values():
        paths = eng.I.run(fi)
        per_input = {}
        for p in paths:
            facts = None
            for e in p.events:
                if e.kind == 'assume':
                    c, neg = (e.cond[1], True) if e.cond[0] == 'not' \
                        else (e.cond, False)
                    if c[0] == 'truth' and c[1][0] == 'a' and \
                            c[1][2] == 'client_side':
                        facts = 'server' if neg else 'client'
                if cm.is_call_to(e, 'process_input') and e.d.get('args'):
                    a = e.args[0]
                    recv = e.get('recv')
                    if recv is None or not (recv[0] == 'a' and
                                            recv[2] == 'state_machine' and
                                            recv[1] == ('p', 'self')):
                        continue
                    names = []
                    n = cm.enum_name(a)
                    if n is not None:
                        names = [n]
                    else:
                        # conditional expression on the role
                        names = [x for x in _enum_names_in(a)]
                    for n in names:
                        per_input.setdefault(n, set()).add(facts)
        for n, roles in per_input.items():
            r = None
            if roles == {'client'}:
                r = 'client'
            elif roles == {'server'}:
                r = 'server'
            out.setdefault(n, []).append((fi, r))
    return out


def _enum_names_in(t):
    from ..srcmodel import EnumVal
    for x in T.subterms(t):
        if x[0] == 'c' and isinstance(x[1], EnumVal):
            yield x[1].name


def feedable_for_role(sites, inp, client_side):
    """Can an endpoint of this role feed the input at all?  Local (SEND_*)
    inputs only through call sites not restricted to the other role; RECV_*
    inputs are fed by whatever the peer sends."""
    role = 'client' if client_side else 'server'
    lst = sites.get(inp)
    if lst is None:
        return False
    return any(r is None or r == role for _, r in lst)


# which call or frame handler steps the connection machine with which input
# (confirmed by reading the pinned tree; the role analysis below and every
# "is refused when closed" argument rest on it)
CONN_INPUT_SITES = {
    'RECV_ALTERNATIVE_SERVICE': {'_receive_alt_svc_frame'},
    'RECV_DATA': {'_receive_data_frame'},
    'RECV_GOAWAY': {'_receive_goaway_frame'},
    'RECV_HEADERS': {'_receive_headers_frame', 'initiate_upgrade_connection'},
    'RECV_PING': {'_receive_ping_frame'},
    'RECV_PRIORITY': {'_receive_priority_frame'},
    'RECV_PUSH_PROMISE': {'_receive_push_promise_frame'},
    'RECV_RST_STREAM': {'_receive_rst_stream_frame'},
    'RECV_SETTINGS': {'_receive_settings_frame'},
    'RECV_WINDOW_UPDATE': {'_receive_window_update_frame'},
    'SEND_ALTERNATIVE_SERVICE': {'advertise_alternative_service'},
    'SEND_DATA': {'end_stream', 'send_data'},
    'SEND_GOAWAY': {'_terminate_connection', 'close_connection'},
    'SEND_HEADERS': {'initiate_upgrade_connection', 'send_headers'},
    'SEND_PING': {'ping'},
    'SEND_PRIORITY': {'prioritize'},
    'SEND_PUSH_PROMISE': {'push_stream'},
    'SEND_RST_STREAM': {'reset_stream'},
    'SEND_SETTINGS': {'_acknowledge_settings', 'initiate_connection',
                      'update_settings'},
    'SEND_WINDOW_UPDATE': {'increment_flow_control_window'},
}


# (the step may be made by the helper or, just before calling it, by the
# one function that calls it)
ONLY_CALLER = {
    'SEND_SETTINGS': {'_acknowledge_settings': '_receive_settings_frame'},
    'SEND_GOAWAY': {'_terminate_connection': 'receive_data'},
}


def check_input_sites(ctx, sites, inputs=None):
    """Every call and every frame handler steps the connection machine with
    its own input (send_data with SEND_DATA, the DATA handler with
    RECV_DATA...): an input borrowed from another frame type is accepted or
    refused in other states and moves the machine differently."""
    for inp, exp in sorted(CONN_INPUT_SITES.items()):
        if inputs is not None and inp not in inputs:
            continue
        got = {f.name for f, _ in sites.get(inp, ())}
        # a helper that has one caller and that caller are the same site
        for helper, caller in ONLY_CALLER.get(inp, {}).items():
            if caller in got and helper not in got:
                got = (got - {caller}) | {helper}
        ctx.ob('TAB.inputs', 'connection.H2Connection', 'fed %s' % inp,
               got == exp, '%s is fed by %s%s' % (
                   inp, sorted(got) or 'nobody',
                   '' if got == exp else ', expected %s' % sorted(exp)))
    extra = sorted(set(sites) - set(CONN_INPUT_SITES))
    if inputs is None:
        ctx.ob('TAB.inputs', 'connection.H2Connection', 'no other input',
               not extra, 'inputs fed: %d%s' % (
                   len(sites), ', unknown: %s' % extra if extra else ''))


def compare_conn(eng, ctx, prop_rule, inputs=None, states=None):
    """Role-wise comparison of the connection table with conn_ref."""
    fsm = eng.fsm
    sites = conn_input_sites(eng)
    check_input_sites(ctx, sites, inputs)
    ctx.record('connection_input_sites',
               sum(len(v) for v in sites.values()))
    n = 0
    for client_side in (True, False):
        role = 'client' if client_side else 'server'
        my_open = 'CLIENT_OPEN' if client_side else 'SERVER_OPEN'
        for st in ('IDLE', my_open, 'CLOSED'):
            if states is not None and st not in states:
                continue
            for inp in fsm.conn_inputs:
                if inputs is not None and inp not in inputs:
                    continue
                if not feedable_for_role(sites, inp, client_side):
                    continue
                cell = fsm.conn.cells.get((st, inp))
                impl = cell[1] if cell else None
                exp = ref.conn_ref(st, inp, client_side)
                n += 1
                node = cell[2] if cell else fsm.conn.node
                if impl == exp:
                    ctx.ob(prop_rule, 'connection',
                           'role=%s|%s|%s' % (role, st, inp), True,
                           'next state %s' % (impl or 'refused'), node=node)
                else:
                    ctx.ob(prop_rule, 'connection',
                           'role=%s|%s|%s|ref=%s impl=%s'
                           % (role, st, inp, exp or 'refuse',
                              impl or 'refuse'), False,
                           'a %s in connection state %s feeding %s: the '
                           'reference says %s, the table says %s (call '
                           'sites: %s)' % (
                               role, st, inp,
                               exp or 'refuse (ProtocolError)',
                               impl or 'refuse',
                               ', '.join(sorted(f.qual.split('.')[-1]
                                                for f, _ in sites[inp]))),
                           node=node)
    ctx.count('connection_cells_compared', n)
    return sites
