"""C27 - peer-controlled retained state stays bounded.

Decides: the handlers for PRIORITY, WINDOW_UPDATE, RST_STREAM and unknown
frames (and _get_stream_by_id) insert nothing into the stream tables;
inserts happen only in _begin_new_stream, the two push paths and
_open_streams; _closed_streams is a SizeLimitDict built with the folded
MAX_CLOSED_STREAMS, which evicts while len > limit on every store and is
only stored to by subscript; the clean-up (_open_streams) runs on every path
that creates a stream; the CONTINUATION guard counts every buffered frame
against the folded CONTINUATION_BACKLOG and the frame-length guard precedes
parsing; the decoder's header-list cap is initialised and refreshed from the
acknowledged MAX_HEADER_LIST_SIZE and its overrun becomes ENHANCE_YOUR_CALM.
"""
import ast

from .. import terms as T
from ..srcmodel import EnumVal
from . import common as cm

H = 'connection.H2Connection.'
FB = 'frame_buffer.FrameBuffer.'


def run(ctx, eng):
    ctx.rule('OWN: transitive write sets of the non-opening handlers and '
             'writers of the stream tables; TAB/ARITH: caps and eviction '
             'loop; ORD: clean-up on every creating path, backlog and length '
             'guards; FLOW: header-list cap')
    m = eng.m
    W = eng.I.writes
    # ---- (1) non-opening handlers
    for name in ('_receive_priority_frame', '_receive_window_update_frame',
                 '_receive_rst_stream_frame', '_receive_unknown_frame',
                 '_receive_ping_frame', '_receive_goaway_frame',
                 '_receive_alt_svc_frame', '_get_stream_by_id',
                 '_receive_naked_continuation'):
        fi = m.func(H + name)
        ins = [a for a in ('streams', '_closed_streams')
               if W.inserts(fi.qual, a)]
        ctx.ob('OWN.no-alloc', fi.qual, 'allocates no stream state', not ins,
               'inserts into %s' % ins if ins else
               'no insert into streams / _closed_streams is reachable',
               node=fi.node)
    # ---- (1b) the one handler that may allocate without opening: a stream
    # object created for a promise is reserved on the same path - an idle
    # stream left in the table is never swept (only CLOSED ones are) and
    # never counted against any limit
    fpp = m.func(H + '_receive_push_promise_frame')
    bad = []
    n = 0
    for p in cm.normal_paths(eng.I.run(fpp)):
        for b in cm.calls_to(p, '_begin_new_stream', '_get_or_create_stream'):
            n += 1
            res = b.get('result')
            used = [e for e in p.events[p.index(b) + 1:]
                    if e.kind == 'call' and e.d.get('recv') == res and
                    cm.ev_callee_names(e) & {'remotely_pushed'}]
            if not used:
                bad.append('a path creates the promised stream and returns '
                           'without reserving it (it stays idle in the table '
                           'for good)')
    ctx.ob('OWN.no-idle', fpp.qual, 'a stream allocated for a promise is '
           'reserved at once', n > 0 and not bad,
           '; '.join(sorted(set(bad))) or 'every returning path that '
           'allocates calls remotely_pushed on the new stream',
           node=fpp.node)
    # ---- (2) who inserts
    ins_streams = set()
    ins_closed = set()
    for q, fi in m.funcs.items():
        for nd in ast.walk(fi.node):
            if getattr(nd, '_func', None) is not fi:
                continue
            if isinstance(nd, ast.Subscript) and \
                    isinstance(nd.ctx, ast.Store) and \
                    isinstance(nd.value, ast.Attribute):
                if nd.value.attr == 'streams':
                    ins_streams.add(q)
                if nd.value.attr == '_closed_streams':
                    ins_closed.add(q)
            if isinstance(nd, ast.Call) and \
                    isinstance(nd.func, ast.Attribute) and \
                    nd.func.attr in ('update', 'setdefault') and \
                    isinstance(nd.func.value, ast.Attribute) and \
                    nd.func.value.attr in ('streams', '_closed_streams'):
                ins_closed.add(q + ' (via %s)' % nd.func.attr)
    ctx.ob('OWN.writers', 'connection.H2Connection.streams', 'inserters',
           # _begin_new_stream is the inserter; the two push paths store the
           # stream it returned once more under the same id (redundant, so
           # its absence is no violation), nobody else may insert
           H + '_begin_new_stream' in ins_streams and
           ins_streams <= {H + '_begin_new_stream', H + 'push_stream',
                           H + '_receive_push_promise_frame'},
           'inserted by %s' % sorted(x.split('.')[-1] for x in ins_streams))
    ctx.ob('OWN.writers', 'connection.H2Connection._closed_streams',
           'inserters', ins_closed == {H + '_open_streams'},
           'stored to (by subscript only) in %s' % sorted(
               x.split('.')[-1] for x in ins_closed))
    # ---- (3) the cap
    fi = m.func(H + '__init__')
    ok = cm.Every()
    for nd in ast.walk(fi.node):
        if isinstance(nd, ast.Assign) and any(
                isinstance(t, ast.Attribute) and t.attr == '_closed_streams'
                for t in nd.targets):
            c = nd.value
            capped = False
            if isinstance(c, ast.Call) and isinstance(c.func, ast.Name) and \
                    c.func.id == 'SizeLimitDict':
                for k in c.keywords:
                    if k.arg == 'size_limit':
                        v = m.try_fold(k.value, fi.module, fi.cls)
                        capped = isinstance(v, int) and 0 < v <= 2 ** 20
                        cap = v
            ok(capped)
    ctx.ob('TAB.cap', fi.qual, 'closed-stream memory is capped', ok,
           '_closed_streams = SizeLimitDict(size_limit=MAX_CLOSED_STREAMS) '
           'with a folded positive constant', node=fi.node)
    f2 = m.func('utilities.SizeLimitDict.__setitem__')
    ok = False
    for p in cm.normal_paths(eng.I.run(f2)):
        cs = cm.calls_to(p, '_check_size_limit')
        st = [e for e in p.events if e.kind == 'call' and
              any('__setitem__' in str(n) for n in e.names)]
        ok = len(cs) == 1 and len(st) >= 1 and \
            p.index(st[0]) < p.index(cs[0])
        if not ok:
            break
    ctx.ob('ARITH.evict', f2.qual, 'every store checks the limit', ok,
           'super().__setitem__(...) then _check_size_limit()', node=f2.node)
    f3 = m.func('utilities.SizeLimitDict._check_size_limit')
    loops = [nd for nd in ast.walk(f3.node) if isinstance(nd, ast.While)]
    ok = False
    if len(loops) == 1:
        class _Exp(ast.NodeTransformer):
            # a local that holds the limit stands for the attribute
            def visit_Name(s, n):
                v = eng.D._single_assign(f3, n.id)
                return v if v is not None and isinstance(
                    v, ast.Attribute) else n
        import copy
        t = ast.unparse(_Exp().visit(copy.deepcopy(loops[0].test))
                        ).replace(' ', '')
        body = [x for x in ast.walk(loops[0]) if isinstance(x, ast.Call) and
                isinstance(x.func, ast.Attribute) and
                x.func.attr == 'popitem']
        fifo = any(k.arg == 'last' and isinstance(k.value, ast.Constant) and
                   k.value.value is False for c in body for k in c.keywords)
        ok = t in ('len(self)>self._size_limit',
                   'self._size_limit<len(self)') and len(body) == 1 and fifo
    ctx.ob('ARITH.evict', f3.qual, 'evicts oldest while over the limit', ok,
           'while len(self) > self._size_limit: self.popitem(last=False)',
           node=f3.node)
    # the limit applies whenever one is set - zero included: `is not None`,
    # not truthiness
    tests = [ast.unparse(n.test) for n in ast.walk(f3.node)
             if isinstance(n, ast.If)]
    truthy = [t for t in tests if '_size_limit' in t and
              'is not None' not in t and 'is None' not in t and
              'len(' not in t]
    ctx.ob('ARITH.evict', f3.qual, 'a limit of zero is a limit',
           not truthy, 'the limit is tested with `is not None`%s' % (
               ' (found truthiness test %s)' % truthy if truthy else ''),
           node=f3.node)
    # "oldest" means oldest inserted: nothing reorders the entries (a read
    # that refreshes an entry would let it outlive newer ones, and the newer
    # ones - still within the documented bound - would be forgotten)
    cls_sld = m.cls('utilities.SizeLimitDict')
    reorder = sorted(
        {nd.func.attr for nd in ast.walk(cls_sld.node)
         if isinstance(nd, ast.Call) and isinstance(nd.func, ast.Attribute)
         and nd.func.attr in ('move_to_end', 'pop', 'clear', 'popitem',
                              '__delitem__') and not (
             nd.func.attr == 'popitem' and any(
                 k.arg == 'last' and isinstance(k.value, ast.Constant) and
                 k.value.value is False for k in nd.keywords)) and not (
             nd.func.attr == 'pop' and isinstance(nd.func.value, ast.Name)
             and nd.func.value.id in ('kwargs', 'kw'))} |
        {x for x in m.methods_of(cls_sld.qual, inherited=False)
         if x in ('__getitem__', 'get', '__contains__', '__delitem__',
                  'move_to_end', 'popitem', 'pop')})
    ctx.ob('OWN.fifo', cls_sld.qual, 'insertion order is eviction order',
           not reorder, 'no read-side override and no reordering call%s' % (
               (' (found %s)' % reorder) if reorder else ''),
           node=cls_sld.node)
    f3i = m.func('utilities.SizeLimitDict.__init__')
    ok = cm.Every()
    for nd in ast.walk(f3i.node):
        if isinstance(nd, ast.Assign) and any(
                isinstance(t, ast.Attribute) and t.attr == '_size_limit'
                for t in nd.targets):
            v = nd.value
            # kwargs.pop("size_limit", None), or a keyword-only parameter
            # of that name
            ok((isinstance(v, ast.Call) and
                isinstance(v.func, ast.Attribute) and
                v.func.attr == 'pop' and v.args and
                isinstance(v.args[0], ast.Constant) and
                v.args[0].value == 'size_limit') or (
                    isinstance(v, ast.Name) and v.id == 'size_limit' and
                    'size_limit' in [a.arg for a in
                                     f3i.node.args.kwonlyargs +
                                     f3i.node.args.args]))
    ctx.ob('ARITH.evict', f3i.qual, 'limit taken from size_limit', ok,
           'self._size_limit = the size_limit keyword argument',
           node=f3i.node)
    # ---- (4) clean-up on every creating path
    for name, counter, sid in (
            ('send_headers', 'open_outbound_streams', 'stream_id'),
            ('_receive_headers_frame', 'open_inbound_streams',
             'frame.stream_id')):
        fi = m.func(H + name)
        bad = []
        n = 0
        for p in eng.I.run(fi):
            cr = cm.calls_to(p, '_get_or_create_stream', '_begin_new_stream')
            if not cr:
                continue
            i = p.index(cr[0])
            before = [cm.show0(e.cond) for e in p.events[:i]
                      if e.kind == 'assume']
            if '(%s in self.streams)' % sid in before:
                continue        # existing stream: nothing is created
            n += 1
            cleaned = [e for e in p.events[:i] if e.kind == 'call' and
                       e.get('is_prop') and
                       cm.ev_callee_names(e) & {counter}]
            if not cleaned:
                bad.append('a new stream can be created without the '
                           'clean-up of closed streams having run '
                           '(%s not evaluated)' % counter)
        ctx.ob('ORD.cleanup', fi.qual, 'closed streams purged before a new '
               'one is added', n > 0 and not bad,
               '; '.join(sorted(set(bad))) or
               '%s (which moves closed streams to the capped table) is '
               'evaluated on every creating path' % counter, node=fi.node)
    f4 = m.func(H + '_open_streams')
    ok = False
    for p in cm.normal_paths(eng.I.run(f4)):
        pops = [e for e in p.events if e.kind == 'call' and
                cm.ev_callee_names(e) & {'pop'} and
                cm.attr_chain(e.recv) == 'self.streams'] + \
            [e for e in p.events if e.kind == 'del' and
             cm.attr_chain(e.get('container')) == 'self.streams']
        st = [e for e in p.events if e.kind == 'store' and
              cm.attr_chain(e.container) == 'self._closed_streams']
        if pops and st:
            ok = True
    closed_cond = any(c.endswith('.closed')
                      for p in eng.I.run(f4)
                      for c in cm.filter_conditions(p))
    ctx.ob('ORD.cleanup', f4.qual, 'closed streams leave the live table',
           ok and closed_cond, 'streams that are closed are popped from '
           '`streams` and remembered in `_closed_streams`', node=f4.node)
    check_backlog(ctx, eng)
    check_header_list_cap(ctx, eng)
    cm.include(ctx, eng, 'C11',
               lambda o: o.rule == 'COH.apply-map' and o.desc.startswith(
                   'local MAX_HEADER_LIST_SIZE ') or
               (o.rule == 'FLOW.ack-source' and
                o.where.endswith('_local_settings_acked')) or
               o.rule == 'FLOW.queue',
               'the acknowledged MAX_HEADER_LIST_SIZE reaches the decoder '
               'whatever else the same frame changed - the acknowledged one, '
               'not a later value still in flight')
    cm.include(ctx, eng, 'C21', {'OWN.buffer'},
               'the receive buffer holds at most the bytes of the frame in '
               'progress: every frame handed out is removed from it')
    ctx.assume('actual memory is not measured; reserved (pushed) streams '
               'are not counted by any limit (outside the listed '
               'mechanisms)')


def check_backlog(ctx, eng):
    """(5) CONTINUATION backlog, frame-length guard, bounded recursion."""
    m = eng.m
    f5 = m.func(FB + '_update_header_buffer')
    paths = eng.I.run(f5)
    backlog = m.try_fold(ast.Name(id='CONTINUATION_BACKLOG', ctx=ast.Load()),
                         'frame_buffer')
    ctx.ob('TAB.cap', 'frame_buffer.CONTINUATION_BACKLOG', 'a small constant',
           isinstance(backlog, int) and 0 < backlog <= 1024,
           'CONTINUATION_BACKLOG folds to %r' % backlog)
    bad = []
    swallowed = 0
    guard = False
    for p in paths:
        aps = [e for e in p.events if e.kind == 'call' and
               cm.ev_callee_names(e) & {'append'} and
               cm.attr_chain(e.recv) == 'self._headers_buffer']
        if cm.explicit_raise(p) is not None and \
                p.exc['names'] == {'ProtocolError'}:
            k = cm.assume_keys(p)
            if k and k[-1] == cm.mk_aff_key(
                    '>', {'len(self._headers_buffer)': 1}, -backlog):
                guard = True
        if p.exit in ('return', 'fall') and p.value == T.NONE:
            swallowed += 1
            if len(aps) != 1 or aps[0].args[0] != ('p', 'f'):
                bad.append('a frame is swallowed (None returned) without '
                           'being appended to the header buffer: it is not '
                           'counted against CONTINUATION_BACKLOG and '
                           '__next__ recurses once per such frame')
            else:
                i = p.index(aps[0])
                pre = [e for e in p.events[:i] if e.kind == 'assume']
                nonempty = any(cm.show0(e.cond) == 'self._headers_buffer'
                               for e in pre)
                if nonempty:
                    after = cm.assume_keys(p)
                    if cm.mk_aff_key('>=', {'len(self._headers_buffer)': -1},
                                     backlog) not in after:
                        bad.append('a CONTINUATION is buffered without the '
                                   'backlog check')
        elif p.exit in ('return', 'fall') and aps:
            # the frame that ends the block is buffered and counted like
            # every other one: the cap is on the block, END_HEADERS or not
            i = p.index(aps[0])
            pre = [e for e in p.events[:i] if e.kind == 'assume']
            if any(cm.show0(e.cond) == 'self._headers_buffer' for e in pre) \
                    and cm.mk_aff_key('>=', {'len(self._headers_buffer)': -1},
                                      backlog) not in cm.assume_keys(p):
                bad.append('the CONTINUATION that ends a block is buffered '
                           'without the backlog check')
    ctx.ob('ARITH.backlog', f5.qual, 'every buffered frame is counted',
           swallowed >= 2 and guard and not bad,
           '; '.join(sorted(set(bad))) or 'ProtocolError once more than '
           'CONTINUATION_BACKLOG frames are buffered; every swallowed frame '
           'is appended first', node=f5.node)
    f6 = m.func(FB + '__next__')
    bad = []
    n = 0
    for p in eng.I.run(f6):
        pb = [e for e in p.events if e.kind == 'call' and
              any(str(x).endswith('parse_body') for x in e.names)]
        if not pb:
            continue
        n += 1
        vl = cm.calls_to(p, '_validate_frame_length')
        if not vl or p.index(vl[0]) > p.index(pb[0]):
            bad.append('a frame body is parsed before its length was '
                       'checked')
        elif not (vl[0].args and vl[0].args[0][0] == 'sub' and
                  vl[0].args[0][2] == T.C(1)):
            bad.append('the checked length is not the one from the frame '
                       'header')
    ctx.ob('ORD.length-guard', f6.qual, 'length checked before parsing',
           n > 0 and not bad, '; '.join(sorted(set(bad))) or 'ok',
           node=f6.node)
    f7 = m.func(FB + '_validate_frame_length')
    keys = [cm.assume_keys(p)[-1] for p in eng.I.run(f7)
            if cm.explicit_raise(p) is not None and
            p.exc['names'] == {'FrameTooLargeError'}]
    ctx.ob('ARITH.length-guard', f7.qual, 'FrameTooLargeError iff length > '
           'limit', keys == [cm.mk_aff_key('>', {'length': 1,
                                                 'self.max_frame_size': -1})],
           'found %s' % keys, node=f7.node)
    # recursion of __next__ is bounded by the backlog
    rec = [nd for nd in ast.walk(f6.node) if isinstance(nd, ast.Call) and
           isinstance(nd.func, ast.Attribute) and nd.func.attr == '__next__']
    ok = len(rec) <= 1
    if rec:
        ok = ok and any(
            p.exit == 'return' and p.value[0] == 'call' and
            p.value[1].endswith('__next__') and any(
                e.kind == 'assume' and cm.show0(e.cond).endswith('is None)')
                for e in p.events) for p in eng.I.run(f6))
    ctx.ob('ARITH.backlog', f6.qual, 'recursion only for swallowed frames',
           ok, '__next__ recurses only when _update_header_buffer returned '
           'None, i.e. at most CONTINUATION_BACKLOG + 1 times per call',
           node=f6.node)


def check_header_list_cap(ctx, eng):
    """(6) header-list cap"""
    m = eng.m
    fi = m.func(H + '__init__')
    dflt = m.try_fold(ast.Attribute(value=ast.Name(id='self',
                                                   ctx=ast.Load()),
                                    attr='DEFAULT_MAX_HEADER_LIST_SIZE',
                                    ctx=ast.Load()), 'connection',
                      'connection.H2Connection')
    ok = cm.Every()
    adv = False
    for p in cm.normal_paths(eng.I.run(fi)):
        for e in p.events:
            if e.kind == 'write' and e.attr == 'max_header_list_size':
                ok(e.value == T.C(dflt) and (
                    cm.attr_chain(e.base) == 'self.decoder' or
                    (e.base[0] == 'obj' and e.base[-1] == 'Decoder')))
            if e.kind == 'new' and e.cls == 'Settings':
                iv = e.kwargs.get('initial_values')
                if iv is not None and iv[0] == 'obj':
                    items = dict(p.state.objs.get(iv, {}).get('$items', ()))
                    for k, v in items.items():
                        if cm.enum_name(k) == 'MAX_HEADER_LIST_SIZE' and \
                                v == T.C(dflt):
                            adv = True
                elif iv is not None and iv[0] == 'c':
                    for k, v in iv[1]:
                        if isinstance(k, EnumVal) and \
                                k.name == 'MAX_HEADER_LIST_SIZE' and \
                                v == dflt:
                            adv = True
    ctx.ob('FLOW.header-list-cap', fi.qual, 'decoder cap initialised',
           ok and isinstance(dflt, int) and 0 < dflt <= 2 ** 20,
           'decoder.max_header_list_size = DEFAULT_MAX_HEADER_LIST_SIZE '
           '(%r)' % dflt, node=fi.node)
    ctx.ob('FLOW.header-list-cap', fi.qual, 'same value advertised', adv,
           'local MAX_HEADER_LIST_SIZE starts at the same constant',
           node=fi.node)
    f8 = m.func(H + '_local_settings_acked')
    ok = cm.Every()
    for p in cm.normal_paths(eng.I.run(f8)):
        for e in p.events:
            if e.kind == 'write' and e.attr == 'max_header_list_size':
                ok(cm.attr_chain(e.base) == 'self.decoder' and
                   e.value[0] == 'a' and e.value[2] == 'new_value')
    ctx.ob('FLOW.header-list-cap', f8.qual, 'refreshed at acknowledge', ok,
           'decoder.max_header_list_size = acknowledged '
           'MAX_HEADER_LIST_SIZE', node=f8.node)
    # ... and by nothing else: the cap is OUR acknowledged limit; a value the
    # peer advertises for its own side must not reach the decoder
    from . import flow
    writers = flow.attr_writers(eng, 'max_header_list_size')
    allowed = {H + '__init__', H + '_local_settings_acked'}
    ctx.ob('OWN.header-list-cap', 'hpack.Decoder.max_header_list_size',
           'writers', set(writers) <= allowed and len(writers) == 2,
           'written by %s; the cap follows the local setting only '
           '(initial value and acknowledged changes)' % sorted(
               w.split('.')[-1] for w in writers))
    f9 = m.func('connection._decode_headers')
    ok = False
    for p in eng.I.run(f9):
        if cm.explicit_raise(p) is not None and \
                p.exc['names'] == {'DenialOfServiceError'} and any(
                    e.kind == 'catch' and 'OversizedHeaderListError'
                    in e.names for e in p.events):
            ok = True
    from .c18 import class_code
    ctx.ob('FLOW.header-list-cap', f9.qual, 'overrun => ENHANCE_YOUR_CALM',
           ok and class_code(m, 'DenialOfServiceError') ==
           'ENHANCE_YOUR_CALM', 'OversizedHeaderListError becomes '
           'DenialOfServiceError (ENHANCE_YOUR_CALM)', node=f9.node)
