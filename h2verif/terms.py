"""Terms in normal form (DESIGN.md section 2.3).

Terms are hashable tuples:
  ('c', value)                 constant (ints, bytes, str, None, bool, EnumVal,
                               tuples/frozensets of constants)
  ('p', name)                  parameter (value on entry)
  ('a', base, attr, ver)       attribute read; ver counts invalidating calls
  ('call', name, args, site)   result of a call (site None for pure functions)
  ('aff', ((atom, coef), ...), k)   affine integer form
  ('cmp0', op, aff)            aff op 0, op in > >= == !=
  ('eq', a, b) ('ne', a, b)    symbolic (non-integer) equality
  ('is', a, b) ('in', a, b)    identity / membership
  ('not', t) ('and', (..)) ('or', (..)) ('truth', t)
  ('sub', base, idx) ('slice', base, lo, hi)
  ('obj', site, cls)           object constructed at site
  ('tuple', (..)) ('set', frozenset) ('concat', a, b) ('bin', op, a, b)
  ('lv', site, i)              loop variable (i-th target) of loop at site
  ('exc', site)                exception bound by handler at site
  ('isinstance', t, names)     isinstance test
  ('unk', site)
"""
from .srcmodel import EnumVal


def C(v):
    return ('c', v)


NONE = C(None)
TRUE = C(True)
FALSE = C(False)


def is_const(t):
    return t[0] == 'c'


def const_val(t):
    return t[1]


def is_int_const(t):
    return t[0] == 'c' and isinstance(t[1], int) and \
        not isinstance(t[1], bool)


# ---------------------------------------------------------------------------
# affine forms

def to_aff(t):
    """-> (dict atom->coef, const) or None when t is not integer-like."""
    if t[0] == 'aff':
        return dict(t[1]), t[2]
    if t[0] == 'c':
        v = t[1]
        if isinstance(v, EnumVal) and isinstance(v.value, int):
            return {t: 1}, 0
        if isinstance(v, bool):
            return {}, int(v)
        if isinstance(v, int):
            return {}, v
        return None
    return {t: 1}, 0


def mk_aff(coefs, k):
    coefs = {a: c for a, c in coefs.items() if c != 0}
    if not coefs:
        return C(k)
    if k == 0 and len(coefs) == 1:
        (a, c), = coefs.items()
        if c == 1:
            return a
    return ('aff', tuple(sorted(coefs.items(), key=lambda x: repr(x[0]))), k)


def add(a, b, sign=1):
    fa, fb = to_aff(a), to_aff(b)
    if fa is None or fb is None:
        return None
    co = dict(fa[0])
    for x, c in fb[0].items():
        co[x] = co.get(x, 0) + sign * c
    return mk_aff(co, fa[1] + sign * fb[1])


def mul(a, b):
    fa, fb = to_aff(a), to_aff(b)
    if fa is None or fb is None:
        return None
    if not fa[0]:
        k = fa[1]
        return mk_aff({x: c * k for x, c in fb[0].items()}, fb[1] * k)
    if not fb[0]:
        k = fb[1]
        return mk_aff({x: c * k for x, c in fa[0].items()}, fa[1] * k)
    return None


def neg(a):
    return mul(a, C(-1))


_FLIP = {'<': '>', '<=': '>=', '>': '<', '>=': '<='}


def cmp(op, a, b):
    """Canonical comparison term."""
    if op in ('==', '!='):
        ia = _intish(a)
        ib = _intish(b)
        if ia and ib:
            d = add(a, b, -1)
            if d is not None:
                if d[0] == 'c':
                    return C((d[1] == 0) if op == '==' else (d[1] != 0))
                d = _norm_sign(d)
                return ('cmp0', op, d)
        if a[0] == 'c' and b[0] == 'c':
            try:
                r = (a[1] == b[1])
                return C(r if op == '==' else not r)
            except Exception:
                pass
        x, y = sorted([a, b], key=repr)
        return ('eq' if op == '==' else 'ne', x, y)
    if op in ('<', '<='):
        a, b = b, a
        op = _FLIP[op]
    # now a > b or a >= b  ->  a - b > 0
    d = add(a, b, -1)
    if d is None:
        return ('bin', op, a, b)
    if d[0] == 'c' and isinstance(d[1], int):
        return C(d[1] > 0 if op == '>' else d[1] >= 0)
    return ('cmp0', op, d)


def _intish(t):
    if t[0] == 'aff':
        return True
    if t[0] == 'c':
        return isinstance(t[1], int) and not isinstance(t[1], bool)
    if t[0] == 'call' and t[1] in ('len', 'int', 'min', 'max'):
        return True
    return False


def _norm_sign(d):
    f = to_aff(d)
    items = sorted(f[0].items(), key=lambda x: repr(x[0]))
    if items and items[0][1] < 0:
        return mk_aff({a: -c for a, c in f[0].items()}, -f[1])
    return d


def negate(t):
    """Logical negation in normal form."""
    k = t[0]
    if k == 'c':
        return C(not t[1])
    if k == 'not':
        return t[1]
    if k == 'cmp0':
        op, d = t[1], t[2]
        if op == '==':
            return ('cmp0', '!=', d)
        if op == '!=':
            return ('cmp0', '==', d)
        nd = neg(d)
        # not (d > 0)  ==  -d >= 0 ; not (d >= 0) == -d > 0
        return ('cmp0', '>=' if op == '>' else '>', nd)
    if k == 'eq':
        return ('ne', t[1], t[2])
    if k == 'ne':
        return ('eq', t[1], t[2])
    if k == 'and':
        return ('or', tuple(negate(x) for x in t[1]))
    if k == 'or':
        return ('and', tuple(negate(x) for x in t[1]))
    return ('not', t)


def truth(t):
    """Term used as a condition."""
    if t[0] in ('cmp0', 'eq', 'ne', 'is', 'in', 'not', 'and', 'or',
                'isinstance', 'truth'):
        return t
    if t[0] == 'c':
        try:
            return C(bool(t[1]))
        except Exception:
            return ('truth', t)
    return ('truth', t)


def show(t, depth=0):
    """Human-readable rendering (also used in finding keys)."""
    if depth > 8:
        return '...'
    k = t[0]
    d = depth + 1
    if k == 'c':
        return repr(t[1])
    if k == 'p':
        return t[1]
    if k == 'a':
        if len(t) > 3 and t[3]:
            return '%s.%s@%d' % (show(t[1], d), t[2], t[3])
        return '%s.%s' % (show(t[1], d), t[2])
    if k == 'call':
        return '%s(%s)' % (t[1], ', '.join(show(x, d) for x in t[2]))
    if k == 'aff':
        parts = []
        for a, c in t[1]:
            s = show(a, d)
            parts.append(s if c == 1 else ('-%s' % s if c == -1
                                           else '%d*%s' % (c, s)))
        if t[2]:
            parts.append(str(t[2]))
        return ' + '.join(parts).replace('+ -', '- ')
    if k == 'cmp0':
        return '(%s %s 0)' % (show(t[2], d), t[1])
    if k in ('eq', 'ne', 'is', 'in'):
        op = {'eq': '==', 'ne': '!=', 'is': 'is', 'in': 'in'}[k]
        return '(%s %s %s)' % (show(t[1], d), op, show(t[2], d))
    if k == 'not':
        return 'not %s' % show(t[1], d)
    if k in ('and', 'or'):
        return '(' + (' %s ' % k).join(show(x, d) for x in t[1]) + ')'
    if k == 'truth':
        return show(t[1], d)
    if k == 'sub':
        return '%s[%s]' % (show(t[1], d), show(t[2], d))
    if k == 'slice':
        return '%s[%s:%s]' % (show(t[1], d),
                              '' if t[2] is None else show(t[2], d),
                              '' if t[3] is None else show(t[3], d))
    if k == 'obj':
        return '%s#' % t[2]
    if k == 'tuple':
        return '(' + ', '.join(show(x, d) for x in t[1]) + ')'
    if k == 'set':
        return '{' + ', '.join(sorted(show(x, d) for x in t[1])) + '}'
    if k == 'concat':
        return '%s ++ %s' % (show(t[1], d), show(t[2], d))
    if k == 'bin':
        return '(%s %s %s)' % (show(t[2], d), t[1], show(t[3], d))
    if k == 'lv':
        return 'each(%s)%s' % (show(t[2], d), ('.%d' % t[3]) if len(t) > 3 else '')
    if k == 'phi':
        return 'phi(%s)' % t[2]
    if k == 'global':
        return t[2]
    if k == 'exc':
        return 'exc'
    if k == 'isinstance':
        return 'isinstance(%s, %s)' % (show(t[1], d), '|'.join(t[2]))
    if k == 'ifexp':
        return '(%s if %s else %s)' % (show(t[2], d), show(t[1], d),
                                       show(t[3], d))
    return '<%s>' % k


def subterms(t):
    yield t
    for x in t[1:]:
        if isinstance(x, tuple):
            if x and isinstance(x[0], str) and x[0] in _KINDS:
                yield from subterms(x)
            else:
                for y in x:
                    if isinstance(y, tuple) and y and isinstance(y[0], str) \
                            and y[0] in _KINDS:
                        yield from subterms(y)
                    elif isinstance(y, tuple) and len(y) == 2 and \
                            isinstance(y[0], tuple):
                        yield from subterms(y[0])
        elif isinstance(x, frozenset):
            for y in x:
                if isinstance(y, tuple) and y and y[0] in _KINDS:
                    yield from subterms(y)


_KINDS = {'c', 'p', 'a', 'call', 'aff', 'cmp0', 'eq', 'ne', 'is', 'in', 'not',
          'and', 'or', 'truth', 'sub', 'slice', 'obj', 'tuple', 'set',
          'concat', 'bin', 'lv', 'exc', 'isinstance', 'unk', 'ifexp', 'list',
          'func', 'comp', 'phi', 'global', 'cls', 'ext', 'gen', 'splat'}


def mentions(t, sub):
    return any(x == sub for x in subterms(t))
