"""Source model of /repo/src/h2: modules, classes, functions, constants.

Everything is parsed with ``ast`` on every run; nothing is imported.
"""
import ast
import builtins
import importlib.util
import os

from .core import AnalysisError, REPO


class NotConst(Exception):
    pass


class FuncInfo:
    def __init__(self, qual, node, module, cls, parent=None):
        self.qual = qual            # 'connection.H2Connection.send_data'
        self.node = node
        self.module = module        # module short name
        self.cls = cls              # class qual or None
        self.parent = parent        # enclosing FuncInfo for nested functions
        self.name = node.name
        self.is_generator = any(
            isinstance(n, (ast.Yield, ast.YieldFrom))
            for n in walk_own(node))
        self.decorators = [dec_name(d) for d in node.decorator_list]
        self.params = [a.arg for a in node.args.posonlyargs + node.args.args]
        self.kwonly = [a.arg for a in node.args.kwonlyargs]
        self.vararg = node.args.vararg.arg if node.args.vararg else None
        self.kwarg = node.args.kwarg.arg if node.args.kwarg else None

    @property
    def is_property(self):
        return 'property' in self.decorators

    @property
    def is_setter(self):
        return any(d.endswith('.setter') for d in self.decorators)

    def defaults(self):
        """param name -> default expr node."""
        a = self.node.args
        pos = a.posonlyargs + a.args
        out = {}
        for p, d in zip(pos[len(pos) - len(a.defaults):], a.defaults):
            out[p.arg] = d
        for p, d in zip(a.kwonlyargs, a.kw_defaults):
            if d is not None:
                out[p.arg] = d
        return out

    def __repr__(self):
        return '<func %s>' % self.qual


class ClassInfo:
    def __init__(self, qual, node, module):
        self.qual = qual
        self.node = node
        self.module = module
        self.name = node.name
        self.base_exprs = node.bases
        self.bases = []         # resolved names (simple or dotted)
        self.methods = {}       # name -> FuncInfo (last definition wins,
        self.setters = {}       # property setters kept apart)
        self.attrs = {}         # class-level assignments name -> expr

    def __repr__(self):
        return '<class %s>' % self.qual


def dec_name(d):
    if isinstance(d, ast.Name):
        return d.id
    if isinstance(d, ast.Attribute):
        return '%s.%s' % (dec_name(d.value), d.attr)
    if isinstance(d, ast.Call):
        return dec_name(d.func)
    return '?'


def walk_own(fnode):
    """Walk a function body without descending into nested defs/classes."""
    stack = list(fnode.body)
    while stack:
        n = stack.pop()
        yield n
        for c in ast.iter_child_nodes(n):
            if isinstance(c, (ast.FunctionDef, ast.AsyncFunctionDef,
                              ast.ClassDef, ast.Lambda)):
                continue
            stack.append(c)


class ModuleInfo:
    def __init__(self, name, path, src, tree):
        self.name = name
        self.path = path
        self.src = src
        self.tree = tree
        self.imports = {}      # local name -> ('h2', module, name) |
        #                         ('ext', dotted module, name|None)
        self.assigns = {}      # module-level name -> [value expr, ...]
        self.funcs = {}
        self.classes = {}


class Model:
    def __init__(self, repo=None):
        self.repo = repo or REPO
        self.src_dir = os.path.join(self.repo, 'src', 'h2')
        if not os.path.isdir(self.src_dir):
            raise AnalysisError('source directory not found: %s'
                                % self.src_dir)
        self.modules = {}
        self.funcs = {}
        self.classes = {}
        self._load()
        self._enum_cache = {}
        self._fold_guard = set()

    # ------------------------------------------------------------------
    def _load(self):
        from . import normalise
        parsed = self._parse_all()
        self._normalise(parsed, frozenset())
        lost = [k for k in self.aliases.resigned
                if k not in normalise.function_table(
                    {n: v[2] for n, v in parsed.items()})]
        if lost:
            # a function whose signature changed was taken apart but its
            # pinned form could not be put back: better to keep it whole,
            # under its own name, and let the rules look at it as it is
            parsed = self._parse_all()
            self._normalise(parsed, frozenset(lost))
        for name, (path, src, tree) in parsed.items():
            for n in ast.walk(tree):
                for c in ast.iter_child_nodes(n):
                    c._parent = n
            m = ModuleInfo(name, path, src, tree)
            self.modules[name] = m
            self._index_module(m)
        for c in self.classes.values():
            c.bases = [self._base_name(c, b) for b in c.base_exprs]

    def _parse_all(self):
        parsed = {}
        for fn in sorted(os.listdir(self.src_dir)):
            if not fn.endswith('.py'):
                continue
            name = fn[:-3]
            path = os.path.join(self.src_dir, fn)
            with open(path, encoding='utf-8') as fh:
                src = fh.read()
            try:
                tree = ast.parse(src, filename=path)
            except SyntaxError as e:
                raise AnalysisError('cannot parse %s: %s' % (path, e))
            rel = os.path.relpath(path, self.repo)
            for n in ast.walk(tree):
                n._file = rel
            parsed[name] = (path, src, tree)
        return parsed

    def _normalise(self, parsed, keep_whole):
        # helpers the pinned tree does not know are inlined (normalise.py)
        from . import normalise
        # renamed / moved functions and renamed attributes are mapped back
        # to the names of the pinned tree first
        self.aliases = normalise.map_back({k: v[2] for k, v in parsed.items()})
        # renamed parameters of non-public functions get their pinned names
        self.aliases.params = normalise.canon_params(
            {k: v[2] for k, v in parsed.items()}, self.aliases)
        # tables keyed by True/False are the conditional they stand for;
        # locals that only name an attribute chain or a bound method are
        # replaced by what they name
        # a value a pinned helper now computes first thing from what it is
        # handed is computed by its callers again
        self.aliases.hoisted = normalise.hoist_param_prologue(
            {k: v[2] for k, v in parsed.items()})
        self.aliases.tables = normalise.bool_tables(
            {k: v[2] for k, v in parsed.items()})
        self.aliases.locals_inlined = normalise.inline_aliases(
            {k: v[2] for k, v in parsed.items()})
        # non-public functions whose signature changed are treated as new
        # helpers (inlined below, the pinned body looked for afterwards)
        self.aliases.resigned = normalise.demote_changed(
            {k: v[2] for k, v in parsed.items()}, self.aliases, keep_whole)
        # pinned helpers that were inlined into their callers are put back
        self.aliases.restored = normalise.outline_back(
            {k: v[2] for k, v in parsed.items()}, self.aliases)
        self.norm = normalise.Normaliser(
            {k: v[2] for k, v in parsed.items()},
            normalise.known_functions()).run()
        # ... and once more now that helpers the pinned tree does not know
        # are inlined: a pinned helper that was renamed *and* given another
        # signature (its callers doing part of its work) reappears as the
        # pinned body at the call site and is put back under its own name
        self.aliases.restored = list(self.aliases.restored) + \
            normalise.outline_back({k: v[2] for k, v in parsed.items()},
                                   self.aliases)
        self.norm.unrolled = normalise.unroll_callable_loops(
            {k: v[2] for k, v in parsed.items()})
        if self.norm.unrolled:
            # unrolling a loop over a table of functions turns indirect
            # calls into direct ones: helpers among them are inlined now
            n2 = normalise.Normaliser(
                {k: v[2] for k, v in parsed.items()},
                normalise.known_functions()).run()
            self.norm.inlined = list(self.norm.inlined) + list(n2.inlined)
            for q, h in n2.helpers.items():
                self.norm.helpers.setdefault(q, h)

    def _base_name(self, c, b):
        if isinstance(b, ast.Name):
            imp = self.modules[c.module].imports.get(b.id)
            if imp and imp[0] == 'h2':
                return b.id
            return b.id
        if isinstance(b, ast.Attribute):
            return b.attr
        return '?'

    def _index_module(self, m):
        for st in m.tree.body:
            self._index_stmt(m, st)

    def _index_stmt(self, m, st):
        if isinstance(st, ast.Import):
            for a in st.names:
                local = a.asname or a.name.split('.')[0]
                m.imports[local] = ('extmod', a.name if a.asname
                                    else a.name.split('.')[0], None)
        elif isinstance(st, ast.ImportFrom):
            mod = st.module or ''
            if st.level > 0 or mod == 'h2' or mod.startswith('h2.'):
                short = mod[3:] if mod.startswith('h2.') else mod
                if mod == 'h2':
                    short = ''
                for a in st.names:
                    m.imports[a.asname or a.name] = ('h2', short, a.name)
            else:
                for a in st.names:
                    m.imports[a.asname or a.name] = ('ext', mod, a.name)
        elif isinstance(st, (ast.FunctionDef, ast.AsyncFunctionDef)):
            self._index_func(m, st, None, m.name)
        elif isinstance(st, ast.ClassDef):
            qual = '%s.%s' % (m.name, st.name)
            c = ClassInfo(qual, st, m.name)
            m.classes[st.name] = c
            self.classes[qual] = c
            for s2 in st.body:
                if isinstance(s2, (ast.FunctionDef, ast.AsyncFunctionDef)):
                    fi = self._index_func(m, s2, qual, qual)
                    if fi.is_setter:
                        c.setters[s2.name] = fi
                    else:
                        c.methods[s2.name] = fi
                elif isinstance(s2, ast.Assign):
                    for t in s2.targets:
                        if isinstance(t, ast.Name):
                            c.attrs[t.id] = s2.value
                elif isinstance(s2, ast.AnnAssign) and s2.value is not None:
                    if isinstance(s2.target, ast.Name):
                        c.attrs[s2.target.id] = s2.value
        elif isinstance(st, ast.Assign):
            for t in st.targets:
                if isinstance(t, ast.Name):
                    m.assigns.setdefault(t.id, []).append(st.value)
                elif isinstance(t, ast.Subscript) and \
                        isinstance(t.value, ast.Name):
                    # X[k] = v at module level: X is built in steps, its
                    # first value is not its value (modeval evaluates these)
                    m.assigns.setdefault(t.value.id, []).append(st)
        elif isinstance(st, ast.AnnAssign) and st.value is not None and \
                isinstance(st.target, ast.Name):
            m.assigns.setdefault(st.target.id, []).append(st.value)
        elif isinstance(st, ast.AugAssign) and \
                isinstance(st.target, ast.Name):
            m.assigns.setdefault(st.target.id, []).append(st)
        elif isinstance(st, ast.Expr) and isinstance(st.value, ast.Call) \
                and isinstance(st.value.func, ast.Attribute) and \
                isinstance(st.value.func.value, ast.Name) and \
                st.value.func.attr in ('append', 'extend', 'insert',
                                       'update', 'add', 'setdefault', 'pop',
                                       'remove', 'clear', 'sort', 'reverse',
                                       'discard'):
            nm = st.value.func.value.id
            if nm in m.assigns:
                m.assigns[nm].append(st)
        elif isinstance(st, (ast.If, ast.Try)):
            for s2 in ast.iter_child_nodes(st):
                if isinstance(s2, ast.stmt):
                    self._index_stmt(m, s2)

    def _index_func(self, m, node, cls, prefix, parent=None):
        qual = '%s.%s' % (prefix, node.name)
        qual = self.aliases.moved.get(qual, qual)
        fi = FuncInfo(qual, node, m.name, cls, parent)
        if fi.is_setter:
            self.funcs[qual + '.setter'] = fi
            fi.qual = qual + '.setter'
        else:
            self.funcs[qual] = fi
        if cls is None and parent is None:
            m.funcs[node.name] = fi
        node._func = fi
        for n in walk_own(node):
            n._func = fi
        for n in ast.walk(node):
            if n is node:
                continue
            if isinstance(n, (ast.FunctionDef, ast.AsyncFunctionDef)) and \
                    self._direct_parent_func(n) is node:
                self._index_func(m, n, cls, qual, fi)
        return fi

    @staticmethod
    def _direct_parent_func(n):
        p = getattr(n, '_parent', None)
        while p is not None and not isinstance(
                p, (ast.FunctionDef, ast.AsyncFunctionDef)):
            p = getattr(p, '_parent', None)
        return p

    # ------------------------------------------------------------------
    def file_of(self, node):
        return getattr(node, '_file', None)

    def resigned_kept(self):
        """Non-public functions of the pinned tree that are still there under
        their name but take another number of positional parameters (and
        were not put back by the normaliser): qual -> (now, pinned)."""
        if getattr(self, '_resigned_kept', None) is None:
            from . import normalise
            out = {}
            pinned = normalise.load_pinned()['functions']
            for q, fi in self.funcs.items():
                pk = pinned.get(q)
                nm = q.split('.')[-1]
                if pk is None or pk.get('nargs') is None or \
                        not nm.startswith('_') or nm.startswith('__') or \
                        fi.vararg or fi.kwarg:
                    continue
                if len(fi.params) != pk['nargs']:
                    out[q] = (len(fi.params), pk['nargs'])
            self._resigned_kept = out
        return self._resigned_kept

    def func(self, qual, required=True):
        """Look a function up by qualified name; fall back to a unique
        simple name (so moving a function between modules is tolerated)."""
        f = self.funcs.get(qual)
        if f is not None:
            return f
        parts = qual.split('.')
        tail2 = '.'.join(parts[-2:])
        cands = [x for q, x in self.funcs.items()
                 if q.endswith('.' + tail2)] if len(parts) > 2 else []
        if len(cands) == 1:
            return cands[0]
        cands = [x for q, x in self.funcs.items()
                 if q.split('.')[-1] == parts[-1]
                 and (len(parts) < 3 or
                      (x.cls or '').split('.')[-1] == parts[-2])]
        if len(cands) == 1:
            return cands[0]
        # a method turned into a module-level function (or the reverse) of
        # the same, otherwise unused, name
        cands = [x for q, x in self.funcs.items()
                 if q.split('.')[-1] == parts[-1] and x.parent is None]
        if len(cands) == 1 and parts[-1].startswith('_') and \
                not parts[-1].startswith('__'):
            return cands[0]
        if required:
            raise AnalysisError('anchor function not found: %s' % qual)
        return None

    def cls(self, qual, required=True):
        c = self.classes.get(qual)
        if c is not None:
            return c
        name = qual.split('.')[-1]
        cands = [x for x in self.classes.values() if x.name == name]
        if len(cands) == 1:
            return cands[0]
        if required:
            raise AnalysisError('anchor class not found: %s' % qual)
        return None

    def class_by_name(self, name):
        cands = [x for x in self.classes.values() if x.name == name]
        return cands[0] if len(cands) == 1 else None

    def methods_of(self, cqual, inherited=True):
        """name -> FuncInfo including h2 base classes."""
        out = {}
        c = self.classes.get(cqual)
        seen = set()
        order = []
        while c is not None and c.qual not in seen:
            seen.add(c.qual)
            order.append(c)
            nxt = None
            for b in c.bases:
                bc = self.class_by_name(b)
                if bc is not None:
                    nxt = bc
                    break
            c = nxt if inherited else None
        for c in reversed(order):
            out.update(c.methods)
        return out

    def lookup_method(self, cqual, name):
        return self.methods_of(cqual).get(name)

    def resolve_name(self, module, name):
        """What does a bare name denote at module level?
        -> ('func', FuncInfo) | ('class', ClassInfo) | ('ext', mod, name)
           | ('const', expr nodes) | ('extmod', mod) | None"""
        m = self.modules[module]
        if name in m.funcs:
            return ('func', m.funcs[name])
        if name in m.classes:
            return ('class', m.classes[name])
        if name in m.assigns:
            return ('const', m.assigns[name], module)
        imp = m.imports.get(name)
        if imp:
            if imp[0] == 'h2':
                mod, nm = imp[1], imp[2]
                if mod == '' and nm in self.modules:
                    return ('h2mod', nm)
                mod = mod.split('.')[-1] if mod else mod
                if mod in self.modules:
                    return self.resolve_name(mod, nm)
                return None
            if imp[0] == 'ext':
                return ('ext', imp[1], imp[2])
            if imp[0] == 'extmod':
                if imp[1] == 'h2':
                    return ('h2pkg',)
                return ('extmod', imp[1])
        return None

    # -- enums ---------------------------------------------------------
    def is_enum(self, c):
        return any(b in ('Enum', 'IntEnum') for b in c.bases)

    def enum_members(self, cqual):
        """Ordered dict member name -> value (folded)."""
        if cqual in self._enum_cache:
            return self._enum_cache[cqual]
        c = self.classes[cqual]
        out = {}
        for st in c.node.body:
            if isinstance(st, ast.Assign) and len(st.targets) == 1 and \
                    isinstance(st.targets[0], ast.Name):
                try:
                    out[st.targets[0].id] = self.fold(st.value, c.module)
                except NotConst:
                    out[st.targets[0].id] = None
        self._enum_cache[cqual] = out
        return out

    # -- constant folding ------------------------------------------------
    def fold(self, e, module, cls=None, env=None):
        """Fold an expression to a Python value.  Enum members fold to
        EnumVal(cls, name, value)."""
        if isinstance(e, ast.Constant):
            return e.value
        if isinstance(e, ast.Tuple):
            return tuple(self.fold(x, module, cls, env) for x in e.elts)
        if isinstance(e, ast.List):
            return [self.fold(x, module, cls, env) for x in e.elts]
        if isinstance(e, ast.Set):
            return frozenset(self.fold(x, module, cls, env) for x in e.elts)
        if isinstance(e, ast.Dict):
            # small literal tables with constant keys only (the transition
            # tables, keyed by tuples of enum members, are read by fsm.py
            # and stay symbolic)
            if any(not isinstance(k, ast.Constant) for k in e.keys) or \
                    len(e.keys) > 16:
                raise NotConst
            try:
                return {self.fold(k, module, cls, env):
                        self.fold(v, module, cls, env)
                        for k, v in zip(e.keys, e.values)}
            except TypeError:
                raise NotConst
        if isinstance(e, ast.UnaryOp):
            v = self.fold(e.operand, module, cls, env)
            if isinstance(e.op, ast.USub):
                return -v
            if isinstance(e.op, ast.Not):
                return not v
            raise NotConst
        if isinstance(e, ast.BinOp):
            a = self.fold(e.left, module, cls, env)
            b = self.fold(e.right, module, cls, env)
            a = a.value if isinstance(a, EnumVal) else a
            b = b.value if isinstance(b, EnumVal) else b
            try:
                if isinstance(e.op, ast.Add):
                    return a + b
                if isinstance(e.op, ast.Sub):
                    return a - b
                if isinstance(e.op, ast.Mult):
                    return a * b
                if isinstance(e.op, ast.Pow) and abs(b) < 64:
                    return a ** b
                if isinstance(e.op, ast.FloorDiv):
                    return a // b
                if isinstance(e.op, ast.Mod) and isinstance(a, int):
                    return a % b
                if isinstance(e.op, ast.LShift):
                    return a << b
            except Exception:
                raise NotConst
            raise NotConst
        if isinstance(e, ast.Name):
            if env and e.id in env:
                return env[e.id]
            if e.id in ('True', 'False', 'None'):
                return {'True': True, 'False': False, 'None': None}[e.id]
            if cls is not None:
                c = self.classes.get(cls)
                if c and e.id in c.attrs:
                    return self.fold(c.attrs[e.id], c.module, cls)
            r = self.resolve_name(module, e.id)
            if r and r[0] == 'const' and len(r[1]) == 1:
                key = (module, e.id)
                if key in self._fold_guard:
                    raise NotConst
                self._fold_guard.add(key)
                try:
                    return self.fold(r[1][0], r[2])
                finally:
                    self._fold_guard.discard(key)
            raise NotConst
        if isinstance(e, ast.Attribute):
            # Enum member / class constant / external constant
            base = e.value
            if isinstance(base, ast.Name):
                if base.id == 'self' and cls is not None:
                    c = self.classes.get(cls)
                    if c and e.attr in c.attrs:
                        return self.fold(c.attrs[e.attr], c.module, cls)
                    raise NotConst
                r = self.resolve_name(module, base.id)
                if r and r[0] == 'class':
                    c = r[1]
                    if self.is_enum(c):
                        mem = self.enum_members(c.qual)
                        if e.attr in mem:
                            return EnumVal(c.name, e.attr, mem[e.attr])
                        raise NotConst
                    if e.attr in c.attrs:
                        return self.fold(c.attrs[e.attr], c.module, c.qual)
                if r and r[0] == 'ext':
                    from . import extlib
                    v = extlib.external_constant(r[1], r[2], e.attr)
                    if v is not extlib.MISSING:
                        return v
            if isinstance(base, ast.Attribute):
                # h2.errors.ErrorCodes.X
                chain = attr_chain(e)
                if chain and chain[0] == 'h2' and len(chain) == 4:
                    mod, cn, mem = chain[1], chain[2], chain[3]
                    c = self.classes.get('%s.%s' % (mod, cn))
                    if c is not None and self.is_enum(c):
                        mm = self.enum_members(c.qual)
                        if mem in mm:
                            return EnumVal(c.name, mem, mm[mem])
            raise NotConst
        if isinstance(e, ast.Call):
            fn = e.func
            if isinstance(fn, ast.Name) and fn.id in ('frozenset', 'set',
                                                      'tuple', 'list') \
                    and len(e.args) == 1 and not e.keywords:
                v = self.fold(e.args[0], module, cls, env)
                return (frozenset(v) if fn.id in ('frozenset', 'set')
                        else (tuple(v) if fn.id == 'tuple' else list(v)))
            if isinstance(fn, ast.Name) and fn.id == 'frozenset' and \
                    not e.args:
                return frozenset()
            if isinstance(fn, ast.Name) and fn.id == 'len' and \
                    len(e.args) == 1:
                a = e.args[0]
                if isinstance(a, ast.Name):
                    r = self.resolve_name(module, a.id)
                    if r and r[0] == 'class' and self.is_enum(r[1]):
                        return len(self.enum_members(r[1].qual))
                return len(self.fold(a, module, cls, env))
            if isinstance(fn, ast.Name) and fn.id == 'int' and \
                    len(e.args) == 1:
                v = self.fold(e.args[0], module, cls, env)
                v = v.value if isinstance(v, EnumVal) else v
                return int(v)
            raise NotConst
        if isinstance(e, ast.IfExp):
            t = self.fold(e.test, module, cls, env)
            return self.fold(e.body if t else e.orelse, module, cls, env)
        if isinstance(e, ast.Compare) and len(e.ops) == 1:
            a = self.fold(e.left, module, cls, env)
            b = self.fold(e.comparators[0], module, cls, env)
            op = e.ops[0]
            try:
                if isinstance(op, ast.Eq):
                    return a == b
                if isinstance(op, ast.NotEq):
                    return a != b
                if isinstance(op, ast.Lt):
                    return a < b
                if isinstance(op, ast.LtE):
                    return a <= b
                if isinstance(op, ast.Gt):
                    return a > b
                if isinstance(op, ast.GtE):
                    return a >= b
                if isinstance(op, ast.In):
                    return a in b
                if isinstance(op, ast.NotIn):
                    return a not in b
            except Exception:
                raise NotConst
        raise NotConst

    def try_fold(self, e, module, cls=None, env=None, default=None):
        try:
            return self.fold(e, module, cls, env)
        except (NotConst, RecursionError):
            return default

    # -- exception hierarchy ---------------------------------------------
    def exc_bases(self):
        """simple class name -> list of base simple names, for h2,
        hyperframe, hpack and builtin exception classes."""
        if hasattr(self, '_exc_bases'):
            return self._exc_bases
        from . import extlib
        out = {}
        for name in dir(builtins):
            obj = getattr(builtins, name)
            if isinstance(obj, type) and issubclass(obj, BaseException):
                out[name] = [b.__name__ for b in obj.__bases__
                             if issubclass(b, BaseException)]
        import binascii  # stdlib of the checker's interpreter
        out['binascii.Error'] = ['ValueError']
        out.update(extlib.external_exception_bases())
        for c in self.classes.values():
            if c.module == 'exceptions':
                out[c.name] = list(c.bases)
        self._exc_bases = out
        return out

    def exc_is_subclass(self, a, b):
        """Is exception class name a a subclass of (or equal to) b?"""
        if a == b:
            return True
        bases = self.exc_bases()
        seen = set()
        stack = [a]
        while stack:
            x = stack.pop()
            if x in seen:
                continue
            seen.add(x)
            for y in bases.get(x, []):
                if y == b:
                    return True
                stack.append(y)
        return False

    def exc_class_attr(self, cname, attr):
        """Class-level attribute of an h2 exception class through its MRO
        (returns expr node, defining class) or (None, None)."""
        seen = set()
        stack = [cname]
        while stack:
            x = stack.pop(0)
            if x in seen:
                continue
            seen.add(x)
            c = self.class_by_name(x)
            if c is None:
                continue
            if attr in c.attrs:
                return c.attrs[attr], c
            stack.extend(c.bases)
        return None, None


class EnumVal:
    """A folded enum member."""
    __slots__ = ('cls', 'name', 'value')

    def __init__(self, cls, name, value):
        self.cls = cls
        self.name = name
        self.value = value

    def __eq__(self, other):
        if isinstance(other, EnumVal):
            return (self.cls, self.name) == (other.cls, other.name)
        return False

    def __hash__(self):
        return hash((self.cls, self.name))

    def __repr__(self):
        return '%s.%s' % (self.cls, self.name)

    def __int__(self):
        return int(self.value)

    def __index__(self):
        return int(self.value)


def attr_chain(e):
    """a.b.c -> ['a','b','c'] or None."""
    out = []
    while isinstance(e, ast.Attribute):
        out.append(e.attr)
        e = e.value
    if isinstance(e, ast.Name):
        out.append(e.id)
        return list(reversed(out))
    return None


def unparse(n):
    try:
        return ast.unparse(n)
    except Exception:
        return '<%s>' % type(n).__name__
