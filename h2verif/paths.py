"""Path effect traces: a syntax-directed walk that enumerates the acyclic
control paths of a function and records an ordered effect trace per path
(DESIGN.md section 2.3).  Reaching definitions + normal forms; no solver,
no execution of the target.
"""
import ast

from . import extlib, terms as T
from .core import AnalysisError
from .srcmodel import NotConst, EnumVal, unparse, walk_own

PURE_BUILTINS = {'len', 'min', 'max', 'int', 'bool', 'isinstance', 'bytes',
                 'str', 'repr', 'type', 'ord', 'all', 'any', 'memoryview',
                 'bytearray', 'range', 'frozenset', 'set', 'tuple', 'list',
                 'sorted', 'getattr', 'map'}
CONSUMING_BUILTINS = {'list', 'tuple', 'set', 'frozenset', 'sorted', 'all',
                      'any', 'sum', 'dict'}


class Ev:
    __slots__ = ('kind', 'node', 'd', 'frame', 'depth', 'in_loop')

    def __init__(self, kind, node, frame, depth, in_loop, **d):
        self.kind = kind
        self.node = node
        self.d = d
        self.frame = frame      # qual of the function whose code this is
        self.depth = depth
        self.in_loop = in_loop

    def __getattr__(self, k):
        try:
            return self.d[k]
        except KeyError:
            raise AttributeError(k)

    def get(self, k, default=None):
        return self.d.get(k, default)

    def __repr__(self):
        def s(v):
            if isinstance(v, tuple) and v and isinstance(v[0], str):
                return T.show(v)
            if isinstance(v, (list, tuple)):
                return '[' + ', '.join(s(x) for x in v) + ']'
            if isinstance(v, dict):
                return '{' + ', '.join('%s=%s' % (k, s(x))
                                       for k, x in v.items()) + '}'
            return str(v)
        return '%s%s(%s)' % ('  ' * self.depth, self.kind,
                             ', '.join('%s=%s' % (k, s(v))
                                       for k, v in self.d.items()
                                       if k not in ('targets',)))


class Path:
    __slots__ = ('events', 'exit', 'value', 'exc', 'state')

    def __init__(self, events, exit, value, exc, state):
        self.events = events
        self.exit = exit        # 'return' | 'raise' | 'fall'
        self.value = value
        self.exc = exc          # dict(names, node, obj, frame) when raise
        self.state = state

    def of(self, *kinds):
        return [e for e in self.events if e.kind in kinds]

    def calls(self, name=None):
        out = []
        for e in self.events:
            if e.kind == 'call' and (name is None or name in e.d['names']):
                out.append(e)
        return out

    def index(self, ev):
        for i, e in enumerate(self.events):
            if e is ev:
                return i
        return -1

    def dump(self):
        lines = [repr(e) for e in self.events]
        lines.append('=> %s %s' % (self.exit, T.show(self.value)
                                   if self.value else
                                   (sorted(self.exc['names'])
                                    if self.exc else '')))
        return '\n'.join(lines)


class State:
    __slots__ = ('env', 'heap', 'objs', 'ver', 'facts', 'events', 'frame',
                 'depth', 'loop', 'module', 'cls', 'fi')

    def copy(self):
        s = State()
        s.env = dict(self.env)
        s.heap = dict(self.heap)
        s.objs = {k: dict(v) for k, v in self.objs.items()}
        s.ver = dict(self.ver)
        s.facts = set(self.facts)
        s.events = list(self.events)
        s.frame = self.frame
        s.depth = self.depth
        s.loop = self.loop
        s.module = self.module
        s.cls = self.cls
        s.fi = self.fi
        return s


class Writes:
    """writes(f): attribute names written (transitively), and whether f may
    delete from / insert into a container attribute."""

    def __init__(self, model, resolver):
        self.m = model
        self.r = resolver
        self.direct = {}
        self.calls = {}
        for fi in model.funcs.values():
            w = set()
            cs = set()
            for n in walk_own(fi.node):
                tg = None
                if isinstance(n, (ast.Assign, ast.AugAssign, ast.AnnAssign)):
                    ts = n.targets if isinstance(n, ast.Assign) \
                        else [n.target]
                    for t in ts:
                        self._target(t, w)
                elif isinstance(n, ast.Delete):
                    for t in n.targets:
                        self._target(t, w, kind='del')
                elif isinstance(n, ast.Call):
                    f = n.func
                    if isinstance(f, ast.Attribute) and f.attr in (
                            'append', 'extend', 'add', 'pop', 'popleft',
                            'popitem', 'clear', 'update', 'remove',
                            'discard', 'insert', 'setdefault') and \
                            isinstance(f.value, ast.Attribute):
                        kind = 'del' if f.attr in ('pop', 'popleft',
                                                   'popitem', 'clear',
                                                   'remove', 'discard') \
                            else 'ins'
                        w.add((f.value.attr, kind))
                        w.add((f.value.attr, 'w'))
                    for tgt in resolver.targets(n):
                        if tgt.kind in ('h2', 'h2class') and tgt.fi:
                            cs.add(tgt.fi.qual)
                elif isinstance(n, ast.Attribute) and \
                        isinstance(n.ctx, ast.Load):
                    p = resolver.property_target(n, fi)
                    if p is not None:
                        cs.add(p.qual)
            self.direct[fi.qual] = w
            self.calls[fi.qual] = cs
        self.trans = {q: set(w) for q, w in self.direct.items()}
        changed = True
        while changed:
            changed = False
            for q, cs in self.calls.items():
                for c in cs:
                    add = self.trans.get(c, set()) - self.trans[q]
                    if add:
                        self.trans[q] |= add
                        changed = True

    def _target(self, t, w, kind='w'):
        fi = getattr(t, '_func', None)
        in_init = fi is not None and fi.name == '__init__'

        fresh = self._fresh_locals(fi) if fi is not None else ()

        def own(x):
            # a constructor writing its own fresh object, or a function
            # filling in an object it has just constructed, aliases nothing
            if not (isinstance(x, ast.Attribute) and
                    isinstance(x.value, ast.Name)):
                return False
            if in_init and x.value.id == 'self':
                return True
            return x.value.id in fresh
        if isinstance(t, ast.Attribute):
            if not own(t):
                w.add((t.attr, 'w'))
        elif isinstance(t, ast.Subscript):
            b = t.value
            if own(b):
                return
            if isinstance(b, ast.Attribute):
                w.add((b.attr, 'w'))
                w.add((b.attr, 'del' if kind == 'del' else 'ins'))
            elif isinstance(b, ast.Subscript) and \
                    isinstance(b.value, ast.Attribute):
                w.add((b.value.attr, 'w'))
        elif isinstance(t, (ast.Tuple, ast.List)):
            for e in t.elts:
                self._target(e, w, kind)

    def _fresh_locals(self, fi):
        """Local names that are only ever bound to objects constructed in
        this function (x = SomeClass(...))."""
        c = getattr(self, '_fresh', None)
        if c is None:
            c = self._fresh = {}
        if fi.qual in c:
            return c[fi.qual]
        good, bad = set(), set(fi.params)
        for n in walk_own(fi.node):
            tg = []
            if isinstance(n, ast.Assign):
                tg = [(t, n.value) for t in n.targets]
            elif isinstance(n, (ast.For, ast.comprehension)):
                tg = [(n.target, None)]
            for t, v in tg:
                for x in ast.walk(t):
                    if not isinstance(x, ast.Name) or \
                            not isinstance(x.ctx, ast.Store):
                        continue
                    is_ctor = False
                    if v is not None and t is x and isinstance(v, ast.Call):
                        for tgt in self.r.targets(v):
                            if tgt.kind == 'h2class' or (
                                    tgt.kind == 'ext' and
                                    (tgt.name or '').endswith('.__init__')):
                                is_ctor = True
                    (good if is_ctor else bad).add(x.id)
        c[fi.qual] = good - bad
        return c[fi.qual]

    def attrs(self, qual):
        return {a for a, k in self.trans.get(qual, ()) if k == 'w'}

    def deletes(self, qual, attr):
        return (attr, 'del') in self.trans.get(qual, ())

    def inserts(self, qual, attr):
        return (attr, 'ins') in self.trans.get(qual, ())


class Interp:
    paths_used = 0      # paths handed to rules (measured, for the evidence)

    def __init__(self, model, resolver, raises, inline=None, max_depth=2,
                 max_paths=6000, fork_raises=True):
        self.m = model
        self.r = resolver
        self.R = raises
        self.inline = inline or (lambda fi, depth: False)
        self.max_depth = max_depth
        self.max_paths = max_paths
        self.fork_raises = fork_raises
        self.writes = Writes(model, resolver)
        self._sites = {}
        self._raise_out = []
        self._cache = {}

    # -- helpers ---------------------------------------------------------
    def site(self, node, extra=0):
        k = (id(node), extra)
        s = self._sites.get(k)
        if s is None:
            s = '%s:%s:%s' % ((getattr(node, '_file', '?') or '?'
                               ).split('/')[-1],
                              getattr(node, 'lineno', 0),
                              getattr(node, 'col_offset', 0))
            if extra:
                s += '#%s' % extra
            self._sites[k] = s
        return s

    def emit(self, st, kind, node, **d):
        ev = Ev(kind, node, st.frame, st.depth, st.loop, **d)
        st.events.append(ev)
        return ev

    # -- entry -----------------------------------------------------------
    def run(self, fi, args=None):
        key = (fi.qual, None if args is None else tuple(sorted(args.items())))
        if key in self._cache:
            Interp.paths_used += len(self._cache[key])
            return self._cache[key]
        st = State()
        st.env = {}
        st.heap = {}
        st.objs = {}
        st.ver = {}
        st.facts = set()
        st.events = []
        st.frame = fi.qual
        st.depth = 0
        st.loop = 0
        st.module = fi.module
        st.cls = fi.cls
        st.fi = fi
        for p in fi.params + fi.kwonly:
            st.env[p] = ('p', p)
        if fi.vararg:
            st.env[fi.vararg] = ('p', '*' + fi.vararg)
        if fi.kwarg:
            st.env[fi.kwarg] = ('p', '**' + fi.kwarg)
        if args:
            st.env.update(args)
        if fi.parent is not None:
            for p in fi.parent.params:
                st.env.setdefault(p, ('p', p))
        self._npaths = 0
        outs = self.block(fi.node.body, st)
        paths = []
        for s2, flow in outs:
            paths.append(self._mk_path(s2, flow))
        self._cache[key] = paths
        Interp.paths_used += len(paths)
        return paths

    def _mk_path(self, st, flow):
        if flow[0] == 'return':
            return Path(st.events, 'return', flow[1], None, st)
        if flow[0] == 'raise':
            return Path(st.events, 'raise', None, flow[1], st)
        return Path(st.events, 'fall', T.NONE, None, st)

    # -- statements -------------------------------------------------------
    def block(self, stmts, st):
        """-> list of (state, flow) ; flow[0] in next/return/raise/break/
        continue"""
        cur = [st]
        done = []
        for s in stmts:
            nxt = []
            for c in cur:
                for s2, flow in self.stmt(s, c):
                    if flow[0] == 'next':
                        nxt.append(s2)
                    else:
                        done.append((s2, flow))
            cur = nxt
            if len(cur) + len(done) > self.max_paths:
                raise AnalysisError('path limit exceeded in %s'
                                    % st.frame)
            if not cur:
                break
        return done + [(c, ('next',)) for c in cur]

    def _with_raises(self, fn):
        """Run fn() collecting raise outcomes of expression evaluation."""
        self._raise_out.append([])
        try:
            res = fn()
        finally:
            raised = self._raise_out.pop()
        return res, raised

    def stmt(self, s, st):
        res, raised = self._with_raises(lambda: self._stmt(s, st))
        return res + [(rs, ('raise', info)) for rs, info in raised]

    def _stmt(self, s, st):
        if isinstance(s, ast.Expr):
            return [(s2, ('next',)) for s2, _ in self.ev(s.value, st)]
        if isinstance(s, ast.Assign):
            out = []
            for s2, v in self.ev(s.value, st):
                states = [s2]
                for t in s.targets:
                    nxt = []
                    for s3 in states:
                        nxt.extend(self.assign(t, v, s3, s))
                    states = nxt
                out.extend((s3, ('next',)) for s3 in states)
            return out
        if isinstance(s, ast.AnnAssign):
            if s.value is None:
                return [(st, ('next',))]
            out = []
            for s2, v in self.ev(s.value, st):
                out.extend((s3, ('next',))
                           for s3 in self.assign(s.target, v, s2, s))
            return out
        if isinstance(s, ast.AugAssign):
            return self._augassign(s, st)
        if isinstance(s, ast.Return):
            if s.value is None:
                self.emit(st, 'return', s, value=T.NONE)
                return [(st, ('return', T.NONE))]
            out = []
            for s2, v in self.ev(s.value, st):
                self.emit(s2, 'return', s, value=v)
                out.append((s2, ('return', v)))
            return out
        if isinstance(s, ast.Raise):
            return self._raise(s, st)
        if isinstance(s, ast.Assert):
            out = []
            for s2, pol in self.branch(s.test, st):
                if pol:
                    out.append((s2, ('next',)))
                else:
                    self.emit(s2, 'raise', s, names=('AssertionError',),
                              args=(), is_assert=True)
                    out.append((s2, ('raise', {
                        'names': {'AssertionError'}, 'node': s, 'obj': None,
                        'frame': s2.frame, 'assert': True})))
            return out
        if isinstance(s, ast.If):
            out = []
            for s2, pol in self.branch(s.test, st):
                out.extend(self.block(s.body if pol else s.orelse, s2))
            return out
        if isinstance(s, (ast.For, ast.AsyncFor)):
            return self._for(s, st)
        if isinstance(s, ast.While):
            return self._while(s, st)
        if isinstance(s, ast.Try):
            return self._try(s, st)
        if isinstance(s, ast.Pass):
            return [(st, ('next',))]
        if isinstance(s, ast.Break):
            return [(st, ('break',))]
        if isinstance(s, ast.Continue):
            return [(st, ('continue',))]
        if isinstance(s, (ast.FunctionDef, ast.AsyncFunctionDef)):
            q = '%s.%s' % (st.frame, s.name)
            st.env[s.name] = ('func', q)
            return [(st, ('next',))]
        if isinstance(s, ast.Delete):
            cur = [st]
            for t in s.targets:
                nxt = []
                for c in cur:
                    if isinstance(t, ast.Subscript):
                        for s2, b in self.ev(t.value, c):
                            for s3, k in self.ev(t.slice, s2):
                                self.emit(s3, 'del', s, container=b, key=k)
                                nxt.append(s3)
                    else:
                        nxt.append(c)
                cur = nxt
            return [(c, ('next',)) for c in cur]
        if isinstance(s, (ast.Import, ast.ImportFrom, ast.Global,
                          ast.Nonlocal)):
            return [(st, ('next',))]
        if isinstance(s, ast.With):
            cur = [st]
            for it in s.items:
                nxt = []
                for c in cur:
                    for s2, v in self.ev(it.context_expr, c):
                        if it.optional_vars is not None:
                            nxt.extend(self.assign(it.optional_vars, v, s2,
                                                   s))
                        else:
                            nxt.append(s2)
                cur = nxt
            out = []
            for c in cur:
                out.extend(self.block(s.body, c))
            return out
        raise AnalysisError('unsupported statement %s at %s:%s' % (
            type(s).__name__, getattr(s, '_file', '?'), s.lineno))

    def _raise(self, s, st):
        if s.exc is None:
            info = st.env.get('$exc')
            if info is None:
                info = {'names': {'Exception'}, 'node': s, 'obj': None,
                        'frame': st.frame}
            self.emit(st, 'raise', s, names=tuple(sorted(info['names'])),
                      args=(), reraise=True, obj=info.get('obj'))
            info = dict(info)
            info['reraise'] = True
            return [(st, ('raise', info))]
        out = []
        e = s.exc
        if isinstance(e, ast.Call):
            # evaluate constructor (arguments, and __init__ when inlined)
            for s2, obj in self.ev(e, st):
                names = self._exc_names(e.func, s2, obj)
                args = s2.objs.get(obj, {}).get('$args', ()) \
                    if obj[0] == 'obj' else ()
                self.emit(s2, 'raise', s, names=tuple(sorted(names)),
                          args=args, obj=obj)
                out.append((s2, ('raise', {'names': set(names), 'node': s,
                                           'obj': obj, 'frame': s2.frame})))
            return out
        for s2, obj in self.ev(e, st):
            names = self._exc_names(e, s2, obj)
            info = None
            if obj[0] == 'exc':
                info = s2.env.get('$exc')
            self.emit(s2, 'raise', s, names=tuple(sorted(names)), args=(),
                      obj=obj)
            out.append((s2, ('raise', {'names': set(names), 'node': s,
                                       'obj': obj, 'frame': s2.frame})))
        return out

    def _exc_names(self, e, st, obj):
        if obj is not None and obj[0] == 'obj':
            return [obj[2]]
        if obj is not None and obj[0] == 'exc':
            info = st.env.get('$exc')
            if info:
                return sorted(info['names'])
        if obj is not None and obj[0] == 'cls':
            return [obj[1].split('.')[-1]]
        return self.R._raised_classes(st.fi, e, None)

    def _augassign(self, s, st):
        out = []
        t = s.target
        load = _as_load(t)
        for s2, old in self.ev(load, st):
            for s3, v in self.ev(s.value, s2):
                new = self.binop(s.op, old, v, s3, s, inplace=True,
                                 lnode=t, rnode=s.value)
                for s4 in self.assign(t, new, s3, s, aug=s.op,
                                      operand=v, old=old):
                    out.append((s4, ('next',)))
        return out

    def _for(self, s, st):
        out = []
        for s2, it in self.ev(s.iter, st):
            site = self.site(s)
            self.emit(s2, 'iter', s, iterable=it, site=site)
            self._consume(s2, s.iter, it, s)
            # iterating an h2 object runs its __next__
            for a in self.r.type_of(s.iter, s2.fi):
                if a[0] == 'inst':
                    nx = self.m.lookup_method(a[1], '__next__')
                    if nx is not None and not nx.is_generator:
                        exc = set(self.R.of(nx.qual)) - {'StopIteration'}
                        self._opaque_call(s2, s, [], nx.qual, (), {}, it,
                                          raises=exc, names=(nx.qual,))
                        self._bump(s2, self.writes.attrs(nx.qual))
            # zero iterations
            s0 = s2.copy()
            out.extend(self.block(s.orelse, s0) if s.orelse
                       else [(s0, ('next',))])
            # one symbolic iteration: variables the body rebinds may carry a
            # value from an earlier iteration
            s1 = s2
            s1.loop += 1
            for nm in _loop_assigned(s.body):
                if nm in s1.env:
                    s1.env[nm] = ('phi', site, nm, s1.env[nm])
            for nm in _loop_mutated(s.body):
                o = s1.env.get(nm)
                if o is not None and o[0] == 'obj' and \
                        '$elems' in s1.objs.get(o, {}):
                    # other iterations may have added elements
                    s1.objs[o]['$elems'] = s1.objs[o]['$elems'] + (
                        ('splat', ('phi', site, nm, T.NONE)),)
            elem = ('lv', site, it)
            for s3 in self.assign(s.target, elem, s1, s, loopvar=True):
                for s4, flow in self.block(s.body, s3):
                    if flow[0] in ('next', 'continue', 'break'):
                        s4.loop -= 1
                        self.emit(s4, 'endloop', s, site=site)
                        if flow[0] == 'break' or not s.orelse:
                            out.append((s4, ('next',)))
                        else:
                            out.extend(self.block(s.orelse, s4))
                    else:
                        s4.loop -= 1
                        out.append((s4, flow))
        return out

    def _while(self, s, st):
        out = []
        for s2, pol in self.branch(s.test, st):
            if not pol:
                out.append((s2, ('next',)))
                continue
            s2.loop += 1
            for nm in _loop_assigned(s.body):
                if nm in s2.env:
                    s2.env[nm] = ('phi', self.site(s), nm, s2.env[nm])
            for s4, flow in self.block(s.body, s2):
                s4.loop -= 1
                if flow[0] in ('next', 'continue', 'break'):
                    self.emit(s4, 'endloop', s, site=self.site(s))
                    out.append((s4, ('next',)))
                else:
                    out.append((s4, flow))
        return out

    def _try(self, s, st):
        out = []
        body = self.block(s.body, st)
        for s2, flow in body:
            if flow[0] == 'next':
                if s.orelse:
                    out.extend(self.block(s.orelse, s2))
                else:
                    out.append((s2, flow))
            elif flow[0] == 'raise':
                out.extend(self._dispatch(s, s2, flow[1]))
            else:
                out.append((s2, flow))
        if s.finalbody:
            res = []
            for s2, flow in out:
                for s3, f2 in self.block(s.finalbody, s2):
                    res.append((s3, flow if f2[0] == 'next' else f2))
            out = res
        return out

    def _dispatch(self, s, st, info):
        """Route a raised exception (set of possible classes) to handlers."""
        out = []
        remaining = set(info['names'])
        for h in s.handlers:
            if not remaining:
                break
            if h.type is None:
                caught = set(remaining)
            else:
                tn = h.type.elts if isinstance(h.type, ast.Tuple) \
                    else [h.type]
                hn = [x.id if isinstance(x, ast.Name) else
                      getattr(x, 'attr', '?') for x in tn]
                caught = {x for x in remaining
                          if any(self.m.exc_is_subclass(x, n) for n in hn)}
            if not caught:
                continue
            remaining -= caught
            s2 = st.copy() if remaining else st
            hinfo = dict(info)
            hinfo['names'] = caught
            self.emit(s2, 'catch', h, names=tuple(sorted(caught)),
                      obj=info.get('obj'), origin=info.get('node'))
            saved = s2.env.get('$exc')
            s2.env['$exc'] = hinfo
            if h.name:
                obj = info.get('obj')
                s2.env[h.name] = obj if (obj is not None and
                                         obj[0] == 'obj') \
                    else ('exc', self.site(h))
            for s3, flow in self.block(h.body, s2):
                if saved is None:
                    s3.env.pop('$exc', None)
                else:
                    s3.env['$exc'] = saved
                out.append((s3, flow))
        if remaining:
            info2 = dict(info)
            info2['names'] = remaining
            out.append((st, ('raise', info2)))
        return out

    # -- assignment -------------------------------------------------------
    def assign(self, t, v, st, node, aug=None, operand=None, old=None,
               loopvar=False):
        if isinstance(t, ast.Name):
            st.env[t.id] = v
            return [st]
        if isinstance(t, (ast.Tuple, ast.List)):
            cur = [st]
            star = [i for i, el in enumerate(t.elts)
                    if isinstance(el, ast.Starred)]
            for i, el in enumerate(t.elts):
                if star and i == star[0] and i == len(t.elts) - 1:
                    # a, *rest = v   ->  rest = v[i:]
                    sub = ('slice', v, T.C(i), None)
                    nxt = []
                    for c in cur:
                        nxt.extend(self.assign(el.value, sub, c, node))
                    cur = nxt
                    continue
                if v[0] == 'tuple' and i < len(v[1]):
                    sub = v[1][i]
                elif v[0] == 'lv':
                    sub = ('lv', v[1], v[2], i)
                else:
                    sub = ('sub', v, T.C(i))
                nxt = []
                for c in cur:
                    nxt.extend(self.assign(el, sub, c, node))
                cur = nxt
            return cur
        if isinstance(t, ast.Attribute):
            out = []
            for s2, b in self.ev(t.value, st):
                if b[0] == 'obj' and b in s2.objs:
                    s2.objs[b][t.attr] = v
                else:
                    s2.heap[(b, t.attr)] = v
                self.emit(s2, 'write', node, base=b, attr=t.attr, value=v,
                          aug=_opname(aug) if aug else None,
                          operand=operand, old=old)
                prop = self.r.property_target(t, s2.fi)
                if prop is not None:
                    self._opaque_call(s2, node, [prop], 'setter:' +
                                      prop.qual, (b, v), {}, b)
                out.append(s2)
            return out
        if isinstance(t, ast.Subscript):
            out = []
            for s2, b in self.ev(t.value, st):
                for s3, k in self.ev(t.slice, s2):
                    if b[0] == 'obj' and b in s3.objs and \
                            '$elems' in s3.objs[b] and T.is_int_const(k):
                        el = list(s3.objs[b]['$elems'])
                        i = k[1]
                        if -len(el) <= i < len(el):
                            el[i] = v
                            s3.objs[b]['$elems'] = tuple(el)
                    self.emit(s3, 'store', node, container=b, key=k,
                              value=v, aug=_opname(aug) if aug else None)
                    # __setitem__ of an h2 class
                    for a in self.r.type_of(t.value, s3.fi):
                        if a[0] == 'inst':
                            meth = self.m.lookup_method(a[1], '__setitem__')
                            if meth is not None:
                                self._opaque_call(
                                    s3, node, [meth], meth.qual,
                                    (b, k, v), {}, b)
                    out.append(s3)
            return out
        if isinstance(t, ast.Starred):
            return self.assign(t.value, ('unk', self.site(t)), st, node)
        raise AnalysisError('unsupported assignment target')

    # -- conditions -------------------------------------------------------
    def branch(self, test, st):
        """-> list of (state, polarity)"""
        if isinstance(test, ast.BoolOp):
            is_and = isinstance(test.op, ast.And)
            out = []
            cur = [st]
            for i, v in enumerate(test.values):
                nxt = []
                for c in cur:
                    for s2, pol in self.branch(v, c):
                        if pol == is_and:
                            nxt.append(s2)
                        else:
                            out.append((s2, not is_and))
                cur = nxt
            out.extend((c, is_and) for c in cur)
            return out
        if isinstance(test, ast.UnaryOp) and isinstance(test.op, ast.Not):
            return [(s2, not pol) for s2, pol in self.branch(test.operand,
                                                            st)]
        out = []
        for s2, t in self.ev(test, st):
            out.extend(self._branch_term(T.truth(t), s2, test))
        return out

    def _branch_term(self, c, st, node):
        """Fork on an evaluated condition; conjunctions and disjunctions
        (chained comparisons, value-context boolean operators) are split
        into their atoms so that every assumption is atomic."""
        if c[0] == 'truth' and c[1][0] == 'obj' and \
                '$elems' in st.objs.get(c[1], {}):
            # a list built on this path: its emptiness is known
            el = st.objs[c[1]]['$elems']
            if any(x[0] != 'splat' for x in el):
                return [(st, True)]
            if not el:
                return [(st, False)]
        if c[0] == 'c':
            return [(st, bool(c[1]))]
        if c[0] in ('and', 'or'):
            is_and = c[0] == 'and'
            out = []
            cur = [st]
            for part in c[1]:
                nxt = []
                for s in cur:
                    for s2, pol in self._branch_term(T.truth(part), s, node):
                        if pol == is_and:
                            nxt.append(s2)
                        else:
                            out.append((s2, not is_and))
                cur = nxt
            out.extend((s, is_and) for s in cur)
            return out
        if c[0] == 'not' and c[1][0] in ('and', 'or'):
            return [(s, not pol)
                    for s, pol in self._branch_term(c[1], st, node)]
        out = []
        for pol in (True, False):
            s3 = st.copy() if pol else st
            fact = c if pol else T.negate(c)
            if T.negate(fact) in s3.facts:
                continue
            if self._contradicts(fact, s3):
                continue
            s3.facts.add(fact)
            self.emit(s3, 'assume', node, cond=fact)
            out.append((s3, pol))
        return out

    def _contradicts(self, fact, st):
        # x is None  vs  truth(x) ; isinstance contradictions
        if fact[0] == 'is' and fact[2] == T.NONE:
            if ('truth', fact[1]) in st.facts:
                return True
        if fact[0] == 'truth':
            if ('is', fact[1], T.NONE) in st.facts:
                return True
        return False

    # -- expressions ------------------------------------------------------
    def ev(self, e, st):
        """-> list of (state, term) for normal continuations."""
        m = getattr(self, '_ev_' + type(e).__name__, None)
        if m is None:
            return [(st, ('unk', self.site(e)))]
        return m(e, st)

    def ev_list(self, exprs, st):
        cur = [(st, ())]
        for e in exprs:
            nxt = []
            for s2, acc in cur:
                for s3, v in self.ev(e, s2):
                    nxt.append((s3, acc + (v,)))
            cur = nxt
        return cur

    def _ev_Constant(self, e, st):
        return [(st, T.C(e.value))]

    def _ev_Name(self, e, st):
        if e.id in st.env:
            return [(st, st.env[e.id])]
        try:
            v = self.m.fold(e, st.module, st.cls)
            if isinstance(v, (frozenset, set, dict)):
                # named tables stay symbolic (stable, readable terms)
                r0 = self.m.resolve_name(st.module, e.id)
                if r0 and r0[0] == 'const':
                    return [(st, ('global', r0[2], e.id))]
            return [(st, T.C(_freeze(v)))]
        except NotConst:
            pass
        r = self.m.resolve_name(st.module, e.id)
        if r:
            if r[0] == 'class':
                return [(st, ('cls', r[1].qual))]
            if r[0] == 'func':
                return [(st, ('func', r[1].qual))]
            if r[0] == 'ext':
                return [(st, ('ext', '%s.%s' % (r[1], r[2])))]
            if r[0] == 'extmod':
                return [(st, ('ext', r[1]))]
            if r[0] == 'const':
                return [(st, ('global', r[2], e.id))]
        return [(st, ('builtin', e.id))]

    def _ev_Attribute(self, e, st):
        try:
            v = self.m.fold(e, st.module, st.cls)
            return [(st, T.C(_freeze(v)))]
        except NotConst:
            pass
        out = []
        for s2, b in self.ev(e.value, st):
            out.append((s2, self.getattr(b, e.attr, s2, e)))
        return out

    def getattr(self, b, attr, st, node):
        if b[0] == 'obj' and b in st.objs:
            o = st.objs[b]
            if attr in o:
                return o[attr]
            if attr == '__class__':
                return ('cls', b[2])
            if b[2] == 'DataFrame' and attr == 'flow_controlled_length':
                # hyperframe summary (extlib.check_flow_controlled_length):
                # len(data) + (pad_length + 1 if 'PADDED' in flags else 0)
                ln = ('call', 'len', (o.get('data', T.C(b'')),), None)
                fl = o.get('flags')
                if fl is not None and fl[0] == 'set' and \
                        T.C('PADDED') in fl[1]:
                    r = T.add(T.add(ln, o.get('pad_length', T.C(0))),
                              T.C(1))
                    if r is not None:
                        return r
                elif fl is not None and fl[0] == 'set':
                    return ln
        if b[0] == 'cls':
            c = self.m.classes.get(b[1])
            if c is not None and attr in c.attrs:
                try:
                    return T.C(_freeze(self.m.fold(c.attrs[attr], c.module,
                                                   c.qual)))
                except NotConst:
                    return ('classattr', b[1], attr)
            if c is not None and attr in c.methods:
                return ('func', c.methods[attr].qual)
        key = (b, attr)
        if key in st.heap:
            return st.heap[key]
        # property: an implicit call
        if isinstance(node, ast.Attribute):
            prop = self.r.property_target(node, st.fi)
            if prop is not None:
                self._opaque_call(st, node, [prop], 'prop:' + prop.qual,
                                  (b,), {}, b, is_prop=True)
        return ('a', b, attr, st.ver.get(attr, 0))

    def _ev_Subscript(self, e, st):
        out = []
        for s2, b in self.ev(e.value, st):
            if isinstance(e.slice, ast.Slice):
                lo = e.slice.lower
                hi = e.slice.upper
                for s3, bounds in self.ev_list([x for x in (lo, hi)
                                                if x is not None], s2):
                    bl = list(bounds)
                    tlo = bl.pop(0) if lo is not None else None
                    thi = bl.pop(0) if hi is not None else None
                    if b[0] == 'obj' and '$elems' in s3.objs.get(b, {}) \
                            and (tlo is None or T.is_int_const(tlo)) and \
                            thi is None:
                        el = s3.objs[b]['$elems']
                        n = self._new_list(s3, e, el[(tlo[1] if tlo else 0):])
                        out.append((s3, n))
                    else:
                        out.append((s3, ('slice', b, tlo, thi)))
                continue
            for s3, k in self.ev(e.slice, s2):
                clen = None
                if b[0] == 'obj' and '$elems' in s3.objs.get(b, {}):
                    clen = sum(1 for z in s3.objs[b]['$elems']
                               if z[0] != 'splat')
                lev = self.emit(s3, 'load', e, container=b, key=k, clen=clen)
                pexc = self.R.op_excs.get(id(e))
                if pexc and id(e) not in self.R.discharged and \
                        self.fork_raises:
                    s4 = s3.copy()
                    self._raise_out[-1].append((s4, {
                        'names': set(pexc), 'node': e, 'obj': None,
                        'frame': s3.frame, 'via_load': lev}))
                # __getitem__ of an h2 class is a call
                for a in self.r.type_of(e.value, s3.fi):
                    if a[0] == 'inst':
                        meth = self.m.lookup_method(a[1], '__getitem__')
                        if meth is not None:
                            self._opaque_call(s3, e, [meth], meth.qual,
                                              (b, k), {}, b)
                out.append((s3, self.subscript(b, k, s3)))
        return out

    def subscript(self, b, k, st):
        if b[0] == 'obj' and b in st.objs and '$elems' in st.objs[b] and \
                T.is_int_const(k):
            el = st.objs[b]['$elems']
            i = k[1]
            if -len(el) <= i < len(el) and \
                    not any(x[0] == 'splat' for x in el):
                return el[i]
            if i >= 0 and i < len(el) and \
                    not any(x[0] == 'splat' for x in el[:i + 1]):
                return el[i]
            if i < 0 and -i <= len(el) and \
                    not any(x[0] == 'splat' for x in el[i:]):
                return el[i]
        if b[0] == 'tuple' and T.is_int_const(k):
            i = k[1]
            if -len(b[1]) <= i < len(b[1]):
                return b[1][i]
        if b[0] == 'concat' and T.is_int_const(k) and k[1] >= 0:
            # the first operand's element, unless it is known to be empty
            a = b[1]
            if not (a[0] == 'obj' and st.objs.get(a, {}).get('$elems')
                    == ()):
                return self.subscript(a, k, st)
            return self.subscript(b[2], k, st)
        if b[0] == 'c' and isinstance(b[1], (tuple, list, bytes, str)) and \
                T.is_int_const(k):
            try:
                return T.C(_freeze(b[1][k[1]]))
            except Exception:
                pass
        if b[0] == 'c' and isinstance(b[1], dict) and k[0] == 'c':
            try:
                return T.C(_freeze(b[1][k[1]]))
            except Exception:
                pass
        return ('sub', b, k)

    def _ev_BinOp(self, e, st):
        out = []
        for s2, a in self.ev(e.left, st):
            for s3, b in self.ev(e.right, s2):
                out.append((s3, self.binop(e.op, a, b, s3, e,
                                           lnode=e.left, rnode=e.right)))
        return out

    def _intish_node(self, node, term, st):
        if term[0] == 'aff' or T.is_int_const(term):
            return True
        if term[0] == 'call' and term[1] in ('len', 'int', 'min', 'max'):
            return True
        if node is None:
            return None
        t = self.r.type_of(node, st.fi)
        if not t:
            return None
        kinds = {a[0] if a[0] != 'prim' else a[1] for a in t}
        kinds.discard('none')
        if kinds and kinds <= {'int', 'bool', 'enum'}:
            return True
        if kinds & {'list', 'bytes', 'str', 'bytearray', 'tuple'}:
            return False
        return None

    def binop(self, op, a, b, st, node, inplace=False, lnode=None,
              rnode=None):
        name = _opname(op)
        if name in ('+', '-', '*'):
            ia = self._intish_node(lnode, a, st)
            ib = self._intish_node(rnode, b, st)
            listy = (a[0] == 'obj' and '$elems' in st.objs.get(a, {})) or \
                    (b[0] == 'obj' and '$elems' in st.objs.get(b, {})) or \
                    a[0] == 'concat' or b[0] == 'concat'
            if name == '+' and (listy or ia is False or ib is False):
                return self._concat(a, b, st, node, inplace)
            if name == '+' and a[0] == 'c' and isinstance(a[1], (bytes, str)):
                return ('concat', a, b)
            if ia is False or ib is False:
                return ('bin', name, a, b)
            r = None
            if name == '+':
                r = T.add(a, b)
            elif name == '-':
                r = T.add(a, b, -1)
            else:
                r = T.mul(a, b)
            if r is not None:
                return r
        if a[0] == 'c' and b[0] == 'c':
            try:
                v = self.m.fold(ast.BinOp(left=ast.Constant(a[1]), op=op,
                                          right=ast.Constant(b[1])),
                                st.module)
                return T.C(_freeze(v))
            except Exception:
                pass
        return ('bin', name, a, b)

    def _concat(self, a, b, st, node, inplace):
        ea = st.objs.get(a, {}).get('$elems') if a[0] == 'obj' else None
        eb = st.objs.get(b, {}).get('$elems') if b[0] == 'obj' else None
        if ea is not None and inplace:
            st.objs[a]['$elems'] = ea + (eb if eb is not None
                                         else (('splat', b),))
            return a
        if ea is not None and eb is not None:
            return self._new_list(st, node, ea + eb)
        if ea is not None and ea == ():
            return b
        if eb is not None and eb == ():
            return a
        return ('concat', a, b)

    def _new_list(self, st, node, elems, extra=0):
        o = ('obj', self.site(node, extra or len(st.events) + 1), 'list')
        st.objs[o] = {'$elems': tuple(elems)}
        return o

    def _ev_UnaryOp(self, e, st):
        out = []
        for s2, a in self.ev(e.operand, st):
            if isinstance(e.op, ast.Not):
                out.append((s2, T.negate(T.truth(a))))
            elif isinstance(e.op, ast.USub):
                r = T.neg(a)
                out.append((s2, r if r is not None else ('bin', 'neg', a,
                                                         T.NONE)))
            else:
                out.append((s2, ('bin', 'unary', a, T.NONE)))
        return out

    def _ev_BoolOp(self, e, st):
        # value context: no forking; operands evaluated eagerly
        out = []
        for s2, vals in self.ev_list(e.values, st):
            k = 'and' if isinstance(e.op, ast.And) else 'or'
            out.append((s2, (k, tuple(vals))))
        return out

    def _ev_Compare(self, e, st):
        out = []
        for s2, vals in self.ev_list([e.left] + list(e.comparators), st):
            parts = []
            for i, op in enumerate(e.ops):
                a, b = vals[i], vals[i + 1]
                parts.append(self.compare(op, a, b, s2, e,
                                          e.comparators[i]))
            t = parts[0] if len(parts) == 1 else ('and', tuple(parts))
            out.append((s2, t))
        return out

    def compare(self, op, a, b, st, node, rnode=None):
        if isinstance(op, (ast.In, ast.NotIn)):
            if rnode is not None:
                for x in self.r.type_of(rnode, st.fi):
                    if x[0] == 'inst':
                        meth = self.m.lookup_method(x[1], '__contains__')
                        if meth is not None:
                            self._opaque_call(st, node, [meth], meth.qual,
                                              (b, a), {}, b)
            cont = b
            if b[0] == 'obj' and '$elems' in st.objs.get(b, {}):
                cont = ('tuple', st.objs[b]['$elems'])
            if a[0] == 'c' and cont[0] == 'c' and \
                    isinstance(cont[1], (tuple, frozenset, list, bytes, str)):
                try:
                    r = a[1] in cont[1]
                    return T.C(r if isinstance(op, ast.In) else not r)
                except Exception:
                    pass
            if a[0] == 'c' and cont[0] == 'set' and a in cont[1]:
                return T.C(isinstance(op, ast.In))
            if a[0] == 'c' and cont[0] == 'set' and \
                    all(x[0] == 'c' for x in cont[1]):
                return T.C(isinstance(op, ast.NotIn))
            t = ('in', a, cont)
            return t if isinstance(op, ast.In) else ('not', t)
        if isinstance(op, (ast.Is, ast.IsNot)):
            if a[0] == 'c' and b[0] == 'c':
                r = a[1] is b[1] or (a[1] == b[1] and
                                     type(a[1]) is type(b[1]))
                return T.C(r if isinstance(op, ast.Is) else not r)
            if b == T.NONE and a[0] in ('obj', 'aff', 'cmp0', 'set', 'tuple'):
                # constructed objects and arithmetic results are not None
                return T.C(isinstance(op, ast.IsNot))
            x, y = (a, b) if b[0] == 'c' else (b, a) if a[0] == 'c' \
                else tuple(sorted([a, b], key=repr))
            t = ('is', x, y)
            return t if isinstance(op, ast.Is) else ('not', t)
        name = {ast.Eq: '==', ast.NotEq: '!=', ast.Lt: '<', ast.LtE: '<=',
                ast.Gt: '>', ast.GtE: '>='}[type(op)]
        return T.cmp(name, a, b)

    def _ev_IfExp(self, e, st):
        out = []
        for s2, pol in self.branch(e.test, st):
            out.extend(self.ev(e.body if pol else e.orelse, s2))
        return out

    def _ev_Tuple(self, e, st):
        return [(s2, ('tuple', vals)) for s2, vals in
                self.ev_list(e.elts, st)]

    def _ev_List(self, e, st):
        out = []
        for s2, vals in self.ev_list(e.elts, st):
            out.append((s2, self._new_list(s2, e, vals)))
        return out

    def _ev_Set(self, e, st):
        return [(s2, ('set', frozenset(vals))) for s2, vals in
                self.ev_list(e.elts, st)]

    def _ev_Dict(self, e, st):
        try:
            v = self.m.fold(e, st.module, st.cls)
            return [(st, T.C(_freeze(v)))]
        except NotConst:
            pass
        keys = [k for k in e.keys if k is not None]
        out = []
        for s2, ks in self.ev_list(keys, st):
            for s3, vs in self.ev_list(e.values, s2):
                o = ('obj', self.site(e, len(s3.events) + 1), 'dict')
                s3.objs[o] = {'$items': tuple(zip(ks, vs))}
                out.append((s3, o))
        return out

    def _ev_JoinedStr(self, e, st):
        cur = [st]
        for v in e.values:
            if isinstance(v, ast.FormattedValue):
                nxt = []
                for c in cur:
                    nxt.extend(s2 for s2, _ in self.ev(v.value, c))
                cur = nxt
        return [(c, ('unk', self.site(e))) for c in cur]

    def _ev_Starred(self, e, st):
        return [(s2, ('splat', v)) for s2, v in self.ev(e.value, st)]

    def _ev_Lambda(self, e, st):
        return [(st, ('unk', self.site(e)))]

    def _ev_Yield(self, e, st):
        if e.value is None:
            self.emit(st, 'yield', e, value=T.NONE)
            return [(st, T.NONE)]
        out = []
        for s2, v in self.ev(e.value, st):
            self.emit(s2, 'yield', e, value=v)
            out.append((s2, ('unk', self.site(e))))
        return out

    def _ev_YieldFrom(self, e, st):
        out = []
        for s2, v in self.ev(e.value, st):
            self._consume(s2, e.value, v, e)
            self.emit(s2, 'yield', e, value=('splat', v))
            out.append((s2, ('unk', self.site(e))))
        return out

    def _comp(self, e, st):
        # comprehension: evaluate iter, then the element once with the loop
        # variable bound symbolically (events inside are marked in_loop)
        g = e.generators[0]
        out = []
        for s2, it in self.ev(g.iter, st):
            site = self.site(e)
            self.emit(s2, 'iter', e, iterable=it, site=site)
            self._consume(s2, g.iter, it, e)
            saved = dict(s2.env)
            s2.loop += 1
            for s3 in self.assign(g.target, ('lv', site, it), s2, e,
                                  loopvar=True):
                conds = []
                states = [s3]
                for c in g.ifs:
                    nxt = []
                    for s4 in states:
                        for s5, t in self.ev(c, s4):
                            conds.append(t)
                            nxt.append(s5)
                    states = nxt
                for s4 in states:
                    elt = e.elt if not isinstance(e, ast.DictComp) \
                        else e.value
                    for s5, v in self.ev(elt, s4):
                        s5.loop -= 1
                        for k in list(s5.env):
                            if k not in saved:
                                del s5.env[k]
                        for k, val in saved.items():
                            s5.env[k] = val
                        out.append((s5, ('comp', v, it, tuple(conds),
                                         site)))
        return out

    _ev_ListComp = _comp
    _ev_GeneratorExp = _comp
    _ev_SetComp = _comp
    _ev_DictComp = _comp

    # -- calls ------------------------------------------------------------
    def _consume(self, st, node, term, site_node):
        gens = [a[1] for a in self.r.type_of(node, st.fi) if a[0] == 'gen']
        # the value at hand says more than the (flow-insensitive) type
        if term[0] == 'gen':
            gens = sorted(set(gens) | {term[1]})
        elif term[0] == 'call':
            if term[1] in ('list', 'tuple', 'sorted', 'set', 'frozenset'):
                gens = []       # already materialised
            else:
                g2 = set()
                known = True
                for q in term[1].split('|'):
                    if q in self.m.funcs:
                        for a in self.r.ret_types.get(q, ()):
                            if a[0] == 'gen':
                                g2.add(a[1])
                    else:
                        known = False
                if known:
                    gens = sorted(g2)
        elif term[0] == 'obj':
            gens = []
        if gens or term[0] == 'gen':
            self.emit(st, 'consume', site_node, iterable=term,
                      gens=tuple(sorted(gens)))

    def _ev_Call(self, e, st):
        f = e.func
        out = []
        # receiver / function designator
        if isinstance(f, ast.Attribute):
            heads = [(s2, None, r) for s2, r in self.ev(f.value, st)]
        else:
            heads = [(s2, ft, None) for s2, ft in self.ev(f, st)]
        for s2, ft, recv in heads:
            pos = [a for a in e.args]
            for s3, args in self.ev_list(pos, s2):
                kwn = [k.arg for k in e.keywords]
                for s4, kwv in self.ev_list([k.value for k in e.keywords],
                                            s3):
                    kw = dict(zip(kwn, kwv))
                    out.extend(self.call(e, s4, ft, recv, args, kw))
        return out

    def call(self, e, st, ft, recv, args, kw):
        f = e.func
        if isinstance(f, ast.Attribute) and \
                isinstance(f.value, ast.Attribute) and \
                f.value.attr == 'logger':
            return [(st, T.NONE)]       # logging: no effect on the protocol
        # pure string methods on literals fold to literals
        if recv is not None and isinstance(f, ast.Attribute) and \
                recv[0] == 'c' and isinstance(recv[1], (str, bytes)) and \
                f.attr in ('encode', 'decode', 'lower', 'upper', 'strip') \
                and not kw and all(a[0] == 'c' and isinstance(a[1], (str, bytes))
                                   for a in args):
            try:
                return [(st, T.C(getattr(recv[1], f.attr)(
                    *[a[1] for a in args])))]
            except Exception:       # the call itself raises: leave it
                pass
        targets = self.r.resolve_call(e, st.fi)
        names = tuple(sorted(
            (t.fi.qual if t.kind == 'h2' and t.fi else
             (t.name if t.kind != 'h2class' else t.name))
            for t in targets))
        # ---- methods on tracked values
        if recv is not None and isinstance(f, ast.Attribute):
            r = self._tracked_method(e, st, recv, f.attr, args, kw)
            if r is not None:
                return r
        # ---- function value held in a local (func(self, prev))
        if ft is not None and ft[0] == 'func':
            fi = self.m.funcs.get(ft[1])
            if fi is not None:
                return self._call_h2(e, st, [fi], None, args, kw, names,
                                     unbound=True)
        if ft is not None and ft[0] == 'c' and ft[1] is None:
            return []       # calling None: impossible path
        h2 = [t for t in targets if t.kind in ('h2', 'h2class')]
        if h2 and len(h2) == len(targets):
            if all(t.kind == 'h2class' for t in h2):
                # a class held in a local: the one this path put there
                pick = h2[0]
                if ft is not None and ft[0] == 'cls':
                    for t in h2:
                        if t.name == ft[1]:
                            pick = t
                return self._construct_h2(e, st, pick, args, kw)
            fis = [t.fi for t in h2 if t.fi is not None]
            return self._call_h2(e, st, fis, recv, args, kw, names)
        if len(targets) == 1:
            t = targets[0]
            if t.kind == 'builtin':
                return self._call_builtin(e, st, t.name, args, kw)
            if t.kind == 'ext':
                return self._call_ext(e, st, t.name, recv, args, kw)
            if t.kind == 'logger':
                return [(st, T.NONE)]
            if t.kind == 'method':
                return self._call_method(e, st, t.name, recv, args, kw)
        if not targets:
            return [(st, ('unk', self.site(e)))]
        # mixed / several targets: opaque
        res = ('call', '|'.join(names), tuple(args), self.site(e))
        fis = [t.fi for t in targets if t.kind in ('h2', 'h2class')
               and t.fi is not None]
        self._opaque_call(st, e, fis, '|'.join(names), args, kw, recv,
                          names=names, extra_targets=targets)
        return [(st, res)]

    def _tracked_method(self, e, st, recv, meth, args, kw):
        o = st.objs.get(recv) if recv[0] == 'obj' else None
        if o is not None and '$elems' in o:
            if meth == 'append' and len(args) == 1:
                o['$elems'] = o['$elems'] + (args[0],)
                self.emit(st, 'append', e, container=recv, value=args[0])
                return [(st, T.NONE)]
            if meth == 'extend' and len(args) == 1:
                a = args[0]
                ea = st.objs.get(a, {}).get('$elems') if a[0] == 'obj' \
                    else None
                o['$elems'] = o['$elems'] + (ea if ea is not None
                                             else (('splat', a),))
                self.emit(st, 'extend', e, container=recv, value=a)
                self._consume(st, e.args[0], a, e)
                return [(st, T.NONE)]
        if recv[0] == 'set' and meth == 'add' and len(args) == 1:
            # flags of a constructed frame: find the owner field
            for ob, fields in st.objs.items():
                for k, v in list(fields.items()):
                    if v is recv or v == recv and k == 'flags':
                        fields[k] = ('set', recv[1] | {args[0]})
                        self.emit(st, 'flag', e, obj=ob, flag=args[0])
                        return [(st, T.NONE)]
            if isinstance(e.func.value, ast.Name):
                st.env[e.func.value.id] = ('set', recv[1] | {args[0]})
                return [(st, T.NONE)]
        return None

    def _global_tuple(self, g, st):
        mod = self.m.modules.get(g[1])
        vals = mod.assigns.get(g[2]) if mod else None
        if not vals or len(vals) != 1 or \
                not isinstance(vals[0], (ast.Tuple, ast.List)):
            return None
        saved = (st.module, st.cls, st.env)
        st.module, st.cls, st.env = g[1], None, {}
        items = []
        try:
            for el in vals[0].elts:
                if not isinstance(el, (ast.Name, ast.Attribute)):
                    return None
                items.append(self.ev(el, st)[0][1])
        finally:
            st.module, st.cls, st.env = saved
        return ('tuple', tuple(items))

    def _call_builtin(self, e, st, name, args, kw):
        if name == 'isinstance' and len(args) == 2:
            cls = args[1]
            if cls[0] == 'global':
                # a tuple of classes kept in a module-level constant
                cls = self._global_tuple(cls, st) or cls
            names = []
            for c in (cls[1] if cls[0] == 'tuple' else (cls,)):
                if c[0] == 'cls':
                    names.append(c[1].split('.')[-1])
                elif c[0] == 'ext':
                    names.append(c[1].split('.')[-1])
                elif c[0] == 'builtin':
                    names.append(c[1])
                elif c[0] == 'call' and c[1] == 'type':
                    names.append('NoneType')
                else:
                    names.append(T.show(c))
            a = args[0]
            if a[0] == 'obj':
                ok = any(a[2] == n or self.m.exc_is_subclass(a[2], n)
                         for n in names)
                return [(st, T.C(ok))]
            return [(st, ('isinstance', a, tuple(names)))]
        if name in CONSUMING_BUILTINS:
            for i, a in enumerate(args):
                self._consume(st, e.args[i], a, e)
        if name == 'int' and len(args) >= 2:
            self._opaque_call(st, e, [], 'int', args, kw, None,
                              raises={'ValueError'})
        if name in ('list', 'tuple') and len(args) == 1:
            a = args[0]
            ea = st.objs.get(a, {}).get('$elems') if a[0] == 'obj' else None
            if ea is not None:
                return [(st, self._new_list(st, e, ea))]
            return [(st, ('call', name, tuple(args), self.site(e)))]
        if name == 'Enum()':
            self._opaque_call(st, e, [], 'Enum()', args, kw, None,
                              raises={'ValueError'})
            return [(st, ('call', 'enum:' + unparse(e.func), tuple(args),
                          None))]
        if name in ('bool',) and len(args) == 1:
            return [(st, T.truth(args[0]))]
        if name == 'len' and len(args) == 1:
            a = args[0]
            if a[0] == 'c' and isinstance(a[1], (bytes, str, tuple,
                                                 frozenset)):
                return [(st, T.C(len(a[1])))]
        if name == 'int' and len(args) == 1:
            a = args[0]
            if a[0] == 'c' and isinstance(a[1], (bool, int)):
                return [(st, T.C(int(a[1])))]
            if a[0] == 'c' and isinstance(a[1], EnumVal):
                return [(st, T.C(int(a[1].value)))]
        if name in ('super',):
            return [(st, ('super',))]
        import builtins as _b
        exc = getattr(_b, name, None)
        if isinstance(exc, type) and issubclass(exc, BaseException):
            o = ('obj', self.site(e, len(st.events) + 1), name)
            st.objs[o] = {'$args': tuple(args)}
            return [(st, o)]
        return [(st, ('call', name, tuple(args), None))]

    def _call_ext(self, e, st, name, recv, args, kw):
        cls = name[:-len('.__init__')] if name.endswith('.__init__') \
            else None
        frames = extlib.frames()
        excs = None
        if name in self.R.ext:
            excs = set(self.R.ext[name] or ())
        if cls is not None and cls in frames:
            o = ('obj', self.site(e, len(st.events) + 1), cls)
            fields = {'flags': ('set', frozenset())}
            fl = frames[cls]['fields']
            for i, a in enumerate(args):
                if i < len(fl):
                    fields[fl[i]] = a
            for k, v in kw.items():
                fields[k] = v
            fv = fields.get('flags')
            if fv is not None and fv[0] != 'set':
                # flags=[...] / (...) given to the constructor: the same
                # flag set as .flags.add() of each element afterwards
                els = None
                if fv[0] == 'obj' and '$elems' in st.objs.get(fv, {}):
                    els = st.objs[fv]['$elems']
                elif fv[0] == 'tuple':
                    els = fv[1]
                elif fv[0] == 'c' and isinstance(fv[1], (tuple, list,
                                                         frozenset)):
                    els = tuple(T.C(x) for x in fv[1])
                if els is not None and all(x[0] == 'c' for x in els):
                    fields['flags'] = ('set', frozenset(els))
            st.objs[o] = fields
            self.emit(st, 'new', e, obj=o, cls=cls, args=tuple(args),
                      kwargs=dict(kw))
            sidt = fields.get('stream_id')
            sid = sidt[1] if (sidt is not None and T.is_int_const(sidt)) \
                else (0 if sidt is None and cls in ('SettingsFrame',
                                                    'PingFrame') else None)
            excs = extlib.frame_ctor_raises(
                cls, sid, any(k in kw for k in ('settings', 'flags')))
            self._opaque_call(st, e, [], name, args, kw, None,
                              raises=excs, names=(name,))
            return [(st, o)]
        if cls in ('NeverIndexedHeaderTuple', 'HeaderTuple'):
            return [(st, ('call', cls, tuple(args), None))]
        if cls is not None and cls not in ('deque',):
            o = ('obj', self.site(e, len(st.events) + 1), cls)
            st.objs[o] = {'$args': tuple(args)}
            self.emit(st, 'new', e, obj=o, cls=cls, args=tuple(args),
                      kwargs=dict(kw))
            return [(st, o)]
        if name in self.R_consumers():
            for i in self.R_consumers()[name]:
                if i < len(args):
                    self._consume(st, e.args[i], args[i], e)
        full = tuple(([recv] if recv is not None else []) + list(args))
        self._opaque_call(st, e, [], name, args, kw, recv,
                          raises=excs or set(), names=(name,))
        pure = name.split('.')[-1] in ('urlsafe_b64encode',
                                       'urlsafe_b64decode', 'hexlify',
                                       'serialize_body', 'search', 'get')
        return [(st, ('call', name, full, None if pure else self.site(e)))]

    def R_consumers(self):
        from .raises import EXT_CONSUMERS
        return EXT_CONSUMERS

    def _call_method(self, e, st, name, recv, args, kw):
        base = name.split('.')[-1]
        from .raises import METHOD_RAISES, CONSUMER_METHODS
        if base in CONSUMER_METHODS:
            for i, a in enumerate(args):
                self._consume(st, e.args[i], a, e)
        excs = set()
        if base in METHOD_RAISES:
            excs = set(METHOD_RAISES[base])
            if base == 'pop' and len(args) >= 2:
                excs = set()
        mutating = base in ('append', 'extend', 'add', 'pop', 'popleft',
                            'popitem', 'clear', 'update', 'remove',
                            'discard', 'insert')
        full = tuple([recv] + list(args)) if recv is not None \
            else tuple(args)
        site = None if base in ('lower', 'strip', 'startswith', 'endswith',
                                'encode', 'decode', 'join', 'get', 'keys',
                                'values', 'items', 'upper') \
            else self.site(e)
        res = ('call', '.' + base, full, site)
        if excs or mutating:
            self._opaque_call(st, e, [], name, args, kw, recv, raises=excs,
                              names=(name,), mutates=mutating, result=res)
            if mutating and recv is not None and recv[0] == 'a':
                self._bump(st, {recv[2]})
        return [(st, res)]

    def _construct_h2(self, e, st, target, args, kw):
        cq = target.name
        cname = cq.split('.')[-1]
        o = ('obj', self.site(e, len(st.events) + 1), cname)
        st.objs[o] = {'$args': tuple(args)}
        self.emit(st, 'new', e, obj=o, cls=cname, args=tuple(args),
                  kwargs=dict(kw))
        init = target.fi
        if init is None:
            return [(st, o)]
        c = self.m.classes.get(init.cls)
        small = c is not None and c.module in ('exceptions', 'events',
                                               'settings', 'windows')
        if small and st.depth < self.max_depth + 2:
            res = self._inline(e, st, init, o, args, kw)
            return [(s2, o) for s2, _ in res]
        self._opaque_call(st, e, [init], init.qual, args, kw, o)
        return [(st, o)]

    def _positional(self, fi, recv, args, kw, unbound):
        """Keyword arguments of a call to an h2 function put in positional
        order (rules read arguments by position): f(a, y=c, x=b) == f(a, b,
        c).  Stops at the first parameter that is not given."""
        if not kw or any(k is None for k in kw):
            return list(args), dict(kw)
        params = list(fi.params)
        if fi.cls and 'staticmethod' not in fi.decorators and params and \
                (recv is not None or unbound):
            skip = 1 if not unbound else 0
            params = params[skip:]
        out = list(args)
        rest = dict(kw)
        # (keyword-only parameters follow in the order they are declared)
        for p in (params + list(fi.kwonly))[len(args):]:
            if p in rest:
                out.append(rest.pop(p))
            else:
                break
        return out, rest

    def _call_h2(self, e, st, fis, recv, args, kw, names, unbound=False):
        if len(fis) == 1 and not (fis[0].vararg or fis[0].kwarg):
            args, kw = self._positional(fis[0], recv, args, kw, unbound)
        if len(fis) == 1:
            fi = fis[0]
            if fi.is_generator:
                self.emit(st, 'call', e, names=names, targets=fis,
                          args=tuple(args), kwargs=dict(kw), recv=recv,
                          result=('gen', fi.qual, tuple(args)), raises=set(),
                          lazy=True)
                return [(st, ('gen', fi.qual, tuple(args)))]
            if st.depth < self.max_depth and self.inline(fi, st.depth) and \
                    not self._recursive(st, fi):
                if unbound and fi.cls and args:
                    return self._inline(e, st, fi, args[0], args[1:], kw)
                return self._inline(e, st, fi, recv, args, kw)
        full = tuple(([recv] if recv is not None else []) + list(args))
        nm = '|'.join(names)
        res = ('call', nm, full, self.site(e))
        self._opaque_call(st, e, fis, nm, args, kw, recv, names=names,
                          result=res)
        return [(st, res)]

    def _recursive(self, st, fi):
        return fi.qual == st.frame or fi.qual in st.env.get('$stack', ())

    def _bump(self, st, attrs):
        for a in attrs:
            st.ver[a] = st.ver.get(a, 0) + 1
        for k in [k for k in st.heap if k[1] in attrs]:
            del st.heap[k]

    def _opaque_call(self, st, node, fis, name, args, kw, recv, raises=None,
                     names=None, result=None, is_prop=False, mutates=False,
                     extra_targets=None):
        exc = set(raises or ())
        for fi in fis:
            if fi is not None and not fi.is_generator:
                exc |= set(self.R.of(fi.qual).keys())
        if extra_targets:
            for t in extra_targets:
                if t.kind == 'ext' and t.name in self.R.ext:
                    exc |= set(self.R.ext[t.name] or ())
        # discharged partial operations do not raise
        if id(node) in self.R.discharged:
            exc -= {'KeyError', 'IndexError'}
        exc = {x for x in exc if (id(node), x) not in self.R.discharged}
        ev = self.emit(st, 'call', node, names=names or (name,),
                       targets=fis, args=tuple(args), kwargs=dict(kw),
                       recv=recv, result=result, raises=exc,
                       is_prop=is_prop, mutates=mutates)
        w = set()
        for fi in fis:
            if fi is not None:
                w |= self.writes.attrs(fi.qual)
        if w:
            self._bump(st, w)
        if exc and self.fork_raises:
            s2 = st.copy()
            self._raise_out[-1].append((s2, {
                'names': set(exc), 'node': node, 'obj': None,
                'frame': st.frame, 'via_call': ev}))
        return ev

    def _inline(self, e, st, fi, recv, args, kw):
        """Run the callee's body in the caller's state."""
        caller_env = st.env
        saved = (st.frame, st.module, st.cls, st.fi)
        env = {}
        params = list(fi.params)
        if fi.cls and 'staticmethod' not in fi.decorators and params and \
                recv is not None:
            env[params[0]] = recv
            params = params[1:]
        dflt = fi.defaults()
        # (_positional puts keyword-only arguments after the positional ones)
        for i, p in enumerate(params + [k for k in fi.kwonly
                                        if k not in kw]):
            if i < len(args) and args[i][0] != 'splat':
                env[p] = args[i]
        for k, v in kw.items():
            if k is not None:
                env[k] = v
        for p in params + fi.kwonly:
            if p not in env:
                if p in dflt:
                    try:
                        env[p] = T.C(_freeze(self.m.fold(
                            dflt[p], fi.module, fi.cls)))
                    except NotConst:
                        env[p] = ('unk', self.site(dflt[p]))
                else:
                    env[p] = ('unk', self.site(fi.node, hash(p) % 997))
        if fi.kwarg:
            env[fi.kwarg] = ('unk', self.site(fi.node, 1))
        if fi.vararg:
            env[fi.vararg] = ('unk', self.site(fi.node, 2))
        env['$stack'] = tuple(caller_env.get('$stack', ())) + (st.frame,)
        if '$exc' in caller_env:
            env['$exc'] = caller_env['$exc']
        ev = self.emit(st, 'enter', e, callee=fi.qual, args=tuple(args),
                       kwargs=dict(kw), recv=recv)
        st.env = env
        st.frame, st.module, st.cls, st.fi = fi.qual, fi.module, fi.cls, fi
        st.depth += 1
        outs = self.block(fi.node.body, st)
        res = []
        for s2, flow in outs:
            s2.depth -= 1
            s2.frame, s2.module, s2.cls, s2.fi = saved
            s2.env = dict(caller_env)
            if flow[0] == 'raise':
                self.emit(s2, 'leave', e, callee=fi.qual, how='raise')
                self._raise_out[-1].append((s2, flow[1]))
            else:
                val = flow[1] if flow[0] == 'return' else T.NONE
                self.emit(s2, 'leave', e, callee=fi.qual, how='return',
                          value=val)
                res.append((s2, val))
        return res


def _loop_mutated(stmts):
    """Names whose list/set value is extended inside a loop body."""
    out = set()
    stack = list(stmts)
    while stack:
        n = stack.pop()
        if isinstance(n, (ast.FunctionDef, ast.AsyncFunctionDef,
                          ast.ClassDef, ast.Lambda)):
            continue
        if isinstance(n, ast.Call) and isinstance(n.func, ast.Attribute) \
                and n.func.attr in ('append', 'extend', 'add', 'insert',
                                    'update') and \
                isinstance(n.func.value, ast.Name):
            out.add(n.func.value.id)
        stack.extend(ast.iter_child_nodes(n))
    return out


def _loop_assigned(stmts):
    """Names (re)bound by assignments inside a loop body."""
    out = set()
    stack = list(stmts)
    while stack:
        n = stack.pop()
        if isinstance(n, (ast.FunctionDef, ast.AsyncFunctionDef,
                          ast.ClassDef, ast.Lambda)):
            continue
        tgts = []
        if isinstance(n, ast.Assign):
            tgts = n.targets
        elif isinstance(n, (ast.AugAssign, ast.AnnAssign)):
            tgts = [n.target]
        for t in tgts:
            for x in ast.walk(t):
                if isinstance(x, ast.Name) and isinstance(x.ctx, ast.Store):
                    out.add(x.id)
        stack.extend(ast.iter_child_nodes(n))
    return out


def _opname(op):
    return {ast.Add: '+', ast.Sub: '-', ast.Mult: '*', ast.Div: '/',
            ast.FloorDiv: '//', ast.Mod: '%', ast.Pow: '**',
            ast.BitOr: '|', ast.BitAnd: '&', ast.BitXor: '^',
            ast.LShift: '<<', ast.RShift: '>>'}.get(
                type(op) if not isinstance(op, type) else op, '?')


def _as_load(t):
    import copy
    n = copy.copy(t)
    n.ctx = ast.Load()
    for a in ('_file', '_parent', '_func'):
        if hasattr(t, a):
            setattr(n, a, getattr(t, a))
    return n


def _freeze(v):
    if isinstance(v, list):
        return tuple(_freeze(x) for x in v)
    if isinstance(v, tuple):
        return tuple(_freeze(x) for x in v)
    if isinstance(v, set):
        return frozenset(v)
    if isinstance(v, dict):
        return tuple(sorted(((k, _freeze(x)) for k, x in v.items()),
                            key=repr))
    return v
