"""Engine: everything shared by the property rules, rebuilt from /repo on
every invocation."""
from .core import AnalysisError
from .srcmodel import Model
from .resolve import Resolver
from .raises import Raises
from .paths import Interp

# Instance floors confirmed by reading (DESIGN.md appendix D); falling below
# means the analysis lost sight of code.
FLOORS = {'modules': 11, 'functions': 200, 'classes': 50}


class Engine:
    def __init__(self, repo=None):
        self.m = Model(repo)
        self.r = Resolver(self.m)
        # pass 1: every partial operation may raise
        self.R0 = Raises(self.m, self.r)
        self.R = self.R0
        # functions the pinned tree does not have and the syntactic
        # normaliser could not dissolve (several returns, another module
        # with other imports, ...) are walked through by every path
        # interpreter instead of being treated as opaque calls
        from . import normalise
        known = normalise.known_functions()
        moved = getattr(self.m.aliases, 'moved', {})

        def introduced(fi, depth):
            q = moved.get(fi.qual, fi.qual)
            return q not in known and not fi.name.startswith('__') and \
                not fi.is_generator and fi.parent is None
        self._introduced = introduced
        self.I = Interp(self.m, self.r, self.R0, inline=introduced)
        self._fsm = None
        self._interps = {}
        n = len(self.m.modules)
        if n < FLOORS['modules'] or len(self.m.funcs) < FLOORS['functions'] \
                or len(self.m.classes) < FLOORS['classes']:
            raise AnalysisError(
                'source model too small: %d modules, %d functions, %d '
                'classes' % (n, len(self.m.funcs), len(self.m.classes)))
        st = self.r.stats
        if st['unknown'] > 3:
            raise AnalysisError('call resolution lost ground: %r, %r'
                                % (st, self.r.unknown_calls[:5]))
        # external calls without a summary line: the escape-set properties
        # (C17, C29) cannot be decided where such a call is reachable and
        # say so themselves (rules.c17.require_summaries); every other rule
        # carries on
        # pass 2: discharge partial operations by guards and shape facts,
        # then recompute the escape sets and the path interpreter with them
        from .discharge import Discharger
        self.fsm        # built on the pass-1 interpreter
        self.D = Discharger(self)
        self.R = Raises(self.m, self.r, discharged=self.D.reasons)
        self.I0 = self.I
        self.I = Interp(self.m, self.r, self.R, inline=self._introduced)
        self._interps = {}

    @property
    def fsm(self):
        if self._fsm is None:
            from .fsm import FSM
            self._fsm = FSM(self)
        return self._fsm

    def interp(self, inline, depth=2, key=None, fork_raises=True):
        """A path interpreter that inlines the callees selected by `inline`
        (a set of qualified names or a predicate).  With fork_raises=False
        only the normal flow (and explicit raises) is enumerated."""
        intro = self._introduced
        if isinstance(inline, (set, frozenset, list, tuple)):
            names = frozenset(inline)
            k = (names, depth, fork_raises)
            pred = lambda fi, d: fi.qual in names or intro(fi, d)  # noqa
        else:
            k = (key or id(inline), depth, fork_raises)
            pred = lambda fi, d: inline(fi, d) or intro(fi, d)     # noqa
        if k not in self._interps:
            self._interps[k] = Interp(self.m, self.r, self.R, inline=pred,
                                      max_depth=depth,
                                      fork_raises=fork_raises)
        return self._interps[k]

    def base_counts(self, ctx):
        ctx.record('modules', len(self.m.modules))
        ctx.record('functions', len(self.m.funcs))
        ctx.record('calls_resolved', '%d/%d' % (
            self.r.stats['calls'] - self.r.stats['unknown'],
            self.r.stats['calls']))
        al = self.m.aliases
        if al.renamed or al.moved or al.attrs:
            ctx.note('names mapped back to the pinned tree: functions %s; '
                     'moved %s; attributes %s' % (
                         ['%s (now %s)' % x for x in al.renamed],
                         ['%s (now %s)' % (v, k)
                          for k, v in sorted(al.moved.items())],
                         ['%s.%s (now %s)' % x for x in al.attrs]))
        if getattr(al, 'params', None):
            ctx.note('parameters of non-public functions read under their '
                     'pinned names: %s' % ['%s %s' % (k, ['%s->%s' % r
                                                         for r in rr])
                                           for k, rr in al.params])
        if getattr(al, 'restored', None):
            ctx.note('pinned helpers found inlined in their callers and put '
                     'back: %s' % ['%s (in %s)' % (
                         k, sorted({c for c, _ in ss}))
                         for k, ss in al.restored])
        n = self.m.norm
        if n.helpers:
            ctx.record('introduced_helpers', sorted(n.helpers))
            ctx.record('helper_calls_inlined', len(n.inlined))
            if n.kept:
                ctx.note('introduced helper calls left for the path '
                         'interpreter: %s' % sorted(
                             {'%s in %s (%s)' % (h, c, why)
                              for c, h, why in n.kept}))
        ctx.record('partial_ops_discharged', '%d/%d' % (
            len(self.D.reasons), len(self.D.reasons) + len(self.D.open)))
