"""Exception-escape analysis (rule family ESC, DESIGN.md section 2.4).

escapes(f): exception class name -> witness chain, for everything that can
leave f.  Origins: explicit raise, assert, external summaries, partial
operations (unless discharged), lazily consumed generator bodies.
"""
import ast

from . import extlib
from .srcmodel import walk_own, unparse

# What external / builtin callables may raise.  A callable that is not listed
# and is not obviously harmless is an analysis error (never a guess).
EXT_RAISES = {
    # hyperframe
    'Frame.parse_frame_header': None,   # filled from source
    'Frame.parse_body': None,
    'SettingsFrame.parse_body': None,
    'Flags.add': {'ValueError'},        # discharged when the flag is defined
    'Decoder.decode': None,             # filled from source
    'Encoder.encode': set(),            # consumes its argument lazily
    'Decoder.__init__': set(), 'Encoder.__init__': set(),
    'base64.urlsafe_b64decode': {'binascii.Error', 'ValueError'},
    'base64.urlsafe_b64encode': set(),
    'binascii.hexlify': set(),
    'collections.deque': set(),
    'namedtuple.__init__': set(),
    'NeverIndexedHeaderTuple.__init__': set(),
    'HeaderTuple.__init__': set(),
    'OrderedDict.__init__': set(), 'OrderedDict.__setitem__': set(),
    'OrderedDict.popitem': {'KeyError'},
    'OrderedDict.__getitem__': {'KeyError'},
    'OrderedDict.__delitem__': {'KeyError'},
    'OrderedDict.move_to_end': {'KeyError'},
    'OrderedDict.__contains__': set(), 'OrderedDict.__len__': set(),
    'OrderedDict.get': set(), 'OrderedDict.pop': {'KeyError'},
    'MutableMapping.get': set(), 'MutableMapping.items': set(),
    'MutableMapping.update': set(),      # calls __setitem__ of the subclass
    'MutableMapping.keys': set(), 'MutableMapping.values': set(),
    'MutableMapping.__contains__': set(),
    'Pattern.search': set(),
    'dict.__setitem__': set(), 'dict.__init__': set(), 'dict.update': set(),
    'dict.__getitem__': {'KeyError'}, 'dict.__delitem__': {'KeyError'},
    'os.urandom': set(),
    'ValueError.__init__': set(), 'super.__init__': set(),
    'object.__init__': set(), 'Exception.__init__': set(),
    're.compile': set(),
}
METHOD_RAISES = {
    # builtin methods by (receiver kind or '?', name)
    'decode': {'UnicodeDecodeError'},
    'encode': set(),     # str.encode('utf-8') of a str: cannot fail for
    #                      well-formed str (lone surrogates excluded, see
    #                      assumptions)
    'pop': {'KeyError', 'IndexError'},
    'popleft': {'IndexError'},
    'popitem': {'KeyError'},
    'remove': {'ValueError', 'KeyError'},
    'index': {'ValueError'},
}
HARMLESS_METHODS = {
    'append', 'extend', 'add', 'items', 'keys', 'values', 'get', 'lower',
    'upper', 'strip', 'startswith', 'endswith', 'join', 'update', 'clear',
    'discard', 'copy', '__iter__', '__class__', 'serialize',
    'serialize_body', 'setdefault', 'format', 'split', 'search', 'match',
    'debug', 'trace', 'insert', 'count',
    # str / bytes / set / list / deque methods that cannot raise for
    # arguments of the receiver's own kind
    'isdigit', 'isalpha', 'isalnum', 'isspace', 'islower', 'isupper',
    'isdecimal', 'isnumeric', 'istitle', 'isascii', 'title', 'capitalize',
    'casefold', 'swapcase', 'lstrip', 'rstrip', 'replace', 'partition',
    'rpartition', 'rsplit', 'splitlines', 'find', 'rfind', 'zfill', 'ljust',
    'rjust', 'center', 'hex', 'union', 'intersection', 'difference',
    'symmetric_difference', 'issubset', 'issuperset', 'isdisjoint', 'sort',
    'reverse', 'appendleft', 'extendleft', 'rotate', 'bit_length',
    'tobytes', 'info', 'warning', 'error',
}
# standard-library functions that take no input of ours and cannot fail
# (clocks and the like are the business of the purity rule, C28)
EXT_HARMLESS = {
    'time.monotonic', 'time.time', 'time.perf_counter', 'time.monotonic_ns',
    'time.time_ns', 'os.getpid', 'itertools.count', 'itertools.chain',
    'collections.OrderedDict', 'collections.defaultdict', 'copy.copy',
    'functools.partial', 'itertools.islice', 'operator.itemgetter',
}
BUILTIN_RAISES = {
    'int': None,    # special-cased: int(x, base) of text -> ValueError
    'Enum()': {'ValueError'},
    'next': {'StopIteration'},
}
# Named exemptions: (external callable, exception) that cannot happen because
# of a fact that another rule checks.  One line of reason each.
EXEMPT = {
    ('PingFrame.serialize', 'InvalidFrameError'):
        'payload longer than 8 bytes: ping() refuses anything but 8 bytes '
        '(rule C26 ARITH.ping-len) and echoed payloads come from '
        'hyperframe\'s parser, which enforces 8',
    ('PingFrame.serialize_body', 'InvalidFrameError'): 'as above',
}

# Assertions that state a precondition which another rule decides at every
# call site (so they are not counted as escaping AssertionError here).
ASSERT_AS_PRECONDITION = {
    'connection.H2Connection._prepare_for_sending':
        'body_len <= max_outbound_frame_size: decided per emit site by the '
        'frame-size budget rule (C02 ARITH.budget, reported under C02/C29)',
}

CONSUMERS = {'list', 'tuple', 'set', 'frozenset', 'sorted', 'all', 'any',
             'sum', 'min', 'max', 'dict'}
CONSUMER_METHODS = {'join', 'extend', 'update'}
EXT_CONSUMERS = {'Encoder.encode': [0], 'NeverIndexedHeaderTuple.__init__':
                 [], 'MutableMapping.update': [0]}


def _guarded_not_none(node, name):
    """node sits where NAME is known not to be None: the body of `if NAME
    is not None:` / `if NAME:`, the else branch of `if NAME is None:` (the
    statement or the conditional expression), or after `NAME and`."""
    def test_says(t):
        """True: t holds => not None; False: t holds => None; else None"""
        if isinstance(t, ast.Name) and t.id == name:
            return True
        if isinstance(t, ast.UnaryOp) and isinstance(t.op, ast.Not):
            r = test_says(t.operand)
            return None if r is None else not r
        if isinstance(t, ast.Compare) and len(t.ops) == 1 and \
                isinstance(t.left, ast.Name) and t.left.id == name and \
                isinstance(t.comparators[0], ast.Constant) and \
                t.comparators[0].value is None:
            if isinstance(t.ops[0], ast.IsNot):
                return True
            if isinstance(t.ops[0], ast.Is):
                return False
        return None
    child, par = node, getattr(node, '_parent', None)
    while par is not None and not isinstance(
            par, (ast.FunctionDef, ast.AsyncFunctionDef, ast.Lambda)):
        if isinstance(par, ast.If):
            s = test_says(par.test)
            if (s is True and child in par.body) or \
                    (s is False and child in par.orelse):
                return True
        elif isinstance(par, ast.IfExp):
            s = test_says(par.test)
            if (s is True and child is par.body) or \
                    (s is False and child is par.orelse):
                return True
        elif isinstance(par, ast.BoolOp) and isinstance(par.op, ast.And):
            i = par.values.index(child) if child in par.values else 0
            if any(test_says(v) is True for v in par.values[:i]):
                return True
        child, par = par, getattr(par, '_parent', None)
    return False


class PartialOp:
    """A partial operation that is an obligation (kind, node, exception)."""
    __slots__ = ('kind', 'node', 'exc', 'fi', 'desc')

    def __init__(self, kind, node, exc, fi, desc):
        self.kind = kind
        self.node = node
        self.exc = exc
        self.fi = fi
        self.desc = desc


class Raises:
    def __init__(self, model, resolver, discharged=None, exempt=None):
        self.m = model
        self.r = resolver
        self.discharged = discharged or {}   # id(node) -> reason
        self.escapes = {}       # qual -> {exc: witness}
        self.body_escapes = {}  # for generators: raised when consumed
        self.partial_ops = []   # all PartialOp found
        self.handled_ops = {}   # id(node) -> handler loc (caught locally)
        self.exempt_used = set()
        self.ext_calls = []     # (fi, call node, target name)
        self.unsummarised = []  # external calls without a summary line
        self.handler_arrivals = {}   # id(handler node) -> {exc: witness}
        self.stmt_raises = {}   # id(stmt/expr node) -> {exc}
        self._collect_ops = True
        self._fill_ext()
        self._fixpoint()

    # ------------------------------------------------------------------
    def _fill_ext(self):
        fr = extlib.frames()
        self.ext = dict(EXT_RAISES)
        pfh = set(extlib.frame_method_raises('Frame', 'parse_frame_header'))
        pfh.discard('UnknownFrameError')   # strict=False is the default
        init = set()
        for cn in fr:
            init |= extlib.frame_method_raises(cn, '__init__')
        self.ext['Frame.parse_frame_header'] = pfh | init
        pb = set()
        for cn in fr:
            pb |= extlib.frame_method_raises(cn, 'parse_body')
        self.ext['Frame.parse_body'] = pb
        self.ext['SettingsFrame.parse_body'] = \
            extlib.frame_method_raises('SettingsFrame', 'parse_body')
        self.ext['Decoder.decode'] = extlib.hpack_decode_raises()
        for cn in fr:
            self.ext['%s.__init__' % cn] = \
                extlib.frame_method_raises(cn, '__init__')
            ser = extlib.frame_method_raises(cn, 'serialize') | \
                extlib.frame_method_raises(cn, 'serialize_body')
            self.ext['%s.serialize' % cn] = ser
            self.ext['%s.serialize_body' % cn] = ser

    def _fixpoint(self):
        funcs = list(self.m.funcs.values())
        for fi in funcs:
            self.escapes[fi.qual] = {}
            self.body_escapes[fi.qual] = {}
        for rnd in range(40):
            changed = False
            self.partial_ops = []
            self.ext_calls = []
            self.unsummarised = []
            for fi in funcs:
                out = self._func(fi)
                tgt = self.body_escapes if fi.is_generator else self.escapes
                old = tgt[fi.qual]
                for k, w in out.items():
                    if _merge(old, k, w):
                        changed = True
            if not changed:
                break
        self.op_excs = {}
        for op in self.partial_ops:
            if op.kind in ('subscript', 'del-subscript'):
                self.op_excs.setdefault(id(op.node), set()).add(op.exc)

    # ------------------------------------------------------------------
    def _func(self, fi):
        out = {}
        self._block(fi, fi.node.body, [], out, None)
        return out

    def _raise(self, exc, witness, frames, out, fi):
        """Deliver an exception to the innermost matching handler."""
        for fr in reversed(frames):
            for h, names in fr['handlers']:
                if names is None or any(self.m.exc_is_subclass(exc, n)
                                        for n in names):
                    _merge(fr['arrivals'].setdefault(id(h), {}), exc,
                           witness)
                    return ('handler', h)
        _merge(out, exc, witness)
        return ('escape', None)

    def _w(self, fi, node, what, inner=None):
        loc = '%s:%s' % (getattr(node, '_file', '?'),
                         getattr(node, 'lineno', '?'))
        step = (fi.qual, loc, what)
        if inner:
            origins = {o: _cap((step,) + tuple(pth))
                       for o, pth in inner.origins.items()}
            return W(_cap((step,) + tuple(inner)), origins)
        return W((step,))

    def _block(self, fi, stmts, frames, out, reraise):
        for st in stmts:
            self._stmt(fi, st, frames, out, reraise)

    def _stmt(self, fi, st, frames, out, reraise):
        if isinstance(st, (ast.FunctionDef, ast.AsyncFunctionDef,
                           ast.ClassDef)):
            return
        if isinstance(st, ast.Raise):
            if st.exc is None:
                for exc, w in (reraise or {}).items():
                    self._raise(exc, self._w(fi, st, 're-raise', w), frames,
                                out, fi)
                return
            self._expr(fi, st.exc, frames, out)
            for exc in self._raised_classes(fi, st.exc, reraise):
                self._raise(exc, self._w(fi, st, 'raise %s' % exc), frames,
                            out, fi)
            return
        if isinstance(st, ast.Assert):
            self._expr(fi, st.test, frames, out)
            if fi.qual in ASSERT_AS_PRECONDITION:
                # decided at every call site by another rule
                self.exempt_used.add((fi.qual, 'AssertionError'))
                return
            if id(st) in self.discharged:
                return
            self._raise('AssertionError',
                        self._w(fi, st, 'assert ' + unparse(st.test)[:60]),
                        frames, out, fi)
            return
        if isinstance(st, ast.Try):
            frame = {'handlers': [], 'arrivals': {}}
            for h in st.handlers:
                names = None
                if h.type is not None:
                    tn = h.type.elts if isinstance(h.type, ast.Tuple) \
                        else [h.type]
                    names = [x.id if isinstance(x, ast.Name) else
                             getattr(x, 'attr', '?') for x in tn]
                frame['handlers'].append((h, names))
            self._block(fi, st.body, frames + [frame], out, reraise)
            self._block(fi, st.orelse, frames, out, reraise)
            for h, names in frame['handlers']:
                arr = frame['arrivals'].get(id(h), {})
                prev = self.handler_arrivals.setdefault(id(h), {})
                for k, w in arr.items():
                    _merge(prev, k, w)
                self._block(fi, h.body, frames, out, prev)
            self._block(fi, st.finalbody, frames, out, reraise)
            return
        if isinstance(st, (ast.For, ast.AsyncFor)):
            self._expr(fi, st.iter, frames, out)
            self._consume(fi, st.iter, st, frames, out)
            self._iter_protocol(fi, st.iter, st, frames, out)
            self._block(fi, st.body, frames, out, reraise)
            self._block(fi, st.orelse, frames, out, reraise)
            return
        if isinstance(st, ast.While):
            self._expr(fi, st.test, frames, out)
            self._block(fi, st.body, frames, out, reraise)
            self._block(fi, st.orelse, frames, out, reraise)
            return
        if isinstance(st, ast.If):
            self._expr(fi, st.test, frames, out)
            if self._type_guard_dead(fi, st.test):
                # `if not isinstance(param, C): raise` where every call site
                # passes a C: the body is unreachable
                self._block(fi, st.orelse, frames, out, reraise)
                return
            self._block(fi, st.body, frames, out, reraise)
            self._block(fi, st.orelse, frames, out, reraise)
            return
        if isinstance(st, ast.With):
            for it in st.items:
                self._expr(fi, it.context_expr, frames, out)
            self._block(fi, st.body, frames, out, reraise)
            return
        if isinstance(st, ast.Delete):
            for t in st.targets:
                if isinstance(t, ast.Subscript):
                    self._expr(fi, t.value, frames, out)
                    self._partial(fi, t, 'del-subscript', frames, out)
            return
        if isinstance(st, (ast.Assign, ast.AugAssign, ast.AnnAssign)):
            val = st.value
            if val is not None:
                self._expr(fi, val, frames, out)
            targets = st.targets if isinstance(st, ast.Assign) \
                else [st.target]
            for t in targets:
                self._target(fi, t, frames, out)
            if isinstance(st, ast.AugAssign) and \
                    isinstance(st.target, ast.Subscript):
                self._partial(fi, st.target, 'subscript', frames, out)
            return
        for c in ast.iter_child_nodes(st):
            if isinstance(c, ast.expr):
                self._expr(fi, c, frames, out)

    def _target(self, fi, t, frames, out):
        if isinstance(t, ast.Subscript):
            self._expr(fi, t.value, frames, out)
            self._expr(fi, t.slice, frames, out)
            # store through __setitem__ of an h2 class
            for a in self.r.type_of(t.value, fi):
                if a[0] == 'inst':
                    meth = self.m.lookup_method(a[1], '__setitem__')
                    if meth is not None:
                        self._call_h2(fi, t, meth, frames, out)
        elif isinstance(t, ast.Attribute):
            self._expr(fi, t.value, frames, out)
            prop = self.r.property_target(t, fi)
            if prop is not None:
                self._call_h2(fi, t, prop, frames, out)
            else:
                # descriptor of the config class
                for a in self.r.type_of(t.value, fi):
                    if a[0] == 'inst':
                        c = self.m.classes.get(a[1])
                        if c and t.attr in c.attrs:
                            v = c.attrs[t.attr]
                            if isinstance(v, ast.Call):
                                for b in self.r.type_of(
                                        v, _Ctx(c.module, c.qual)):
                                    if b[0] == 'inst':
                                        setter = self.m.lookup_method(
                                            b[1], '__set__')
                                        if setter is not None:
                                            self._call_h2(fi, t, setter,
                                                          frames, out)
        elif isinstance(t, (ast.Tuple, ast.List)):
            for el in t.elts:
                self._target(fi, el, frames, out)

    def _raised_classes(self, fi, e, reraise):
        """Exception class names a ``raise <e>`` statement can raise."""
        if isinstance(e, ast.Call):
            e = e.func
        if isinstance(e, ast.Name):
            # class name?
            r = self.m.resolve_name(fi.module, e.id)
            if r and r[0] == 'class':
                return [r[1].name]
            t = self.r.type_of(e, fi)
            names = []
            for a in t:
                if a[0] == 'inst':
                    names.append(a[1].split('.')[-1])
                elif a[0] == 'exc':
                    # handler variable: what arrived at that handler
                    if reraise:
                        names.extend(reraise.keys())
                    else:
                        names.append(a[1])
            if names:
                return sorted(set(names))
            return [e.id]
        if isinstance(e, ast.Attribute):
            return [e.attr]
        return ['Exception']

    # -- expressions ---------------------------------------------------
    def _expr(self, fi, e, frames, out):
        if e is None:
            return
        if isinstance(e, (ast.Lambda,)):
            return
        if isinstance(e, ast.Call):
            for a in e.args:
                self._expr(fi, a.value if isinstance(a, ast.Starred) else a,
                           frames, out)
            for k in e.keywords:
                self._expr(fi, k.value, frames, out)
            if isinstance(e.func, ast.Attribute):
                self._expr(fi, e.func.value, frames, out)
            elif not isinstance(e.func, ast.Name):
                self._expr(fi, e.func, frames, out)
            self._call(fi, e, frames, out)
            return
        if isinstance(e, ast.Subscript) and isinstance(e.ctx, ast.Load):
            self._expr(fi, e.value, frames, out)
            self._expr(fi, e.slice, frames, out)
            if not isinstance(e.slice, ast.Slice):
                self._partial(fi, e, 'subscript', frames, out)
            return
        if isinstance(e, ast.Attribute) and isinstance(e.ctx, ast.Load):
            self._expr(fi, e.value, frames, out)
            prop = self.r.property_target(e, fi)
            if prop is not None:
                self._call_h2(fi, e, prop, frames, out)
            else:
                self._missing_attr(fi, e, frames, out)
                for a in self.r.type_of(e.value, fi):
                    if a[0] == 'inst':
                        c = self.m.classes.get(a[1])
                        if c and e.attr in c.attrs and \
                                isinstance(c.attrs[e.attr], ast.Call):
                            for b in self.r.type_of(
                                    c.attrs[e.attr], _Ctx(c.module, c.qual)):
                                if b[0] == 'inst':
                                    g = self.m.lookup_method(b[1], '__get__')
                                    if g is not None:
                                        self._call_h2(fi, e, g, frames, out)
            return
        if isinstance(e, (ast.ListComp, ast.SetComp, ast.GeneratorExp,
                          ast.DictComp)):
            for g in e.generators:
                self._expr(fi, g.iter, frames, out)
                self._consume(fi, g.iter, e, frames, out)
                for c in g.ifs:
                    self._expr(fi, c, frames, out)
            if isinstance(e, ast.DictComp):
                self._expr(fi, e.key, frames, out)
                self._expr(fi, e.value, frames, out)
            else:
                self._expr(fi, e.elt, frames, out)
            return
        if isinstance(e, ast.YieldFrom):
            self._expr(fi, e.value, frames, out)
            self._consume(fi, e.value, e, frames, out)
            return
        if isinstance(e, ast.Compare):
            self._expr(fi, e.left, frames, out)
            for i, c in enumerate(e.comparators):
                self._expr(fi, c, frames, out)
                if isinstance(e.ops[i], (ast.In, ast.NotIn)):
                    for a in self.r.type_of(c, fi):
                        if a[0] == 'inst':
                            meth = self.m.lookup_method(a[1], '__contains__')
                            if meth is not None:
                                self._call_h2(fi, e, meth, frames, out)
                elif isinstance(e.ops[i], (ast.Lt, ast.LtE, ast.Gt,
                                           ast.GtE)):
                    left = e.left if i == 0 else e.comparators[i - 1]
                    self._unordered(fi, e, left, c, frames, out)
            return
        if isinstance(e, ast.BinOp) and isinstance(e.op, ast.Mod) and \
                isinstance(e.left, ast.Constant) and \
                isinstance(e.left.value, (str, bytes)):
            # "..%s.." % x where x is a tuple built at run time: the tuple is
            # taken as the argument list, and its length need not be the
            # number of placeholders
            r = e.right
            if isinstance(r, ast.Name):
                binds = [n for n in walk_own(fi.node)
                         if isinstance(n, ast.Assign) and any(
                             isinstance(t, ast.Name) and t.id == r.id
                             for t in n.targets)]
                if len(binds) == 1:
                    r = binds[0].value
            if isinstance(r, ast.Call) and isinstance(r.func, ast.Name) and \
                    r.func.id == 'tuple' and r.func.id not in self.r.env(fi):
                self._op(fi, e, 'format with a tuple of unknown length',
                         'TypeError', frames, out)
        if isinstance(e, ast.BinOp) and isinstance(
                e.op, (ast.Add, ast.Sub, ast.Mult, ast.FloorDiv, ast.Mod)) \
                and not isinstance(e.left, ast.Constant):
            self._unordered(fi, e, e.left, e.right, frames, out,
                            what='arithmetic')
        for c in ast.iter_child_nodes(e):
            if isinstance(c, ast.expr):
                self._expr(fi, c, frames, out)

    def _unordered(self, fi, node, a, b, frames, out, what='ordering'):
        """`a < b` / `a + b` where one operand may be an instance of an h2
        class that defines no such operation and the other a number:
        TypeError (typically an object stored where its value was meant)."""
        ta, tb = self.r.type_of(a, fi), self.r.type_of(b, fi)
        dunder = ('__lt__', '__gt__', '__le__', '__ge__') \
            if what == 'ordering' else (
                '__add__', '__radd__', '__sub__', '__rsub__', '__mul__',
                '__rmul__', '__floordiv__', '__mod__', '__rmod__')

        def plain(ts):
            for x in ts:
                if x[0] == 'inst':
                    c = self.m.classes.get(x[1])
                    if c is None:
                        continue
                    ext = [bn for bn in c.bases
                           if self.m.class_by_name(bn) is None and
                           bn != 'object']
                    if ext:
                        continue        # may inherit the operation
                    if not any(self.m.lookup_method(x[1], d) is not None
                               for d in dunder):
                        return x[1]
            return None

        def numeric(ts):
            return any(x[0] == 'prim' and x[1] in ('int', 'float', 'bool')
                       for x in ts)
        for p, q in ((ta, tb), (tb, ta)):
            cls = plain(p)
            if cls is not None and numeric(q):
                self._op(fi, node, '%s with a %s object' % (
                    what, cls.split('.')[-1]), 'TypeError', frames, out)
                return

    def _iter_protocol(self, fi, it_expr, site, frames, out):
        """Iterating an h2 object calls its __iter__/__next__; the loop
        itself consumes StopIteration."""
        for a in self.r.type_of(it_expr, fi):
            if a[0] != 'inst':
                continue
            for mn in ('__iter__', '__next__'):
                meth = self.m.lookup_method(a[1], mn)
                if meth is None or meth.is_generator:
                    continue
                for exc, w in self.escapes.get(meth.qual, {}).items():
                    if exc == 'StopIteration':
                        continue
                    self._raise(exc, self._w(fi, site, 'iterates %s'
                                             % meth.qual, w), frames, out, fi)

    def _type_guard_dead(self, fi, test):
        if not (isinstance(test, ast.UnaryOp) and
                isinstance(test.op, ast.Not) and
                isinstance(test.operand, ast.Call) and
                isinstance(test.operand.func, ast.Name) and
                test.operand.func.id == 'isinstance' and
                len(test.operand.args) == 2):
            return False
        a, c = test.operand.args
        if not (isinstance(a, ast.Name) and a.id in fi.params and
                isinstance(c, ast.Name)):
            return False
        r = self.m.resolve_name(fi.module, c.id)
        if not r or r[0] != 'class':
            return False
        t = self.r.param_types.get((fi.qual, a.id))
        if not t:
            return False
        ok = all(x in (('enum', r[1].qual), ('inst', r[1].qual)) for x in t)
        if ok:
            self.exempt_used.add((fi.qual, 'isinstance(%s, %s)' % (a.id,
                                                                   c.id)))
        return ok

    def _class_defines(self, cq, attr, depth=0):
        """True / False / None (unknown: the chain leaves h2)."""
        c = self.m.classes.get(cq)
        if c is None or depth > 8:
            return None
        if attr in c.attrs or attr in c.methods or attr in c.setters:
            return True
        for n in ast.walk(c.node):
            if isinstance(n, ast.Attribute) and n.attr == attr and \
                    isinstance(n.ctx, ast.Store) and \
                    isinstance(n.value, ast.Name) and n.value.id == 'self':
                return True
        unknown = False
        for b in c.bases:
            bq = None
            for q2, c2 in self.m.classes.items():
                if c2.name == b:
                    bq = q2
            if bq is None:
                if b in ('Exception', 'object', 'ValueError', 'KeyError'):
                    if hasattr(Exception, attr):
                        return True
                    continue
                unknown = True
                continue
            r = self._class_defines(bq, attr, depth + 1)
            if r:
                return True
            if r is None:
                unknown = True
        return None if unknown else False

    def _missing_attr(self, fi, node, frames, out):
        """x.attr where x may be an instance of an h2 class that does not
        define attr anywhere in its hierarchy (typically an exception object
        caught as a base class and used as the subclass): AttributeError."""
        atoms = self.r.type_of(node.value, fi)
        if isinstance(node.value, ast.Name):
            # a name bound by an enclosing `except X as name`: X, not the
            # union over all handlers that reuse the name
            p = getattr(node, '_parent', None)
            while p is not None and not isinstance(
                    p, (ast.FunctionDef, ast.AsyncFunctionDef)):
                if isinstance(p, ast.ExceptHandler) and \
                        p.name == node.value.id and p.type is not None:
                    tn = p.type.elts if isinstance(p.type, ast.Tuple) \
                        else [p.type]
                    atoms = [('exc', x.id if isinstance(x, ast.Name)
                              else getattr(x, 'attr', '?')) for x in tn]
                    break
                p = getattr(p, '_parent', None)
        for a in atoms:
            if a[0] == 'exc':
                cq = [q for q, c in self.m.classes.items()
                      if c.name == a[1]]
                if len(cq) != 1:
                    continue
                a = ('inst', cq[0])
            if a[0] != 'inst' or not self.m.exc_is_subclass(
                    a[1].split('.')[-1], 'Exception'):
                continue
            if self._class_defines(a[1], node.attr) is False:
                self._op(fi, node, 'attribute .%s of %s' % (
                    node.attr, a[1].split('.')[-1]), 'AttributeError',
                    frames, out)
                return

    def _shape(self, fi, node):
        """The construct as text with the names of the function's locals
        and parameters blanked (self excepted): what identifies a finding
        must not change when a variable is renamed."""
        cache = self.__dict__.setdefault('_shape_cache', {})
        key = id(node)
        if key in cache:
            return cache[key]
        lc = self.__dict__.setdefault('_locals_cache', {})
        if fi.qual in lc:
            return self._shape_with(node, lc[fi.qual], cache)
        loc = set(fi.params) | set(fi.kwonly)
        if fi.vararg:
            loc.add(fi.vararg)
        if fi.kwarg:
            loc.add(fi.kwarg)
        for n in walk_own(fi.node):
            if isinstance(n, ast.Name) and isinstance(n.ctx, (ast.Store,
                                                               ast.Del)):
                loc.add(n.id)
            elif isinstance(n, ast.ExceptHandler) and n.name:
                loc.add(n.name)
        loc.discard('self')
        lc[fi.qual] = loc
        return self._shape_with(node, loc, cache)

    def _shape_with(self, node, loc, cache):
        # blank the names in place, print, restore (no copies: nodes carry
        # back-references to the whole tree)
        touched = []
        for n in ast.walk(node):
            if isinstance(n, ast.Name) and n.id in loc:
                touched.append((n, n.id))
                n.id = '_'
        try:
            cache[id(node)] = unparse(node)[:60]
            return cache[id(node)]
        finally:
            for n, old in touched:
                n.id = old

    def mapping_instance(self, atoms):
        """Is one of the types an instance of an h2 class that inherits a
        mapping (dict, OrderedDict, MutableMapping) and does not define
        __getitem__ itself?  Its subscripts raise KeyError, not IndexError."""
        for a in atoms:
            if a[0] != 'inst':
                continue
            seen = set()
            stack = [a[1]]
            while stack:
                cq = stack.pop()
                if cq in seen:
                    continue
                seen.add(cq)
                c = self.m.classes.get(cq)
                if c is None:
                    continue
                for b in c.bases:
                    if b in ('dict', 'OrderedDict', 'MutableMapping',
                             'Mapping', 'defaultdict', 'UserDict'):
                        return True
                    stack.extend(q for q, c2 in self.m.classes.items()
                                 if c2.name == b)
        return False

    def _partial(self, fi, node, kind, frames, out):
        """Subscript load / delete as a partial operation."""
        base_t = self.r.type_of(node.value, fi)
        # __getitem__ of an h2 class is an ordinary call
        for a in base_t:
            if a[0] == 'inst':
                if id(node) in self.discharged:
                    return
                meth = self.m.lookup_method(
                    a[1], '__delitem__' if kind == 'del-subscript'
                    else '__getitem__')
                if meth is not None:
                    self._call_h2(fi, node, meth, frames, out)
                    return
        kinds = {a[0] for a in base_t}
        if self.mapping_instance(base_t):
            kinds = (kinds - {'inst'}) | {'dict'}
        if 'dict' in kinds and not (kinds & {'list', 'tuple', 'prim'}):
            excs = ['KeyError']
        elif kinds and not ('dict' in kinds):
            excs = ['IndexError']
        else:
            excs = ['KeyError', 'IndexError'] if not kinds else \
                ['KeyError', 'IndexError']
            # refine by index form: a constant int index on an untyped base
            # is sequence indexing
            if isinstance(node.slice, ast.Constant) and \
                    isinstance(node.slice.value, int):
                excs = ['IndexError']
            elif isinstance(node.slice, ast.UnaryOp) and \
                    isinstance(node.slice.operand, ast.Constant):
                excs = ['IndexError']
        for exc in excs:
            op = PartialOp(kind, node, exc, fi,
                           '%s %s' % (kind, self._shape(fi, node)))
            self.partial_ops.append(op)
            if id(node) in self.discharged:
                continue
            res = self._raise(exc, self._w(fi, node, op.desc), frames, out,
                              fi)
            if res[0] == 'handler':
                self.handled_ops[id(node)] = res[1]

    def _consume(self, fi, it_expr, site, frames, out):
        """The iterable is consumed here: lazily evaluated generator bodies
        raise at this point."""
        for a in self.r.type_of(it_expr, fi):
            if a[0] == 'gen':
                for exc, w in self.body_escapes.get(a[1], {}).items():
                    self._raise(exc, self._w(fi, site,
                                             'consumes generator %s' % a[1],
                                             w), frames, out, fi)

    def _call_h2(self, fi, node, callee, frames, out):
        if callee.is_generator:
            return
        for exc, w in self.escapes.get(callee.qual, {}).items():
            self._raise(exc, self._w(fi, node, 'calls %s' % callee.qual, w),
                        frames, out, fi)

    def _call(self, fi, call, frames, out):
        targets = self.r.resolve_call(call, fi)
        for tg in targets:
            if tg.kind == 'h2':
                self._call_h2(fi, call, tg.fi, frames, out)
            elif tg.kind == 'h2class':
                if tg.fi is not None:
                    self._call_h2(fi, call, tg.fi, frames, out)
            elif tg.kind == 'logger':
                continue
            elif tg.kind == 'builtin':
                self._builtin(fi, call, tg.name, frames, out)
            elif tg.kind == 'ext':
                self._ext(fi, call, tg.name, frames, out)
            elif tg.kind == 'method':
                self._method(fi, call, tg.name, frames, out)
            elif tg.kind == 'none':
                # the callee can only be None: dead under `if x is not
                # None` / `if x`, a TypeError otherwise
                if not _guarded_not_none(call, tg.name):
                    self._op(fi, call, 'call of None', 'TypeError', frames,
                             out)
            elif tg.kind == 'unknown':
                self.unsummarised.append((fi.qual, unparse(call.func)))

    def _builtin(self, fi, call, name, frames, out):
        if name in CONSUMERS:
            for a in call.args:
                self._consume(fi, a, call, frames, out)
                # list(x) / tuple(x) ... of an h2 object runs its iterator
                self._iter_protocol(fi, a, call, frames, out)
        if name == 'int':
            # int(text, base), or int(x) of something that is not known to
            # be a number: ValueError
            if len(call.args) >= 2:
                self._op(fi, call, 'int()', 'ValueError', frames, out)
            elif len(call.args) == 1:
                ts = self.r.type_of(call.args[0], fi)
                numeric = bool(ts) and all(
                    a in (('prim', 'bool'), ('prim', 'int'),
                          ('prim', 'float')) or a[0] == 'enum' for a in ts)
                if not numeric:
                    self._op(fi, call, 'int()', 'ValueError', frames, out)
            return
        exc = BUILTIN_RAISES.get(name)
        if exc:
            for x in exc:
                self._op(fi, call, name, x, frames, out)

    def _op(self, fi, node, what, exc, frames, out):
        op = PartialOp('call', node, exc, fi, '%s %s' % (
            what, self._shape(fi, node)))
        self.partial_ops.append(op)
        if (id(node), exc) in self.discharged:
            return
        res = self._raise(exc, self._w(fi, node, op.desc), frames, out, fi)
        if res[0] == 'handler':
            self.handled_ops[(id(node), exc)] = res[1]

    def _ext(self, fi, call, name, frames, out):
        self.ext_calls.append((fi, call, name))
        if name in EXT_CONSUMERS:
            for i in EXT_CONSUMERS[name]:
                if i < len(call.args):
                    self._consume(fi, call.args[i], call, frames, out)
        if name == 'MutableMapping.update':
            # update() stores through the subclass' __setitem__
            for a in self.r.type_of(call.func.value, fi):
                if a[0] == 'inst':
                    meth = self.m.lookup_method(a[1], '__setitem__')
                    if meth is not None:
                        self._call_h2(fi, call, meth, frames, out)
        if name in ('MutableMapping.get', 'MutableMapping.__contains__'):
            # Mapping.get/__contains__ swallow KeyError from __getitem__
            return
        excs = self.ext.get(name, 'MISSING')
        if name.endswith('.__init__') and \
                name[:-9] in extlib.frames():
            excs = self._frame_ctor(fi, call, name[:-9])
        if excs == 'MISSING' and name == 'Frame.__init__':
            # a frame built through its base class (x.__class__(...)): any
            # concrete frame's stream-association check may refuse it
            excs = {'InvalidDataError'}
        if excs == 'MISSING':
            base = name.split('.')[-1]
            if base in HARMLESS_METHODS or name in EXT_HARMLESS:
                return
            self.unsummarised.append((fi.qual, name))
            return
        for x in sorted(excs or ()):
            if (name, x) in EXEMPT:
                self.exempt_used.add((name, x))
                continue
            self._op(fi, call, 'external %s' % name, x, frames, out)

    def _frame_ctor(self, fi, call, cls):
        sid = None
        arg = None
        fields = extlib.frames()[cls]['fields']
        pos = fields.index('stream_id') if 'stream_id' in fields else 0
        if len(call.args) > pos:
            arg = call.args[pos]
        for k in call.keywords:
            if k.arg == 'stream_id':
                arg = k.value
        if arg is None and cls in ('SettingsFrame', 'PingFrame'):
            sid = 0
        elif arg is not None:
            v = self.m.try_fold(arg, fi.module, fi.cls, default=None)
            if isinstance(v, int) and not isinstance(v, bool):
                sid = v
        extra = any(k.arg in ('settings', 'flags') for k in call.keywords)
        return extlib.frame_ctor_raises(cls, sid, extra)

    def _method(self, fi, call, name, frames, out):
        base = name.split('.')[-1]
        if base in CONSUMER_METHODS:
            for a in call.args:
                self._consume(fi, a, call, frames, out)
        if base in METHOD_RAISES:
            kind = name.split('.')[0]
            excs = METHOD_RAISES[base]
            if base == 'encode':
                # str.encode with a codec that cannot represent every str
                codec = None
                if call.args and isinstance(call.args[0], ast.Constant):
                    codec = call.args[0].value
                for k in call.keywords:
                    if k.arg == 'encoding' and isinstance(k.value,
                                                          ast.Constant):
                        codec = k.value.value
                if (call.args or call.keywords) and (
                        not isinstance(codec, str) or
                        codec.lower().replace('_', '-') not in (
                            'utf-8', 'utf8', 'utf-16', 'utf-32')):
                    excs = {'UnicodeEncodeError'}
                    # a literal that the codec can represent
                    rv = call.func.value if isinstance(
                        call.func, ast.Attribute) else None
                    if isinstance(rv, ast.Constant) and \
                            isinstance(rv.value, str) and \
                            isinstance(codec, str):
                        try:
                            rv.value.encode(codec)
                            excs = set()
                        except (UnicodeError, LookupError):
                            pass
            if base == 'pop':
                if kind == 'dict':
                    excs = {'KeyError'} if len(call.args) < 2 else set()
                elif kind == 'list':
                    excs = {'IndexError'}
                elif len(call.args) >= 2:
                    excs = set()
            for x in sorted(excs):
                self._op(fi, call, 'method .%s' % base, x, frames, out)
            return
        if base in HARMLESS_METHODS:
            return
        self.unsummarised.append((fi.qual, name))

    # ------------------------------------------------------------------
    def of(self, qual):
        return self.escapes.get(qual, {})


class W(tuple):
    """A witness path (outermost call first, origin last) plus, for every
    distinct origin of the exception, one path that ends there."""

    def __new__(cls, steps, origins=None):
        o = super().__new__(cls, steps)
        o.origins = origins if origins is not None else \
            {steps[-1]: tuple(steps)}
        return o


def _cap(t):
    if len(t) > 9:
        return t[:7] + (('...', '', '%d calls omitted' % (len(t) - 8)),) + \
            t[-1:]
    return t


def _merge(d, exc, w):
    """Record witness w for exc in d; True when something new was learnt."""
    cur = d.get(exc)
    if cur is None:
        d[exc] = W(tuple(w), dict(w.origins))
        return True
    grew = False
    for o, pth in w.origins.items():
        if o not in cur.origins:
            cur.origins[o] = pth
            grew = True
    return grew


class _Ctx:
    def __init__(self, module, cls=None):
        self.module = module
        self.cls = cls
        self.qual = '<module %s>' % module
        self.params = []
        self.kwonly = []
        self.parent = None


def format_witness(w):
    return ' <- '.join('%s@%s [%s]' % (q, loc.split('/')[-1], what)
                       for q, loc, what in w)
