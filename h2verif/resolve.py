"""Receiver typing and call resolution (DESIGN.md section 2.1).

A type is a frozenset of atoms; an atom is a tuple:
  ('inst', classqual) ('ext', Name) ('cls', classqual) ('extcls', Name)
  ('func', qual) ('bound', qual) ('extfunc', dotted) ('prim', name)
  ('list', T) ('dict', K, V) ('tuple', (T, ...)) ('gen', qual)
  ('enum', classqual) ('none',) ('logger',) ('exc', name)
"""
import ast

from . import extlib
from .srcmodel import walk_own, attr_chain, unparse

EMPTY = frozenset()


def T(*atoms):
    return frozenset(atoms)


NONE = T(('none',))
INT = T(('prim', 'int'))
BOOL = T(('prim', 'bool'))
BYTES = T(('prim', 'bytes'))
STR = T(('prim', 'str'))

_DEPTH = 4


def _depth(t, d=0):
    if d > 6:
        return d
    m = d
    for a in t:
        for x in a[1:]:
            if isinstance(x, frozenset):
                m = max(m, _depth(x, d + 1))
            elif isinstance(x, tuple):
                for y in x:
                    if isinstance(y, frozenset):
                        m = max(m, _depth(y, d + 1))
    return m


def join(*ts):
    out = set()
    for t in ts:
        if t:
            out |= t
    # merge container atoms of the same kind
    lists = [a for a in out if a[0] == 'list']
    if len(lists) > 1:
        out -= set(lists)
        out.add(('list', join(*[a[1] for a in lists])))
    dicts = [a for a in out if a[0] == 'dict']
    if len(dicts) > 1:
        out -= set(dicts)
        out.add(('dict', join(*[a[1] for a in dicts]),
                 join(*[a[2] for a in dicts])))
    r = frozenset(out)
    if _depth(r) > _DEPTH:
        return EMPTY
    return r


EXT_FIELD_TYPES = {
    'flags': T(('ext', 'Flags')),
    'settings': T(('dict', INT, INT)),
    'data': BYTES, 'stream_id': INT, 'body_len': INT,
}

BUILTIN_RET = {
    'len': INT, 'int': INT, 'bool': BOOL, 'min': INT, 'max': INT,
    'isinstance': BOOL, 'bytes': BYTES, 'str': STR, 'all': BOOL,
    'any': BOOL, 'bytearray': T(('prim', 'bytearray')),
    'memoryview': T(('prim', 'memoryview')), 'range': T(('list', INT)),
    'type': EMPTY, 'super': T(('super',)), 'getattr': EMPTY,
    'setattr': NONE, 'map': T(('list', EMPTY)), 'repr': STR, 'ord': INT,
    'frozenset': T(('prim', 'frozenset')), 'set': T(('prim', 'set')),
}


class Target:
    """One possible callee of a call expression."""
    __slots__ = ('kind', 'fi', 'name', 'recv')

    def __init__(self, kind, fi=None, name=None, recv=None):
        self.kind = kind      # 'h2' | 'h2class' | 'ext' | 'builtin' |
        #                       'method' | 'logger' | 'unknown'
        self.fi = fi
        self.name = name
        self.recv = recv

    def __repr__(self):
        if self.kind in ('h2', 'h2class'):
            return '<%s %s>' % (self.kind, self.fi.qual if self.fi
                                else self.name)
        return '<%s %s>' % (self.kind, self.name)


class Resolver:
    def __init__(self, model):
        self.m = model
        self.attr_types = {}     # (classqual, attr) -> T
        self.ret_types = {}      # func qual -> T
        self.param_types = {}    # (func qual, param) -> T
        self.local_env = {}      # func qual -> {name: T}
        self._busy = set()
        self.stats = {'calls': 0, 'resolved': 0, 'external': 0,
                      'unknown': 0}
        self.unknown_calls = []
        self._infer()

    # ------------------------------------------------------------------
    def _infer(self):
        funcs = list(self.m.funcs.values())
        for rnd in range(5):
            for fi in funcs:
                self._scan_func(fi)
        # call statistics
        self.call_targets = {}
        for fi in funcs:
            for n in walk_own(fi.node):
                if isinstance(n, ast.Call):
                    ts = self.resolve_call(n, fi)
                    self.call_targets[id(n)] = ts
                    self.stats['calls'] += 1
                    if not ts or any(t.kind == 'unknown' for t in ts):
                        self.stats['unknown'] += 1
                        self.unknown_calls.append((fi.qual, unparse(n.func)))
                    elif all(t.kind in ('h2', 'h2class') for t in ts):
                        self.stats['resolved'] += 1
                    else:
                        self.stats['external'] += 1

    def env(self, fi):
        e = self.local_env.get(fi.qual)
        if e is None:
            e = {}
            self.local_env[fi.qual] = e
        return e

    def _bind(self, fi, target, t):
        if not t:
            return
        if isinstance(target, ast.Name):
            e = self.env(fi)
            e[target.id] = join(e.get(target.id), t)
        elif isinstance(target, (ast.Tuple, ast.List)):
            for i, el in enumerate(target.elts):
                sub = EMPTY
                for a in t:
                    if a[0] == 'tuple' and i < len(a[1]):
                        sub = join(sub, a[1][i])
                    elif a[0] == 'list':
                        sub = join(sub, a[1])
                self._bind(fi, el, sub)
        elif isinstance(target, ast.Attribute):
            bt = self.type_of(target.value, fi)
            for a in bt:
                if a[0] == 'inst':
                    k = (a[1], target.attr)
                    self.attr_types[k] = join(self.attr_types.get(k), t)
        elif isinstance(target, ast.Subscript):
            # container store: refine element type of the container
            base = target.value
            kt = self.type_of(target.slice, fi)
            self._refine_container(fi, base, ('dict', kt, t), also_list=t)

    def _refine_container(self, fi, base, atom, also_list=None):
        bt = self.type_of(base, fi)
        new = EMPTY
        has_list = any(a[0] == 'list' for a in bt)
        if has_list and also_list is not None:
            new = T(('list', also_list))
        elif atom[0] == 'dict':
            new = T(atom)
        elif atom[0] == 'list':
            new = T(atom)
        if isinstance(base, ast.Name):
            e = self.env(fi)
            e[base.id] = join(e.get(base.id), new)
        elif isinstance(base, ast.Attribute):
            for a in self.type_of(base.value, fi):
                if a[0] == 'inst':
                    k = (a[1], base.attr)
                    self.attr_types[k] = join(self.attr_types.get(k), new)

    def _scan_func(self, fi):
        e = self.env(fi)
        # parameters
        for p in fi.params + fi.kwonly:
            pt = self.param_types.get((fi.qual, p))
            if pt:
                e[p] = join(e.get(p), pt)
        dflt = fi.defaults()
        for p, d in dflt.items():
            dt = self.type_of(d, fi)
            if dt and dt != NONE:
                e[p] = join(e.get(p), dt)
        if fi.cls and fi.params and 'staticmethod' not in fi.decorators:
            if 'classmethod' in fi.decorators:
                e[fi.params[0]] = T(('cls', fi.cls))
            else:
                e[fi.params[0]] = T(('inst', fi.cls))
        if fi.parent is not None:
            for k, v in self.env(fi.parent).items():
                e.setdefault(k, v)
        rets = EMPTY
        for n in walk_own(fi.node):
            if isinstance(n, ast.Assign):
                vt = self.type_of(n.value, fi)
                for t in n.targets:
                    self._bind(fi, t, vt)
            elif isinstance(n, ast.AnnAssign) and n.value is not None:
                self._bind(fi, n.target, self.type_of(n.value, fi))
            elif isinstance(n, ast.AugAssign):
                if isinstance(n.op, ast.Add):
                    vt = self.type_of(n.value, fi)
                    if any(a[0] == 'list' for a in vt):
                        self._bind(fi, n.target, vt)
            elif isinstance(n, (ast.For, ast.comprehension)):
                it = self.type_of(n.iter, fi)
                self._bind(fi, n.target, self.elem_of(it))
            elif isinstance(n, ast.ExceptHandler) and n.name:
                names = []
                if n.type is not None:
                    tn = n.type.elts if isinstance(n.type, ast.Tuple) \
                        else [n.type]
                    for x in tn:
                        if isinstance(x, ast.Name):
                            names.append(x.id)
                        elif isinstance(x, ast.Attribute):
                            names.append(x.attr)
                e[n.name] = join(e.get(n.name),
                                 frozenset(('exc', x) for x in names))
            elif isinstance(n, ast.Return) and n.value is not None:
                rets = join(rets, self.type_of(n.value, fi))
            elif isinstance(n, ast.Return):
                rets = join(rets, NONE)
            elif isinstance(n, ast.Call):
                self._scan_call(fi, n)
        if fi.is_generator:
            rets = T(('gen', fi.qual))
        if rets:
            self.ret_types[fi.qual] = join(self.ret_types.get(fi.qual), rets)

    def _scan_call(self, fi, n):
        # container mutation through methods
        f = n.func
        if isinstance(f, ast.Attribute) and f.attr in ('append', 'add') \
                and len(n.args) == 1:
            at = self.type_of(n.args[0], fi)
            if at:
                self._refine_container(fi, f.value, ('list', at))
        elif isinstance(f, ast.Attribute) and f.attr == 'extend' \
                and len(n.args) == 1:
            at = self.elem_of(self.type_of(n.args[0], fi))
            if at:
                self._refine_container(fi, f.value, ('list', at))
        # parameter types from call sites
        for tg in self.resolve_call(n, fi):
            if tg.kind not in ('h2', 'h2class') or tg.fi is None:
                continue
            callee = tg.fi
            params = list(callee.params)
            if callee.cls and 'staticmethod' not in callee.decorators \
                    and tg.kind in ('h2', 'h2class') and params:
                # bound call: drop self, unless called through the class
                # (table functions are called as func(self, ...)).
                if not self._called_unbound(n, fi):
                    params = params[1:]
            for i, a in enumerate(n.args):
                if isinstance(a, ast.Starred) or i >= len(params):
                    break
                at = self.type_of(a, fi)
                if at:
                    k = (callee.qual, params[i])
                    self.param_types[k] = join(self.param_types.get(k), at)
            for kw in n.keywords:
                if kw.arg and (kw.arg in callee.params or
                               kw.arg in callee.kwonly):
                    at = self.type_of(kw.value, fi)
                    if at:
                        k = (callee.qual, kw.arg)
                        self.param_types[k] = join(self.param_types.get(k),
                                                   at)

    def _called_unbound(self, call, fi):
        ft = self.type_of(call.func, fi)
        return any(a[0] == 'func' for a in ft) and \
            not any(a[0] == 'bound' for a in ft)

    # ------------------------------------------------------------------
    def elem_of(self, t):
        out = EMPTY
        for a in t or ():
            if a[0] == 'list':
                out = join(out, a[1])
            elif a[0] == 'dict':
                out = join(out, a[1])
            elif a[0] == 'tuple':
                out = join(out, *a[1])
            elif a[0] == 'dictitems':
                out = join(out, T(('tuple', (a[1], a[2]))))
            elif a[0] == 'gen':
                out = join(out, T(('prim', 'header')))
        return out

    def type_of(self, e, fi):
        key = (id(e), fi.qual if fi else None)
        if key in self._busy:
            return EMPTY
        self._busy.add(key)
        try:
            return self._type_of(e, fi)
        finally:
            self._busy.discard(key)

    def _type_of(self, e, fi):
        m = self.m
        if isinstance(e, ast.Constant):
            v = e.value
            if v is None:
                return NONE
            return T(('prim', type(v).__name__))
        if isinstance(e, ast.Name):
            if fi is not None:
                t = self.env(fi).get(e.id)
                if t:
                    return t
                if e.id in fi.params or e.id in fi.kwonly:
                    return EMPTY
                nested = m.funcs.get('%s.%s' % (fi.qual, e.id))
                if nested is not None:
                    return T(('func', nested.qual))
            module = fi.module if fi else None
            r = m.resolve_name(module, e.id) if module else None
            if r is None:
                return EMPTY
            if r[0] == 'func':
                return T(('func', r[1].qual))
            if r[0] == 'class':
                return T(('cls', r[1].qual))
            if r[0] == 'ext':
                nm = r[2]
                if nm and nm[0].isupper():
                    return T(('extcls', nm))
                return T(('extfunc', '%s.%s' % (r[1], nm)))
            if r[0] == 'extmod':
                return T(('extmod', r[1]))
            if r[0] == 'const':
                out = EMPTY
                for v in r[1]:
                    out = join(out, self.type_of(v, _ModCtx(r[2])))
                return out
            return EMPTY
        if isinstance(e, ast.Attribute):
            bt = self.type_of(e.value, fi)
            out = EMPTY
            for a in bt:
                if a[0] == 'inst':
                    meth = m.lookup_method(a[1], e.attr)
                    if meth is not None:
                        if meth.is_property:
                            out = join(out, self.ret_types.get(meth.qual))
                        else:
                            out = join(out, T(('bound', meth.qual)))
                        continue
                    t = self.attr_types.get((a[1], e.attr))
                    if t:
                        out = join(out, t)
                        continue
                    c = m.classes.get(a[1])
                    # class-level attribute (e.g. _transitions, constants,
                    # config descriptors)
                    cc = c
                    while cc is not None:
                        if e.attr in cc.attrs:
                            out = join(out, self.type_of(
                                cc.attrs[e.attr], _ModCtx(cc.module, cc.qual)))
                            break
                        nxt = None
                        for b in cc.bases:
                            nxt = m.class_by_name(b)
                            if nxt:
                                break
                        cc = nxt
                    if e.attr == 'logger':
                        out = join(out, T(('logger',)))
                elif a[0] == 'cls':
                    c = m.classes.get(a[1])
                    if c is not None:
                        if m.is_enum(c) and e.attr in m.enum_members(a[1]):
                            out = join(out, T(('enum', a[1])))
                        elif e.attr in c.methods:
                            out = join(out, T(('func', c.methods[e.attr].qual)))
                        elif e.attr in c.attrs:
                            out = join(out, self.type_of(
                                c.attrs[e.attr], _ModCtx(c.module, c.qual)))
                elif a[0] == 'ext':
                    if e.attr in EXT_FIELD_TYPES:
                        out = join(out, EXT_FIELD_TYPES[e.attr])
                    elif e.attr == '__class__':
                        out = join(out, T(('extcls', a[1])))
                    else:
                        out = join(out, T(('extattr', a[1], e.attr)))
                elif a[0] == 'extmod':
                    out = join(out, T(('extfunc', '%s.%s' % (a[1], e.attr))))
                elif a[0] == 'extcls':
                    out = join(out, T(('extfunc', '%s.%s' % (a[1], e.attr))))
                elif a[0] == 'exc':
                    out = join(out, T(('excattr', a[1], e.attr)))
                elif a[0] == 'logger':
                    out = join(out, T(('logmeth',)))
                elif a[0] in ('prim', 'list', 'dict', 'tuple'):
                    out = join(out, T(('builtinmeth', a[0] if a[0] != 'prim'
                                       else a[1], e.attr)))
            return out
        if isinstance(e, ast.Call):
            return self._call_type(e, fi)
        if isinstance(e, ast.Subscript):
            bt = self.type_of(e.value, fi)
            out = EMPTY
            idx = None
            if isinstance(e.slice, ast.Constant) and \
                    isinstance(e.slice.value, int):
                idx = e.slice.value
            is_slice = isinstance(e.slice, ast.Slice)
            for a in bt:
                if a[0] == 'list':
                    out = join(out, T(a) if is_slice else a[1])
                elif a[0] == 'dict':
                    out = join(out, a[2])
                elif a[0] == 'tuple':
                    if idx is not None and -len(a[1]) <= idx < len(a[1]):
                        out = join(out, a[1][idx])
                    else:
                        out = join(out, *a[1])
                elif a[0] == 'prim' and a[1] in ('bytes', 'str', 'bytearray'):
                    out = join(out, T(a) if is_slice else INT)
            return out
        if isinstance(e, ast.IfExp):
            return join(self.type_of(e.body, fi), self.type_of(e.orelse, fi))
        if isinstance(e, ast.BoolOp):
            return join(*[self.type_of(v, fi) for v in e.values])
        if isinstance(e, ast.BinOp):
            lt = self.type_of(e.left, fi)
            rt = self.type_of(e.right, fi)
            if isinstance(e.op, ast.Add):
                if any(a[0] == 'list' for a in lt | rt):
                    return join(frozenset(a for a in lt if a[0] == 'list'),
                                frozenset(a for a in rt if a[0] == 'list'))
                if lt == BYTES or rt == BYTES:
                    return BYTES
            if isinstance(e.op, ast.Mod) and (lt == STR or lt == BYTES):
                return lt
            return INT
        if isinstance(e, ast.Compare):
            return BOOL
        if isinstance(e, ast.UnaryOp):
            return BOOL if isinstance(e.op, ast.Not) else INT
        if isinstance(e, (ast.List, ast.ListComp)):
            if isinstance(e, ast.List):
                return T(('list', join(*[self.type_of(x, fi)
                                         for x in e.elts])))
            return T(('list', self.type_of(e.elt, fi)))
        if isinstance(e, ast.GeneratorExp):
            return T(('list', self.type_of(e.elt, fi)))
        if isinstance(e, ast.Tuple):
            return T(('tuple', tuple(self.type_of(x, fi) for x in e.elts)))
        if isinstance(e, ast.Dict):
            ks = join(*[self.type_of(k, fi) for k in e.keys if k is not None])
            vs = join(*[self.type_of(v, fi) for v in e.values])
            return T(('dict', ks, vs))
        if isinstance(e, (ast.Set, ast.SetComp)):
            return T(('prim', 'set'))
        if isinstance(e, ast.JoinedStr):
            return STR
        if isinstance(e, ast.Starred):
            return EMPTY
        return EMPTY

    def _call_type(self, e, fi):
        out = EMPTY
        f = e.func
        if isinstance(f, ast.Name) and f.id in BUILTIN_RET and \
                not (fi and f.id in self.env(fi)):
            if f.id in ('list', 'tuple') and e.args:
                at = self.type_of(e.args[0], fi)
                return T(('list', self.elem_of(at)))
            if f.id == 'list':
                return T(('list', EMPTY))
            if f.id == 'super':
                return T(('super', fi.cls if fi else None))
            if f.id in ('min', 'max') and e.args:
                return join(*[self.type_of(a, fi) for a in e.args]) or INT
            return BUILTIN_RET[f.id]
        ft = self.type_of(f, fi)
        for a in ft:
            if a[0] == 'cls':
                c = self.m.classes[a[1]]
                if self.m.is_enum(c):
                    out = join(out, T(('enum', a[1])))
                else:
                    out = join(out, T(('inst', a[1])))
            elif a[0] == 'extcls':
                if a[1] in ('deque',):
                    at = self.type_of(e.args[0], fi) if e.args else EMPTY
                    out = join(out, T(('list', self.elem_of(at))))
                elif a[1] in ('OrderedDict',):
                    out = join(out, T(('dict', EMPTY, EMPTY)))
                else:
                    out = join(out, T(('ext', a[1])))
            elif a[0] in ('func', 'bound'):
                callee = self.m.funcs.get(a[1])
                if callee is not None and callee.is_generator:
                    out = join(out, T(('gen', a[1])))
                else:
                    out = join(out, self.ret_types.get(a[1]))
            elif a[0] == 'extfunc':
                nm = a[1]
                if nm.endswith('.deque'):
                    at = self.type_of(e.args[0], fi) if e.args else EMPTY
                    out = join(out, T(('list', self.elem_of(at))))
                elif nm.endswith('namedtuple'):
                    out = join(out, T(('extcls', 'namedtuple')))
                elif nm.endswith('b64encode') or nm.endswith('b64decode'):
                    out = join(out, BYTES)
                elif nm.endswith('re.compile'):
                    out = join(out, T(('ext', 'Pattern')))
                elif nm.endswith('parse_frame_header'):
                    out = join(out, T(('tuple', (T(('ext', 'Frame')), INT))))
                elif nm.endswith('from_settings'):
                    out = join(out, T(('inst', 'events.RemoteSettingsChanged')))
            elif a[0] == 'builtinmeth':
                kind, meth = a[1], a[2]
                recv = self.type_of(f.value, fi) if isinstance(
                    f, ast.Attribute) else EMPTY
                if meth in ('values',):
                    for r in recv:
                        if r[0] == 'dict':
                            out = join(out, T(('list', r[2])))
                elif meth in ('keys',):
                    for r in recv:
                        if r[0] == 'dict':
                            out = join(out, T(('list', r[1])))
                elif meth == 'items':
                    for r in recv:
                        if r[0] == 'dict':
                            out = join(out, T(('list', T(('tuple',
                                                          (r[1], r[2]))))))
                elif meth in ('pop', 'get', 'popleft', 'popitem'):
                    for r in recv:
                        if r[0] == 'dict':
                            out = join(out, r[2])
                        elif r[0] == 'list':
                            out = join(out, r[1])
                elif meth in ('encode', 'join', 'strip', 'lower') and \
                        kind in ('bytes', 'str'):
                    out = join(out, T(('prim', 'bytes' if (
                        meth == 'encode' or kind == 'bytes') else 'str')))
                elif meth == 'decode':
                    out = join(out, STR)
                elif meth in ('startswith', 'endswith'):
                    out = join(out, BOOL)
            elif a[0] == 'extattr':
                # method of an external object
                if a[1] in ('Encoder',) and a[2] == 'encode':
                    out = join(out, BYTES)
                elif a[2] in ('serialize', 'serialize_body'):
                    out = join(out, BYTES)
                elif a[1] == 'Decoder' and a[2] == 'decode':
                    out = join(out, T(('list', T(('prim', 'header')))))
            elif a[0] == 'super':
                pass
        return out

    # ------------------------------------------------------------------
    def resolve_call(self, call, fi):
        """-> list of Target"""
        f = call.func
        m = self.m
        out = []
        if isinstance(f, ast.Name) and not (fi and f.id in self.env(fi)):
            r = m.resolve_name(fi.module, f.id) if fi else None
            if r is None:
                import builtins as _b
                if hasattr(_b, f.id):
                    return [Target('builtin', name=f.id)]
        ft = self.type_of(f, fi)
        recv = f.value if isinstance(f, ast.Attribute) else None
        for a in ft:
            if a[0] in ('func', 'bound'):
                out.append(Target('h2', fi=m.funcs[a[1]], recv=recv))
            elif a[0] == 'cls':
                c = m.classes[a[1]]
                if m.is_enum(c):
                    out.append(Target('builtin', name='Enum()'))
                else:
                    init = m.lookup_method(a[1], '__init__')
                    out.append(Target('h2class', fi=init, name=a[1]))
            elif a[0] == 'extcls':
                out.append(Target('ext', name='%s.__init__' % a[1]))
            elif a[0] == 'extfunc':
                out.append(Target('ext', name=a[1]))
            elif a[0] == 'extattr':
                out.append(Target('ext', name='%s.%s' % (a[1], a[2]),
                                  recv=recv))
            elif a[0] == 'builtinmeth':
                out.append(Target('method', name='%s.%s' % (a[1], a[2]),
                                  recv=recv))
            elif a[0] == 'logmeth':
                out.append(Target('logger', name='logger'))
            elif a[0] == 'none':
                pass
        if out:
            return out
        if ft and all(a[0] == 'none' for a in ft) and \
                isinstance(f, ast.Name):
            # a local that can only hold None (e.g. the side-effect slot of
            # a table whose entries all carry None)
            return [Target('none', name=f.id)]
        if isinstance(f, ast.Attribute):
            bt = self.type_of(f.value, fi)
            # inherited method from an external base class
            for a in bt:
                if a[0] == 'inst':
                    c = m.classes.get(a[1])
                    ext_bases = [b for b in (c.bases if c else [])
                                 if m.class_by_name(b) is None]
                    for b in ext_bases:
                        out.append(Target('ext', name='%s.%s' % (b, f.attr),
                                          recv=f.value))
                elif a[0] == 'super':
                    c = m.classes.get(a[1]) if a[1] else None
                    done = False
                    for b in (c.bases if c else []):
                        bc = m.class_by_name(b)
                        if bc is not None:
                            meth = m.lookup_method(bc.qual, f.attr)
                            if meth is not None:
                                out.append(Target('h2', fi=meth))
                                done = True
                                break
                        else:
                            out.append(Target('ext', name='%s.%s'
                                              % (b, f.attr)))
                            done = True
                            break
                    if not done:
                        out.append(Target('ext', name='object.%s' % f.attr))
            if out:
                return out
            if isinstance(f.value, ast.Call) and \
                    isinstance(f.value.func, ast.Name) and \
                    f.value.func.id == 'super':
                return [Target('ext', name='super.%s' % f.attr)]
            # untyped receiver: fall back on the method name
            return [Target('method', name='?.%s' % f.attr, recv=f.value)]
        return [Target('unknown', name=unparse(f))]

    def targets(self, call):
        return self.call_targets.get(id(call), [])

    def property_target(self, attr_node, fi):
        """If this attribute load/store goes through an h2 property, return
        the FuncInfo (getter for Load, setter for Store)."""
        bt = self.type_of(attr_node.value, fi)
        for a in bt:
            if a[0] == 'inst':
                if isinstance(attr_node.ctx, ast.Store):
                    c = self.m.classes.get(a[1])
                    if c and attr_node.attr in c.setters:
                        return c.setters[attr_node.attr]
                else:
                    meth = self.m.lookup_method(a[1], attr_node.attr)
                    if meth is not None and meth.is_property:
                        return meth
        return None


class _ModCtx:
    """Pseudo function context for typing module/class level expressions."""

    def __init__(self, module, cls=None):
        self.module = module
        self.cls = cls
        self.qual = '<module %s>' % module
        self.params = []
        self.kwonly = []
        self.parent = None
