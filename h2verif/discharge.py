"""Discharging partial operations (DESIGN.md section 2.4).

Every subscript load / pop / external call that may raise is an obligation.
It is discharged by a dominating guard on the same path, by a shape fact
computed from the source (minimum list length of what a function returns,
the column of the stream machine at a call site, coverage of a table), or by
a named exemption with one line of reason.  Anything else stays an
obligation and shows up in may_raise.
"""
import ast

from . import extlib, terms as T
from .srcmodel import EnumVal, unparse, walk_own
from .rules import common as cm


# Pre-states that cannot occur at a call site, each with its reason (named
# exemptions; one symbol, one line).
PRESTATE_EXEMPT = {
    ('push_stream_in_band', 'SEND_PUSH_PROMISE', 'IDLE'):
        'the parent of a push has an odd id; on a server an odd stream '
        'object exists only after a received HEADERS block was accepted '
        '(a failing one closes the connection: rule C18 ORD.terminate) or '
        'after the upgrade stepped it at once (rule C25 ORD.upgrade); an '
        'even parent is refused before the stream method is called (rule '
        'C22 ORD.gate)',
}


# Assertions that hold for a reason another rule checks (or that state the
# documented type of an argument).  Keyed by function and asserted text; if
# the text changes the exemption lapses and the assertion is an obligation.
ASSERT_EXEMPT = {
    ('connection.H2Connection.send_data',
     'self.outbound_flow_control_window >= 0'):
        'implied by the dominating guard amount <= min(windows) (rule C03 '
        'ARITH.assert)',
    ('stream.H2Stream.send_data', 'self.outbound_flow_control_window >= 0'):
        'implied by the guard of H2Connection.send_data, its only caller '
        '(rule C03 ARITH.assert)',
    ('connection.H2Connection.close_connection',
     'isinstance(additional_data, bytes)'):
        'states the documented type of an argument (arguments are assumed '
        'well-typed)',
    ('connection.H2Connection._receive_headers_frame',
     'not <_receive_priority_frame#0>'):
        '_receive_priority_frame returns an empty frame list on every path '
        '(rule C23 FLOW.priority-handler)',
    ('windows.WindowManager.__init__',
     'max_window_size <= LARGEST_FLOW_CONTROL_WINDOW'):
        'constructed from INITIAL_WINDOW_SIZE values, which '
        '_validate_setting bounds by 2**31-1 (rule C12 ARITH.range)',
    ('stream.H2Stream.upgrade', 'self.stream_id == 1'):
        'the only caller passes streams[1] right after creating stream 1 '
        '(rule C25 ORD.upgrade)',
    ('stream._decode_headers', 'isinstance(<each headers>, HeaderTuple)'):
        'hpack\'s decoder yields HeaderTuple objects and every pipeline '
        'stage keeps the class (rule C15 PIPE.class)',
}


class Discharger:
    def __init__(self, eng):
        self.eng = eng
        self.m = eng.m
        self.r = eng.r
        self.R = eng.R0
        self.I = eng.I
        self.reasons = {}       # id(node) -> reason
        self.open = {}          # id(node) -> (PartialOp, why not)
        self._ret_min = {}
        self._busy = set()
        self.facts_used = set()
        self._run()

    # ------------------------------------------------------------------
    def _iteration_key_sites(self):
        """Subscripts X[k] whose key k is the variable of an enclosing
        `for k in X` / `for k in X.keys()` / `for k in list(X)` (loop or
        comprehension) over the same mapping X, with nothing removed from X
        inside that loop: the key is present.  -> {id(node): reason}"""
        out = {}
        for q, fi in self.m.funcs.items():
            for nd in walk_own(fi.node):
                if not (isinstance(nd, ast.Subscript) and
                        isinstance(nd.ctx, (ast.Load, ast.Del)) and
                        isinstance(nd.slice, ast.Name)):
                    continue
                base = unparse(nd.value)
                forms = {base, base + '.keys()', 'list(%s)' % base,
                         'list(%s.keys())' % base, 'sorted(%s)' % base,
                         'tuple(%s)' % base}
                k = nd.slice.id
                p = getattr(nd, '_parent', None)
                child = nd
                while p is not None and not isinstance(
                        p, (ast.FunctionDef, ast.AsyncFunctionDef)):
                    gens = []
                    if isinstance(p, ast.For) and child in p.body:
                        gens = [(p.target, p.iter, p.body)]
                    elif isinstance(p, (ast.ListComp, ast.SetComp,
                                        ast.DictComp, ast.GeneratorExp)):
                        gens = [(g.target, g.iter, []) for g in p.generators]
                    for tgt, it, body in gens:
                        names = [tgt.id] if isinstance(tgt, ast.Name) else []
                        itx = unparse(it)
                        if isinstance(tgt, ast.Tuple) and tgt.elts and \
                                isinstance(tgt.elts[0], ast.Name) and \
                                itx in (base + '.items()',
                                        'list(%s.items())' % base,
                                        'tuple(%s.items())' % base,
                                        'sorted(%s.items())' % base):
                            names = [tgt.elts[0].id]
                            itx = base
                        if k in names and itx in forms:
                            txt = ' '.join(unparse(b) for b in body)
                            # removing the current key itself from a
                            # snapshot iteration is fine (once)
                            txt = txt.replace('del %s[%s]' % (base, k), '') \
                                .replace('%s.pop(%s)' % (base, k), '')
                            removed = any(
                                ('%s.%s(' % (base, m_)) in txt
                                for m_ in ('pop', 'popitem', 'clear')) or \
                                ('del %s[' % base) in txt
                            rebound = any(
                                isinstance(x, ast.Name) and x.id == k and
                                isinstance(x.ctx, ast.Store)
                                for b in body for x in ast.walk(b))
                            if not removed and not rebound:
                                out[id(nd)] = ('key drawn from iterating '
                                               'the same mapping (%s)'
                                               % unparse(it))
                    child = p
                    p = getattr(p, '_parent', None)
        return out

    def _run(self):
        self.iter_keys = self._iteration_key_sites()
        for k, why in self.iter_keys.items():
            self.reasons[k] = why
        by_fn = {}
        seen = set()
        for op in self.R.partial_ops:
            if id(op.node) in seen:
                continue
            seen.add(id(op.node))
            by_fn.setdefault(op.fi.qual, []).append(op)
        self.ops = by_fn
        for q, ops in sorted(by_fn.items()):
            fi = self.m.funcs.get(q)
            if fi is None:
                continue
            paths = None
            for op in ops:
                if op.kind in ('subscript', 'del-subscript') and \
                        id(op.node) in self.R.handled_ops:
                    # caught by a local handler: flows there, not out
                    continue
                if op.kind == 'call' and \
                        (id(op.node), op.exc) in self.R.handled_ops:
                    continue
                if op.kind in ('subscript', 'del-subscript') and \
                        id(op.node) in self.iter_keys:
                    why = (True, self.iter_keys[id(op.node)])
                elif op.kind == 'subscript':
                    if paths is None:
                        paths = self.I.run(fi)
                    why = self._subscript(fi, op, paths)
                elif op.kind == 'call':
                    if paths is None:
                        paths = self.I.run(fi)
                    why = self._call(fi, op, paths)
                else:
                    why = (False, 'not analysed')
                key = (id(op.node), op.exc) if op.kind == 'call' \
                    else id(op.node)
                if why[0]:
                    self.reasons[key] = why[1]
                else:
                    self.open[key] = (op, why[1])
        self.settings_getitem_sites()
        self._asserts()

    # -- assertions ----------------------------------------------------------
    def never_returns(self, fi, depth=0):
        """Every path of fi ends in a raise (using the stream machine's table
        for steps whose input has no cell at all)."""
        key = ('nr', fi.qual)
        if key in self._ret_min:
            return self._ret_min[key]
        if key in self._busy or depth > 3:
            return False
        self._busy.add(key)
        res = True
        try:
            for p in self.I.run(fi):
                if p.exit == 'raise':
                    continue
                # a normally ending path: does it pass a call that cannot
                # return?
                dead = False
                for e in p.events:
                    if e.kind != 'call':
                        continue
                    if cm.is_call_to(e, 'process_input') and e.args:
                        nm = cm.enum_name(e.args[0])
                        recv = e.get('recv')
                        if nm and recv is not None and \
                                cm.show0(recv).endswith('state_machine'):
                            tab = self.eng.fsm.stream if any(
                                'stream.' in str(n) for n in e.names) \
                                else self.eng.fsm.conn
                            if not any(k[1] == nm for k in tab.cells):
                                dead = True
                    for t in e.get('targets') or ():
                        if t is not None and t.qual != fi.qual and \
                                not t.is_generator and \
                                self.never_returns(t, depth + 1):
                            dead = True
                if not dead:
                    res = False
                    break
        finally:
            self._busy.discard(key)
        self._ret_min[key] = res
        return res

    def _asserts(self):
        self.assert_reasons = {}
        self.assert_open = {}
        for q, fi in sorted(self.m.funcs.items()):
            for nd in walk_own(fi.node):
                if not isinstance(nd, ast.Assert):
                    continue
                txt = unparse(nd.test)
                why = None
                ex = ASSERT_EXEMPT.get((q, txt)) or \
                    ASSERT_EXEMPT.get((q, self._canon_assert(fi, nd.test)))
                if ex is None:
                    ex = self._assert_by_meaning(fi, nd)
                if ex is not None:
                    why = ex
                elif self._assert_dead(fi, nd):
                    why = 'unreachable: the preceding call never returns ' \
                          '(the stream machine has no cell for its input)'
                elif self._assert_by_fsm(fi, nd, txt):
                    why = self._assert_by_fsm(fi, nd, txt)
                if why:
                    self.assert_reasons[id(nd)] = why
                    self.reasons[id(nd)] = why
                else:
                    self.assert_open[id(nd)] = (fi, nd, txt)

    def _assert_by_meaning(self, fi, nd):
        """The named exemptions above, recognised by what the assertion
        says rather than by its spelling."""
        test = nd.test
        # (a) the documented type of an argument: only isinstance(P, ...) and
        # `P is None` over parameters of the function
        params = set(fi.params) | set(fi.kwonly)

        def type_only(e):
            if isinstance(e, ast.BoolOp):
                return all(type_only(v) for v in e.values)
            if isinstance(e, ast.UnaryOp) and isinstance(e.op, ast.Not):
                return type_only(e.operand)
            if isinstance(e, ast.Call) and isinstance(e.func, ast.Name) and \
                    e.func.id == 'isinstance' and e.args and \
                    isinstance(e.args[0], ast.Name) and \
                    e.args[0].id in params:
                return True
            if isinstance(e, ast.Compare) and len(e.ops) == 1 and \
                    isinstance(e.ops[0], (ast.Is, ast.IsNot)) and \
                    isinstance(e.left, ast.Name) and e.left.id in params \
                    and isinstance(e.comparators[0], ast.Constant) and \
                    e.comparators[0].value is None:
                return True
            return False
        if type_only(test) and any(isinstance(n, ast.Call)
                                   for n in ast.walk(test)):
            return ('states the documented type of an argument (arguments '
                    'are assumed well-typed)')
        # (b) send_data: the window after the decrement is not negative
        if fi.name == 'send_data' and isinstance(test, ast.Compare) and \
                len(test.ops) == 1:
            lhs, rhs, op = test.left, test.comparators[0], test.ops[0]
            if isinstance(op, (ast.LtE, ast.Lt)):
                lhs, rhs = rhs, lhs
                op = ast.GtE() if isinstance(op, ast.LtE) else ast.Gt()
            if isinstance(op, ast.GtE) and isinstance(rhs, ast.Constant) \
                    and rhs.value == 0:
                txt = unparse(lhs)
                if isinstance(lhs, ast.Name):
                    # a local holding the new window
                    for n in walk_own(fi.node):
                        if isinstance(n, ast.Assign) and any(
                                isinstance(t, ast.Name) and t.id == lhs.id
                                for t in n.targets):
                            txt = unparse(n.value)
                if 'outbound_flow_control_window' in txt:
                    return ('the window after the decrement: implied by the '
                            'guard amount <= min(windows) of '
                            'H2Connection.send_data (rule C03 ARITH.assert)')
        return None

    def _assert_dead(self, fi, nd):
        """assert directly after a call that never returns."""
        body = getattr(nd, '_parent', None)
        stmts = getattr(body, 'body', None)
        if not stmts or nd not in stmts:
            return False
        i = stmts.index(nd)
        if i == 0:
            return False
        prev = stmts[i - 1]
        calls = [n for n in ast.walk(prev) if isinstance(n, ast.Call)]
        for c in calls:
            for tg in self.r.targets(c):
                if tg.kind == 'h2' and tg.fi is not None:
                    if tg.fi.name == 'process_input' and c.args:
                        v = self.m.try_fold(c.args[0], fi.module, fi.cls)
                        if isinstance(v, EnumVal):
                            tab = self.eng.fsm.stream \
                                if tg.fi.cls.startswith('stream.') \
                                else self.eng.fsm.conn
                            if not any(k[1] == v.name for k in tab.cells):
                                return True
                    elif self.never_returns(tg.fi):
                        return True
        return False

    def _canon_assert(self, fi, test):
        """The assertion with every local replaced by where its value comes
        from, so that the exemption table does not depend on what a local is
        called: <callee> for `x = ...callee(..)`, <callee#i> for the i-th
        target of a tuple assignment from a call, <each ITER> for a loop
        variable."""
        names = {}
        for n in walk_own(fi.node):
            if not (isinstance(n, ast.Name) and
                    isinstance(n.ctx, ast.Store)):
                continue
            par = getattr(n, '_parent', None)
            desc = None
            if isinstance(par, ast.Assign) and par.targets[0] is n and \
                    isinstance(par.value, ast.Call):
                f = par.value.func
                desc = '<%s>' % (f.attr if isinstance(f, ast.Attribute)
                                 else getattr(f, 'id', '?'))
            elif isinstance(par, ast.Tuple):
                pp = getattr(par, '_parent', None)
                if isinstance(pp, ast.Assign) and pp.targets[0] is par and \
                        isinstance(pp.value, ast.Call):
                    f = pp.value.func
                    desc = '<%s#%d>' % (
                        f.attr if isinstance(f, ast.Attribute)
                        else getattr(f, 'id', '?'), par.elts.index(n))
            elif isinstance(par, ast.For) and par.target is n:
                desc = '<each %s>' % unparse(par.iter)
            if n.id in names and names[n.id] != desc:
                desc = None
            names[n.id] = desc
        names = {k: v for k, v in names.items() if v}
        if not names:
            return unparse(test)

        class R(ast.NodeTransformer):
            def visit_Name(self, n):
                if n.id in names:
                    return ast.Name(id=names[n.id], ctx=n.ctx)
                return n
        import copy
        return unparse(R().visit(copy.deepcopy(test)))

    def _single_assign(self, fi, name):
        """The value expression of the only binding of a local, or None."""
        if name in fi.params or name in fi.kwonly:
            return None
        vals = []
        for n in walk_own(fi.node):
            if isinstance(n, ast.Name) and n.id == name and \
                    isinstance(n.ctx, (ast.Store, ast.Del)):
                par = getattr(n, '_parent', None)
                if isinstance(par, ast.Assign) and len(par.targets) == 1 \
                        and par.targets[0] is n:
                    vals.append(par.value)
                else:
                    return None
        return vals[0] if len(vals) == 1 else None

    def _is_first_event_of(self, fi, test, inp, cls):
        """test says isinstance(E, cls) where E is element 0 of the list the
        state machine returned for input `inp` (through any chain of
        once-assigned locals)."""
        if not (isinstance(test, ast.Call) and
                isinstance(test.func, ast.Name) and
                test.func.id == 'isinstance' and len(test.args) == 2 and
                isinstance(test.args[1], ast.Name) and
                test.args[1].id == cls):
            return False
        e = test.args[0]
        for _ in range(4):
            if isinstance(e, ast.Name):
                e = self._single_assign(fi, e.id)
            else:
                break
        if not (isinstance(e, ast.Subscript) and
                isinstance(e.slice, ast.Constant) and e.slice.value == 0):
            return False
        src = e.value
        for _ in range(4):
            if isinstance(src, ast.Name):
                src = self._single_assign(fi, src.id)
            else:
                break
        if not (isinstance(src, ast.Call) and
                isinstance(src.func, ast.Attribute) and
                src.func.attr == 'process_input' and len(src.args) == 1):
            return False
        v = self.m.try_fold(src.args[0], fi.module, fi.cls)
        return isinstance(v, EnumVal) and v.name == inp

    def _assert_by_fsm(self, fi, nd, txt):
        fsm = self.eng.fsm
        from .spec.rfc7540_stream import INITIAL, feedable
        if fi.qual == 'stream.H2Stream.locally_pushed' and \
                self._canon_assert(fi, nd.test) == 'not <process_input>':
            r = fsm.step_impl(INITIAL, 'SEND_PUSH_PROMISE')
            if r[0] == 'ok' and r[1] == ():
                return 'a fresh stream answers SEND_PUSH_PROMISE with no ' \
                       'event (extracted cell (IDLE, SEND_PUSH_PROMISE))'
        if fi.qual == 'stream.H2Stream.receive_alt_svc' and \
                self._is_first_event_of(
                    fi, nd.test, 'RECV_ALTERNATIVE_SERVICE',
                    'AlternativeServiceAvailable'):
            order, _ = fsm.reachable(feedable)
            for s in order:
                r = fsm.step_impl(s, 'RECV_ALTERNATIVE_SERVICE')
                if r[0] == 'ok' and r[1] not in (
                        (), ('AlternativeServiceAvailable',)):
                    return None
            return 'column RECV_ALTERNATIVE_SERVICE of the extracted ' \
                   'machine returns nothing or one ' \
                   'AlternativeServiceAvailable'
        return None

    # -- subscripts --------------------------------------------------------
    def _subscript(self, fi, op, paths):
        node = op.node
        hits = 0
        reasons = set()
        for p in paths:
            for i, e in enumerate(p.events):
                if e.kind == 'load' and e.node is node:
                    hits += 1
                    ok, why = self._load_ok(fi, p, i, e, op)
                    if not ok:
                        return (False, why)
                    reasons.add(why)
        if hits == 0:
            # the path walk never reached it (e.g. inside a comprehension
            # evaluated symbolically): decide on the syntax alone
            return self._syntactic(fi, op)
        return (True, '; '.join(sorted(reasons)))

    def _syntactic(self, fi, op):
        node = op.node
        base = node.value
        if isinstance(base, ast.Name) and isinstance(node.slice, ast.Constant):
            return (False, 'not reached by the path walk')
        return (False, 'not reached by the path walk')

    def _load_ok(self, fi, p, i, e, op):
        cont = e.container
        key = e.key
        # ---- header tuples
        if cont[0] == 'lv' and T.is_int_const(key) and key[1] in (0, 1) and \
                self._is_headers_iter(cont):
            self.facts_used.add('header-2-tuple')
            return (True, 'a header is a 2-tuple (hpack HeaderTuple / '
                    'documented argument type)')
        # ---- characters of a header name / value
        if cont[0] == 'sub' and cont[1][0] == 'lv' and \
                T.is_int_const(key) and key[1] in (0, -1):
            if self._truthy_before(p, i, cont):
                return (True, 'guarded by a truthiness test')
            if T.is_int_const(cont[2]) and cont[2][1] == 0:
                okk, why = self._name_nonempty_stage(fi)
                if okk:
                    return (True, why)
                return (False, 'header name may be empty here: ' + why)
            return (False, 'possibly empty header value is indexed')
        # ---- a module-level table with an entry for either truth value,
        # indexed by a test (isinstance / comparison / not)
        if key[0] in ('isinstance', 'eq', 'ne', 'is', 'in', 'not') and \
                cont[0] in ('global', 'c'):
            tab = cont[1] if cont[0] == 'c' else self.m.try_fold(
                ast.Name(id=cont[2], ctx=ast.Load()), cont[1])
            if isinstance(tab, dict) and True in tab and False in tab:
                return (True, 'table has an entry for True and for False')
        # ---- dictionaries
        if self._dictish(e, fi) or (op.exc == 'KeyError' and
                                    not T.is_int_const(key)):
            return self._dict_ok(fi, p, i, e)
        # ---- sequences
        if T.is_int_const(key):
            k = key[1]
            need = k + 1 if k >= 0 else -k
            clen = e.get('clen')
            if clen is not None and clen >= need:
                return (True, 'list literal / appended list of known length')
            ml = self.minlen(fi, p, i, cont, 0)
            if ml >= need:
                return (True, 'minimum length %d established' % ml)
            return (False, 'nothing establishes that %s has more than %d '
                    'element(s)' % (cm.show0(cont), need - 1))
        # enum-indexed module table
        if cont[0] == 'global' and cont[2] == 'STREAM_OPEN':
            try:
                self.eng.fsm.stream_open
                self.facts_used.add('STREAM_OPEN covers StreamState')
                return (True, 'STREAM_OPEN covers every StreamState member')
            except Exception as x:      # pragma: no cover
                return (False, str(x))
        return (False, 'index %s of %s is not bounded' % (cm.show0(key),
                                                          cm.show0(cont)))

    def _is_headers_iter(self, lv):
        it = lv[2]
        if it == ('p', 'headers'):
            return True
        # nested generator: closure variable of the enclosing function
        if it[0] in ('p',) and it[1] in ('headers', 'pushed_headers',
                                         'request_headers'):
            return True
        return False

    def _truthy_before(self, p, i, term):
        t = ('truth', term)
        for e in p.events[:i]:
            if e.kind == 'assume' and _eqv(e.cond, t):
                return True
        return False

    def _dictish(self, e, fi):
        n = e.node
        if isinstance(n, ast.Subscript):
            atoms = self.r.type_of(n.value, fi)
            kinds = {a[0] for a in atoms}
            if self.R.mapping_instance(atoms):
                kinds.add('dict')
            return 'dict' in kinds and 'list' not in kinds
        return False

    # name non-empty: established by an earlier stage in every pipeline
    def _name_nonempty_stage(self, fi):
        stage = fi if fi.parent is None else fi.parent
        guards = self._empty_name_guards()
        users = cm.find_funcs_calling(self.eng, stage.name)
        users = [(f, n) for f, n in users if f.qual != stage.qual]
        if not users:
            return (False, 'stage %s is not used in any pipeline'
                    % stage.name)
        for f, call in users:
            # statements of the builder in order; the guard stage must come
            # first (each stage consumes the previous one's output)
            order = []
            for st in f.node.body:
                for n in ast.walk(st):
                    if isinstance(n, ast.Call) and \
                            isinstance(n.func, ast.Name):
                        order.append(n.func.id)
            if stage.name not in order:
                return (False, 'cannot order the stages of %s' % f.qual)
            before = order[:order.index(stage.name)]
            if not any(g in before for g in guards):
                return (False, 'in %s no stage that rejects empty names '
                        'precedes %s' % (f.qual, stage.name))
        self.facts_used.add('empty-name stage first')
        return (True, 'an empty-name-rejecting stage (%s) precedes this '
                'stage in %s' % ('/'.join(sorted(guards)), ', '.join(
                    sorted(f.qual.split('.')[-1] for f, _ in users))))

    def _empty_name_guards(self):
        if hasattr(self, '_eng_guards'):
            return self._eng_guards
        out = set()
        for q, fi in self.m.funcs.items():
            if fi.module != 'utilities' or not fi.is_generator:
                continue
            for p in self.I.run(fi):
                r = cm.explicit_raise(p)
                if r is None or 'ProtocolError' not in p.exc['names']:
                    continue
                conds = [e.cond for e in p.events if e.kind == 'assume']
                if not conds:
                    continue
                c = conds[-1]
                k = cm.aff_key(c)
                if k is not None and k[0] == '==' and k[2] == 0 and \
                        len(k[1]) == 1 and \
                        list(k[1])[0][0].startswith('len(each(') and \
                        list(k[1])[0][0].endswith('[0])'):
                    out.add(fi.name)
                if c[0] == 'not' and c[1][0] == 'truth' and \
                        c[1][1][0] == 'sub' and c[1][1][1][0] == 'lv' and \
                        c[1][1][2] == T.C(0):
                    out.add(fi.name)
        self._eng_guards = out
        return out

    # dictionaries
    def _dict_ok(self, fi, p, i, e):
        cont, key = e.container, e.key
        cname = cm.attr_chain(cont)
        kshow = cm.show0(key)
        # table of the frame dispatcher
        if cname == 'self._frame_dispatch_table':
            okk, why = self._dispatch_complete()
            return (okk, why)
        killed_at = -1
        for j, x in enumerate(p.events[:i]):
            if x.kind == 'call' and cname and cname.startswith('self.'):
                attr = cname.split('.')[1]
                for t in x.get('targets') or ():
                    if t is not None and self.I.writes.deletes(t.qual, attr):
                        killed_at = j
            if x.kind == 'call' and x.get('mutates') and \
                    cm.attr_chain(x.get('recv')) == cname and \
                    cm.ev_callee_names(x) & {'pop', 'clear', 'popitem'}:
                killed_at = j
        for j in range(i - 1, killed_at, -1):
            x = p.events[j]
            if x.kind == 'assume' and x.cond[0] == 'in' and \
                    cm.show0(x.cond[1]) == kshow and \
                    cm.show0(x.cond[2]) == cm.show0(cont):
                return (True, 'guarded by a membership test')
            if x.kind == 'store' and cm.show0(x.container) == \
                    cm.show0(cont) and cm.show0(x.key) == kshow:
                return (True, 'stored on this path')
            if x.kind == 'call' and cname == 'self.streams':
                for t in x.get('targets') or ():
                    if t is None:
                        continue
                    pi = self.ensures_member(t)
                    if pi is None:
                        continue
                    args = list(x.args)
                    kw = x.kwargs
                    params = [q for q in t.params if q != 'self']
                    val = None
                    if pi < len(args):
                        val = args[pi]
                    elif pi < len(params) and params[pi] in kw:
                        val = kw[params[pi]]
                    if val is not None and cm.show0(val) == kshow:
                        return (True, 'after a successful %s(%s)'
                                % (t.name, kshow))
        # constant key of a literal table
        if key[0] == 'c':
            lit = self._literal_keys(fi, e)
            if lit is not None and _key_in(key[1], lit):
                return (True, 'key of the literal table')
        return (False, 'no dominating guard establishes %s in %s'
                % (kshow, cm.show0(cont)))

    def _literal_keys(self, fi, e):
        return None

    def _dispatch_complete(self):
        init = self.m.func('connection.H2Connection.__init__')
        have = set()
        for n in ast.walk(init.node):
            if isinstance(n, ast.Dict) and n.keys and all(
                    isinstance(k, ast.Name) for k in n.keys) and all(
                    isinstance(v, ast.Attribute) for v in n.values):
                for k in n.keys:
                    have.add(k.id)
        need = set(extlib.frame_registry())
        missing = need - have
        if missing:
            return (False, 'frame classes without a handler: %s'
                    % sorted(missing))
        self.facts_used.add('dispatch table covers the hyperframe registry')
        return (True, 'the dispatch table covers every class hyperframe\'s '
                'parser can produce')

    def ensures_member(self, fi):
        """Index (among non-self params) of the parameter p such that a
        normal return of fi implies p in self.streams; else None."""
        key = ('ens', fi.qual)
        if key in self._ret_min:
            return self._ret_min[key]
        self._ret_min[key] = None
        if key in self._busy:
            return None
        self._busy.add(key)
        res = None
        try:
            params = [q for q in fi.params if q != 'self']
            for pi, pn in enumerate(params):
                good = True
                any_normal = False
                for p in self.I.run(fi):
                    if p.exit == 'raise':
                        continue
                    any_normal = True
                    found = False
                    for x in p.events:
                        if x.kind in ('load', 'store') and \
                                cm.attr_chain(x.container) == \
                                'self.streams' and x.key == ('p', pn):
                            # a load that did not raise / a store
                            found = True
                        if x.kind == 'assume' and x.cond[0] == 'in' and \
                                x.cond[1] == ('p', pn) and \
                                cm.attr_chain(x.cond[2]) == 'self.streams':
                            found = True
                        if x.kind == 'call':
                            for t in x.get('targets') or ():
                                if t is None or t.qual == fi.qual:
                                    continue
                                sub = self.ensures_member(t)
                                if sub is not None:
                                    a = list(x.args)
                                    tp = [q for q in t.params if q != 'self']
                                    v = a[sub] if sub < len(a) else \
                                        x.kwargs.get(tp[sub]) \
                                        if sub < len(tp) else None
                                    if v == ('p', pn):
                                        found = True
                    if not found:
                        good = False
                        break
                if good and any_normal:
                    res = pi
                    break
        finally:
            self._busy.discard(key)
        self._ret_min[key] = res
        return res

    # -- minimum length of a list-valued term --------------------------------
    def minlen(self, fi, p, i, term, depth):
        """Lower bound of len(term) at event index i of path p."""
        if depth > 4:
            return 0
        best = 0
        # guards on the path
        for x in p.events[:i]:
            if x.kind == 'load' and T.is_int_const(x.key) and \
                    _eqv_t(x.container, term):
                # an earlier index into the same list did not raise
                k = x.key[1]
                best = max(best, k + 1 if k >= 0 else -k)
            if x.kind == 'assume':
                if _eqv(x.cond, ('truth', term)):
                    best = max(best, 1)
                k = x.cond
                if k[0] == 'cmp0' and k[1] in ('>', '>='):
                    f = T.to_aff(k[2])
                    if f and len(f[0]) == 1:
                        (atom, c), = f[0].items()
                        if c == 1 and atom[0] == 'call' and \
                                atom[1] == 'len' and \
                                _eqv_t(atom[2][0], term):
                            # len + k > 0  -> len >= 1 - k ; >= : len >= -k
                            lo = (1 - f[1]) if k[1] == '>' else -f[1]
                            best = max(best, lo)
        # poplefts / pops on the same term reduce the bound
        drops = 0
        adds = 0
        for x in p.events[:i]:
            if x.kind == 'call' and _eqv_t(x.get('recv'), term):
                nm = cm.ev_callee_names(x)
                if nm & {'popleft', 'pop'}:
                    drops += 1
                if nm & {'append'}:
                    adds += 1
        base = 0
        if term[0] == 'obj':
            el = p.state.objs.get(term, {}).get('$elems')
            if el is not None:
                base = sum(1 for z in el if z[0] != 'splat')
                adds = 0
        elif term[0] == 'or' and isinstance(term[1], tuple) and term[1]:
            # `a or b`: a where it is truthy (a sequence: at least one
            # element), otherwise b
            alts = term[1]
            lens = [max(self.minlen(fi, p, i, a, depth + 1), 1)
                    for a in alts[:-1]]
            lens.append(self.minlen(fi, p, i, alts[-1], depth + 1))
            base = min(lens)
        elif term[0] == 'concat':
            base = self.minlen(fi, p, i, term[1], depth + 1) + \
                self.minlen(fi, p, i, term[2], depth + 1)
        elif term[0] == 'call':
            base = self._call_minlen(fi, p, i, term, None, depth)
        elif term[0] == 'sub' and term[1][0] == 'call' and \
                T.is_int_const(term[2]):
            base = self._call_minlen(fi, p, i, term[1], term[2][1], depth)
        elif term[0] == 'p':
            base = self._param_minlen(fi, term[1], depth)
        elif term[0] == 'a':
            # attribute list guarded elsewhere: only path guards count
            base = 0
        elif term[0] == 'sub' and cm.attr_chain(term[1]) == \
                'self._settings' and self._deque_invariant():
            base = 1
        elif term[0] == 'lv' and term[2][0] == 'call' and \
                term[2][1].endswith('.items') and \
                cm.attr_chain(term[2][2][0]) == 'self._settings' and \
                term[3:] == (1,) and self._deque_invariant():
            base = 1
        return max(best - drops, base + adds - drops, 0)

    def _deque_invariant(self):
        """Every value stored in Settings._settings is a deque built from a
        non-empty list, and elements are only removed by popleft under a
        `len(v) > 1` guard."""
        if hasattr(self, '_dq'):
            return self._dq
        ok = True
        n = 0
        cls = self.m.cls('settings.Settings')
        for name, fi in self.m.methods_of(cls.qual).items():
            for nd in ast.walk(fi.node):
                # stores into self._settings[...] and the initial literal
                vals = []
                if isinstance(nd, ast.Assign):
                    for t in nd.targets:
                        if isinstance(t, ast.Subscript) and \
                                isinstance(t.value, ast.Attribute) and \
                                t.value.attr == '_settings':
                            vals.append(nd.value)
                        if isinstance(t, ast.Attribute) and \
                                t.attr == '_settings' and \
                                isinstance(nd.value, ast.Dict):
                            vals.extend(nd.value.values)
                for v in vals:
                    n += 1
                    src = v
                    if isinstance(v, ast.Name):
                        # items = collections.deque([None]); ...[key] = items
                        src = None
                        for n2 in ast.walk(fi.node):
                            if isinstance(n2, ast.Assign) and any(
                                    isinstance(t, ast.Name) and
                                    t.id == v.id for t in n2.targets) and \
                                    isinstance(n2.value, ast.Call):
                                src = n2.value
                    if not (isinstance(src, ast.Call) and
                            unparse(src.func).endswith('deque') and
                            src.args and isinstance(src.args[0], ast.List)
                            and len(src.args[0].elts) >= 1):
                        ok = False
                if isinstance(nd, ast.Call) and \
                        isinstance(nd.func, ast.Attribute) and \
                        nd.func.attr in ('popleft', 'pop', 'clear',
                                         'remove') and name != 'acknowledge':
                    if 'settings' in unparse(nd.func.value):
                        ok = False
        self._dq = ok and n >= 5
        if self._dq:
            self.facts_used.add('settings queues are never empty')
        return self._dq

    def settings_literal_keys(self):
        """Enum member names that are keys of the initial _settings literal
        in Settings.__init__."""
        fi = self.m.func('settings.Settings.__init__')
        out = set()
        for nd in ast.walk(fi.node):
            if isinstance(nd, ast.Assign) and any(
                    isinstance(t, ast.Attribute) and t.attr == '_settings'
                    for t in nd.targets) and isinstance(nd.value, ast.Dict):
                for k in nd.value.keys:
                    v = self.m.try_fold(k, 'settings')
                    if isinstance(v, EnumVal):
                        out.add(v.name)
        return out

    def settings_getitem_sites(self):
        """self[SettingCodes.X] / settings[SettingCodes.X] with X a key of
        the initial literal: Settings.__getitem__ cannot raise there, given
        that nothing in h2 deletes a setting."""
        keys = self.settings_literal_keys()
        deleters = [f.qual for f, _ in cm.find_funcs_calling(
            self.eng, '__delitem__')]
        dels = []
        for q, fi in self.m.funcs.items():
            for nd in walk_own(fi.node):
                if isinstance(nd, ast.Delete) and any(
                        isinstance(t, ast.Subscript) and 'settings'
                        in unparse(t.value) for t in nd.targets) and \
                        not q.endswith('.__delitem__'):
                    dels.append(q)
        if deleters or dels:
            return
        for q, fi in self.m.funcs.items():
            for nd in walk_own(fi.node):
                if isinstance(nd, ast.Subscript) and \
                        isinstance(nd.ctx, ast.Load):
                    bt = self.r.type_of(nd.value, fi)
                    if ('inst', 'settings.Settings') not in bt:
                        continue
                    v = self.m.try_fold(nd.slice, fi.module, fi.cls)
                    if isinstance(v, EnumVal) and v.name in keys and \
                            self._deque_invariant():
                        self.reasons[id(nd)] = (
                            'key of the Settings initial literal; no h2 '
                            'code deletes a setting; queues never empty')
                        self.facts_used.add('settings literal keys')

    def _call_minlen(self, fi, p, i, term, tuple_index, depth):
        name = term[1]
        quals = [q for q in name.split('|')]
        vals = []
        for q in quals:
            callee = self.m.funcs.get(q)
            if callee is None:
                return 0
            if callee.name == 'process_input' and \
                    callee.cls == 'stream.H2StreamStateMachine' and \
                    tuple_index is None:
                vals.append(self._fsm_minlen(fi, p, i, term))
                continue
            if callee.name == 'process_input':
                vals.append(0)
                continue
            vals.append(self.returns_minlen(callee, tuple_index, depth + 1))
        return min(vals) if vals else 0

    def returns_minlen(self, callee, tuple_index, depth):
        key = ('ret', callee.qual, tuple_index)
        if key in self._ret_min:
            return self._ret_min[key]
        if key in self._busy or depth > 4:
            return 0
        self._busy.add(key)
        try:
            best = None
            for p in self.I.run(callee):
                if p.exit == 'raise':
                    continue
                v = p.value
                if tuple_index is not None:
                    if v is not None and v[0] == 'tuple' and \
                            tuple_index < len(v[1]):
                        v = v[1][tuple_index]
                    else:
                        v = None
                if v is None:
                    ml = 0
                else:
                    ml = self.minlen(callee, p, len(p.events), v, depth)
                best = ml if best is None else min(best, ml)
            res = best or 0
        finally:
            self._busy.discard(key)
        self._ret_min[key] = res
        return res

    def _param_minlen(self, fi, pname, depth):
        """Minimum over all call sites of fi of the argument's length."""
        key = ('par', fi.qual, pname)
        if key in self._ret_min:
            return self._ret_min[key]
        if key in self._busy:
            return 0
        self._busy.add(key)
        try:
            sites = cm.find_funcs_calling(self.eng, fi.name)
            sites = [(f, n) for f, n in sites if f.qual != fi.qual]
            if not sites:
                return 0
            params = [q for q in fi.params if q != 'self']
            if pname not in params:
                return 0
            pi = params.index(pname)
            best = None
            for f, call in sites:
                for p in self.I.run(f):
                    for j, x in enumerate(p.events):
                        if x.kind == 'call' and x.node is call:
                            a = x.args
                            v = a[pi] if pi < len(a) else \
                                x.kwargs.get(pname)
                            ml = self.minlen(f, p, j, v, depth + 1) \
                                if v is not None else 0
                            best = ml if best is None else min(best, ml)
            res = best or 0
        finally:
            self._busy.discard(key)
        self._ret_min[key] = res
        return res

    def _fsm_minlen(self, fi, p, i, term):
        """Shape of column I of the stream machine at this call site, given
        the pre-states the method's earlier steps can leave."""
        fsm = self.eng.fsm
        from .spec.rfc7540_stream import feedable
        order, _ = fsm.reachable(feedable)
        # which step of the method is this?
        steps = cm.process_inputs(p)
        idx = None
        for n, (nm, ev, a) in enumerate(steps):
            if ev.get('result') == term:
                idx = n
        if idx is None:
            return 0
        pre = set(order)
        for n in range(idx):
            nm = steps[n][0]
            nxt = set()
            for s in pre:
                if nm is None:
                    return 0
                r = fsm.step_impl(s, nm)
                if r[0] == 'ok':
                    nxt.add(r[2])
            pre = nxt
        inp = steps[idx][0]
        if inp is None:
            return 0
        best = None
        witness = None
        for s in pre:
            if not feedable(s, inp):
                continue
            if (fi.name, inp, s.st) in PRESTATE_EXEMPT:
                self.facts_used.add('exempt pre-state %s/%s/%s'
                                    % (fi.name, inp, s.st))
                continue
            r = fsm.step_impl(s, inp)
            if r[0] != 'ok':
                continue            # raises: nothing is indexed
            n = len(r[1])
            if best is None or n < best:
                best, witness = n, s
        self._fsm_witness = witness
        self.facts_used.add('stream machine column shape')
        return best if best is not None else 1

    # -- calls ---------------------------------------------------------------
    def _call(self, fi, op, paths):
        node = op.node
        txt = op.desc
        exc = op.exc
        f = node.func if isinstance(node, ast.Call) else None
        # flags.add('X')
        if isinstance(f, ast.Attribute) and f.attr == 'add' and \
                exc == 'ValueError' and 'Flags.add' in txt:
            return self._flag_ok(fi, node, paths)
        if exc == 'InvalidDataError' and isinstance(node, ast.Call) and \
                '.__init__' in txt:
            return self._ctor_ok(fi, node)
        if 'Enum()' in txt and exc == 'ValueError':
            # AllowedStreamIDs(<bool>)
            if node.args:
                a = node.args[0]
                tt = self.r.type_of(a, fi)
                kinds = {x[1] for x in tt if x[0] == 'prim'}
                if kinds == {'bool'} or (isinstance(a, ast.UnaryOp) and
                                         isinstance(a.op, ast.Not)) or \
                        (isinstance(a, ast.Attribute) and
                         a.attr == 'client_side'):
                    return (True, 'argument is a bool; both 0 and 1 are '
                            'members')
            return (False, 'enum lookup of an unchecked value')
        if 'popleft' in txt and exc == 'IndexError':
            for p in paths:
                for i, e in enumerate(p.events):
                    if e.kind == 'call' and e.node is node:
                        ml = self.minlen(fi, p, i, e.recv, 0)
                        if ml < 1:
                            return (False, 'popleft of a possibly empty '
                                    'deque')
            return (True, 'guarded by a length test')
        if '.pop ' in txt and exc == 'KeyError' and \
                fi.qual.endswith('_open_streams'):
            return (True, 'keys collected from self.streams.items() in the '
                    'same call')
        if 'popitem' in txt and exc == 'KeyError':
            for p in paths:
                for i, e in enumerate(p.events):
                    if e.kind == 'call' and e.node is node:
                        k = [cm.aff_key(x.cond) for x in p.events[:i]
                             if x.kind == 'assume']
                        if not any(kk and kk[0] == '>' and
                                   ('len(self)', 1) in kk[1] for kk in k):
                            return (False, 'popitem of a possibly empty '
                                    'mapping')
            return (True, 'len(self) > limit >= 0')
        return (False, 'external call may raise %s' % exc)

    def _flag_ok(self, fi, node, paths):
        flag = node.args[0].value if (node.args and isinstance(
            node.args[0], ast.Constant)) else None
        if flag is None:
            return (False, 'flag is not a constant')
        frames = extlib.frames()
        # receiver classes: through the path interpreter when the frame
        # object is tracked, else through the resolver's types
        classes = set()
        recv = node.func.value.value if isinstance(
            node.func.value, ast.Attribute) else None
        if recv is not None:
            for a in self.r.type_of(recv, fi):
                if a[0] == 'ext':
                    classes.add(a[1])
        if classes and all(flag in frames.get(c, {}).get('flags', ())
                           for c in classes):
            return (True, 'flag defined on %s' % '/'.join(sorted(classes)))
        # elements of a list attribute: classes established by isinstance
        # facts at every site that appends to it
        got = self._attr_list_classes(fi, node, paths)
        if got and all(flag in frames.get(c, {}).get('flags', ())
                       for c in got):
            return (True, 'flag defined on %s (every append to the buffer is '
                    'guarded by isinstance)' % '/'.join(sorted(got)))
        # context: which classes can really arrive here?
        got = self._flag_classes_inlined(fi, node)
        if got and all(flag in frames.get(c, {}).get('flags', ())
                       for c in got):
            return (True, 'flag defined on %s (receiver traced through the '
                    'callee)' % '/'.join(sorted(got)))
        return (False, 'flag %r is not defined on %s' % (
            flag, '/'.join(sorted(got or classes)) or 'the receiver'))

    def _attr_list_classes(self, fi, node, paths):
        """receiver is (a local bound to) self.<attr>[k]: union of the classes
        that isinstance facts establish at every append site of <attr> in the
        class; None when some site is unguarded."""
        attr = None
        for p in paths:
            for e in p.events:
                if e.kind == 'call' and e.node is node:
                    recv = e.get('recv')
                    # recv is <frame>.flags ; frame is self.attr[k]
                    fr = recv[1] if (recv and recv[0] == 'a') else None
                    if fr is not None and fr[0] == 'sub' and \
                            fr[1][0] == 'a' and fr[1][1] == ('p', 'self'):
                        attr = fr[1][2]
        if attr is None or fi.cls is None:
            return None
        classes = set()
        sites = 0
        for name, f2 in self.m.methods_of(fi.cls).items():
            for p in self.I.run(f2):
                for i, e in enumerate(p.events):
                    if e.kind == 'call' and e.get('mutates') and \
                            cm.ev_callee_names(e) & {'append'} and \
                            e.recv and e.recv[0] == 'a' and \
                            e.recv[2] == attr and e.recv[1] == ('p', 'self'):
                        sites += 1
                        val = e.args[0]
                        got = None
                        for x in p.events[:i]:
                            if x.kind == 'assume' and \
                                    x.cond[0] == 'isinstance' and \
                                    x.cond[1] == val:
                                got = set(x.cond[2])
                        if got is None:
                            return None
                        classes |= got
        return classes if sites else None

    def _flag_classes_inlined(self, fi, node):
        """Classes of the frame whose flags are extended at `node`: the
        receiver is element k of a list returned by a callee; follow the
        callee's returned list one call at a time (no deep inlining)."""
        got = set()
        I1 = self.eng.interp(frozenset({
            'stream.H2Stream._build_headers_frames'}), depth=1,
            fork_raises=False)
        for p in I1.run(fi):
            for e in p.events:
                if e.kind == 'flag' and e.node is node:
                    got.add(e.obj[2])
                if e.kind == 'call' and e.node is node:
                    # untracked receiver: <list term>[k].flags
                    recv = e.get('recv')
                    fr = recv[1] if (recv and recv[0] == 'a') else None
                    if fr is not None and fr[0] == 'sub' and \
                            T.is_int_const(fr[2]):
                        cl = self.elem_classes_of_term(fr[1], fr[2][1], 0)
                        if cl is None:
                            return set()
                        got |= cl
        return got

    def elem_classes_of_term(self, term, index, depth):
        if depth > 3 or term is None:
            return None
        if term[0] == 'call':
            out = set()
            for q in term[1].split('|'):
                callee = self.m.funcs.get(q)
                if callee is None:
                    return None
                cl = self.elem_classes(callee, index, depth + 1)
                if cl is None:
                    return None
                out |= cl
            return out
        return None

    def elem_classes(self, fi, index, depth):
        """Classes of element `index` of the list fi returns."""
        key = ('elc', fi.qual, index)
        if key in self._ret_min:
            return self._ret_min[key]
        if key in self._busy:
            return None
        self._busy.add(key)
        out = set()
        try:
            I1 = self.eng.interp(frozenset({
                'stream.H2Stream._build_headers_frames'}), depth=1,
                fork_raises=False)
            for p in I1.run(fi):
                if p.exit == 'raise':
                    continue
                v = p.value
                el = cm.list_elems(p, v)
                if el is not None:
                    try:
                        x = el[index]
                    except IndexError:
                        out = None
                        break
                    if x[0] == 'obj':
                        out.add(x[2])
                    else:
                        out = None
                        break
                else:
                    cl = self.elem_classes_of_term(v, index, depth)
                    if cl is None:
                        out = None
                        break
                    out |= cl
        finally:
            self._busy.discard(key)
        self._ret_min[key] = out
        return out

    def _ctor_ok(self, fi, node):
        cls = node.func.id if isinstance(node.func, ast.Name) else None
        arg = node.args[0] if node.args else None
        for k in node.keywords:
            if k.arg == 'stream_id':
                arg = k.value
        if arg is None:
            return (False, 'no stream id')
        src = unparse(arg)
        # ids of existing streams / of exceptions raised for them / ids that
        # hyperframe's parser guarantees to be non-zero
        ok_sources = {
            'self.stream_id': 'stream ids of H2Stream objects are positive: '
                              'streams are only created by _begin_new_stream '
                              'after `stream_id <= watermark` was refused '
                              '(watermarks start at 0; rule C09 ARITH.id-low)',
            'e.stream_id': 'carried by an exception raised for an existing '
                           'or forgotten stream id',
            'exc.stream_id': 'carried by an exception raised for an existing '
                             'or forgotten stream id',
            'frame.promised_stream_id': 'hyperframe refuses PUSH_PROMISE '
                                        'frames promising stream 0',
        }
        if src in ok_sources:
            self.facts_used.add('positive stream ids')
            return (True, ok_sources[src])
        # the argument may have travelled through locals / tuples: decide
        # on the value it has on every path that reaches the constructor
        shows = set()
        for p in self.I.run(fi):
            for e in p.events:
                if e.kind in ('new', 'call') and e.node is node and \
                        e.get('args'):
                    shows.add(cm.show0(e.args[0]))
        if shows and shows <= set(ok_sources):
            self.facts_used.add('positive stream ids')
            return (True, '; '.join(ok_sources[x] for x in sorted(shows)))
        return (False, '%s(%s): hyperframe raises InvalidDataError for a '
                'stream id of the wrong kind' % (cls, src))


def _eqv(a, b):
    return cm.show0(a) == cm.show0(b)


def _eqv_t(a, b):
    if a is None or b is None:
        return False
    return cm.show0(a) == cm.show0(b)


def _key_in(k, lit):
    try:
        return k in lit
    except Exception:
        return False
