"""Obligations, reports, known findings, evidence (DESIGN.md section 3)."""
import json
import os
import re
import sys
import time

VERIF_DIR = os.path.dirname(os.path.dirname(os.path.abspath(__file__)))
REPO = os.environ.get('H2VERIF_REPO', '/repo')


_INL = re.compile(r'_inl\d+_')


class AnalysisError(Exception):
    """The checker could not do its job (anchor vanished, floor missed)."""


class Obligation:
    __slots__ = ('rule', 'where', 'desc', 'ok', 'detail', 'loc', 'nontrivial')

    def __init__(self, rule, where, desc, ok, detail='', loc=None,
                 nontrivial=True):
        self.rule = rule
        # locals of inlined helpers carry a numbered prefix (normalise.py);
        # keys must not depend on it
        self.where = _INL.sub('', where) if isinstance(where, str) else where
        self.desc = _INL.sub('', desc) if isinstance(desc, str) else desc
        self.ok = bool(ok)
        self.detail = detail
        self.loc = loc
        self.nontrivial = nontrivial

    def key(self, prop):
        return '%s|%s|%s|%s' % (prop, self.rule, self.where, self.desc)

    def as_sample(self, prop):
        return {'key': self.key(prop), 'ok': self.ok, 'loc': self.loc,
                'detail': self.detail}


class Ctx:
    """Collects what one property check analysed and decided."""

    def __init__(self, prop, tier='quick', seed=0, model=None):
        self.prop = prop
        self.tier = tier
        self.seed = seed
        self.model = model
        self.obligations = []
        self.analysed = {}       # name -> count / list
        self.notes = []
        self.assumptions = []
        self.rules = []          # human description of rules applied
        self.states = None
        self.transitions = None
        self.exhaustive = False
        self.t0 = time.time()

    # -- recording --------------------------------------------------------
    def ob(self, rule, where, desc, ok, detail='', node=None, loc=None,
           nontrivial=True):
        if loc is None and node is not None:
            loc = self.loc_of(node)
        o = Obligation(rule, where, desc, ok, detail, loc, nontrivial)
        self.obligations.append(o)
        return o.ok

    def loc_of(self, node):
        f = getattr(node, '_file', None)
        ln = getattr(node, 'lineno', None)
        if f is None and self.model is not None:
            f = self.model.file_of(node)
        return '%s:%s' % (f or '?', ln if ln is not None else '?')

    def count(self, name, n=1):
        self.analysed[name] = self.analysed.get(name, 0) + n

    def record(self, name, value):
        self.analysed[name] = value

    def rule(self, text):
        if text not in self.rules:
            self.rules.append(text)

    def assume(self, text):
        if text not in self.assumptions:
            self.assumptions.append(text)

    def note(self, text):
        self.notes.append(text)

    def floor(self, name, minimum):
        """Fail closed when the analysis lost sight of code."""
        got = self.analysed.get(name, 0)
        if isinstance(got, (list, tuple, set, dict)):
            got = len(got)
        if got < minimum:
            raise AnalysisError(
                'coverage floor missed: %s = %s, expected at least %s'
                % (name, got, minimum))

    def require(self, cond, what):
        if not cond:
            raise AnalysisError(what)
        return cond


def load_known():
    path = os.path.join(VERIF_DIR, 'known_findings.json')
    if not os.path.exists(path):
        return []
    with open(path) as fh:
        return json.load(fh)


def finish(ctx, out=sys.stdout):
    """Print report, write evidence, return exit code."""
    prop = ctx.prop
    known = [k for k in load_known()
             if k.get('property') == prop and k.get('status') == 'open']
    known_by_key = {k['key']: k for k in known}
    failed = [o for o in ctx.obligations if not o.ok]
    violations = []
    kf_hits = {}
    for o in failed:
        k = o.key(prop)
        if k in known_by_key:
            kf_hits.setdefault(k, o)
        else:
            violations.append(o)
    w = out.write
    parts = []
    for name, v in ctx.analysed.items():
        if isinstance(v, (list, tuple, set, dict)):
            v = len(v)
        parts.append('%s=%s' % (name, v))
    w('analysed: %s\n' % ', '.join(parts))
    for n in ctx.notes:
        w('note: %s\n' % n)
    for k, o in kf_hits.items():
        w('KNOWN-FINDING: property=%s %s [%s]\n'
          % (prop, known_by_key[k].get('what_fails', ''), k))
    stale = [k for k in known_by_key if k not in kf_hits]
    for k in stale:
        w('note: listed known finding no longer reported on this tree: %s\n'
          % k)
    replay_dir = os.environ.get('H2VERIF_REPLAY_DIR') or \
        os.path.join(VERIF_DIR, 'evidence', 'replay')
    seen = set()
    n = 0
    for o in violations:
        k = o.key(prop)
        if k in seen:
            continue
        seen.add(k)
        n += 1
        os.makedirs(replay_dir, exist_ok=True)
        rp = os.path.join(replay_dir, '%s-%d.json' % (prop, n))
        with open(rp, 'w') as fh:
            json.dump({'property': prop, 'key': k, 'rule': o.rule,
                       'where': o.where, 'desc': o.desc, 'loc': o.loc,
                       'detail': o.detail}, fh, indent=1)
        w('VIOLATION property=%s replay=%s\n' % (prop, rp))
        w('  %s %s  %s: %s\n    %s\n' % (o.loc or '?', o.where, o.rule,
                                         o.desc, o.detail))
    total = len(ctx.obligations)
    disch = total - len(failed)
    w('obligations %d, discharged %d, known findings %d, violations %d\n'
      % (total, disch, len(kf_hits), len(seen)))
    write_evidence(ctx, total, disch, len(kf_hits), len(seen))
    return 1 if seen else 0


def write_evidence(ctx, total, disch, nknown, nviol):
    if os.environ.get('H2VERIF_NOEVIDENCE'):
        return
    prop = ctx.prop
    distinct = len({o.key(prop) for o in ctx.obligations if o.nontrivial})
    obs = ctx.obligations
    samples = []
    if obs:
        step = max(1, len(obs) // 6)
        start = ctx.seed % step if step else 0
        for o in obs[start::step][:6]:
            samples.append(o.as_sample(prop))
        for o in obs:
            if not o.ok and len(samples) < 12:
                samples.append(o.as_sample(prop))
    analysed = {}
    for k, v in ctx.analysed.items():
        if isinstance(v, set):
            v = sorted(v)
        analysed[k] = v
    cov = {
        'explanation': (
            'Static analysis of /repo/src/h2 (parsed with ast on this run; '
            'nothing of h2 is imported or executed). Rules applied: '
            + ' | '.join(ctx.rules)),
        'obligations': total,
        'discharged': disch,
        'known_findings': nknown,
        'evaluations': max(total, 1) + int(
            ctx.analysed.get('paths_examined', 0) or 0) + int(
            ctx.transitions or 0),
        'distinct_nontrivial': distinct,
        'rule': ('evaluations = obligations decided + control paths of '
                 'the analysed functions handed to the rules + abstract '
                 'state-machine transitions compared, all counted on this '
                 'run; one obligation per (rule, function, construct) '
                 'instance found in the source; distinct_nontrivial = '
                 'distinct obligation keys whose rule inspected at least one '
                 'construct of the current tree'),
        'samples': samples,
        'analysed': analysed,
        'exhaustive': bool(ctx.exhaustive),
        'checker_cmd': './check %s --tier %s' % (prop, ctx.tier),
        'trusted_base': ['CPython ast', 'hyperframe/hpack source summaries',
                         'spec tables in /verif/h2verif/spec'],
    }
    if ctx.states is not None:
        cov['states'] = ctx.states
    if ctx.transitions is not None:
        cov['transitions'] = ctx.transitions
    ev = {
        'property_id': prop,
        'tier': ctx.tier,
        'seed': int(ctx.seed),
        'level': 'other',
        'coverage': cov,
        'assumptions': ctx.assumptions,
        'wall_s': round(time.time() - ctx.t0, 3),
        'violations': nviol,
    }
    d = os.path.join(VERIF_DIR, 'evidence')
    os.makedirs(d, exist_ok=True)
    with open(os.path.join(d, '%s.json' % prop), 'w') as fh:
        json.dump(ev, fh, indent=1, default=str)
