"""h2verif: repository-specific static analysis for hyper-h2 (see /verif/DESIGN.md)."""
