"""Reference stream machine ``step_ref`` (DESIGN.md appendix A).

Written from RFC 7540 section 5.1 (states; stream vs connection errors),
section 8.1 (message shape), section 8.2 (push), RFC 7838 section 4, and the
library's documented leniencies (CHANGELOG 3.1.1 / 3.2.0, the comments above
the table).  It is data for the checker; it never touches the target.

Abstract state: S(st, client, hs, ts, hr, tr, cb)
  st      stream state name
  client  None | True | False
  hs ts   final headers / trailers sent
  hr tr   final headers / trailers received
  cb      None | 'SEND_END_STREAM' | 'RECV_END_STREAM' | 'SEND_RST_STREAM' |
          'RECV_RST_STREAM'
Outcome kinds:
  ok      accepted; events listed; next state given
  refuse  plain ProtocolError, state := CLOSED (connection error on receive,
          local refusal on send)
  closed  StreamClosedError without events, state stays CLOSED
  reset   state := CLOSED, cb := SEND_RST_STREAM, StreamClosedError carrying
          one locally generated StreamReset
"""
import collections

S = collections.namedtuple('S', 'st client hs ts hr tr cb')

STATES = ['IDLE', 'RESERVED_REMOTE', 'RESERVED_LOCAL', 'OPEN',
          'HALF_CLOSED_REMOTE', 'HALF_CLOSED_LOCAL', 'CLOSED']
INPUTS = ['SEND_HEADERS', 'SEND_PUSH_PROMISE', 'SEND_RST_STREAM', 'SEND_DATA',
          'SEND_WINDOW_UPDATE', 'SEND_END_STREAM', 'RECV_HEADERS',
          'RECV_PUSH_PROMISE', 'RECV_RST_STREAM', 'RECV_DATA',
          'RECV_WINDOW_UPDATE', 'RECV_END_STREAM', 'RECV_CONTINUATION',
          'SEND_INFORMATIONAL_HEADERS', 'RECV_INFORMATIONAL_HEADERS',
          'SEND_ALTERNATIVE_SERVICE', 'RECV_ALTERNATIVE_SERVICE',
          'UPGRADE_CLIENT', 'UPGRADE_SERVER']
INITIAL = S('IDLE', None, False, False, False, False, None)
STREAM_OPEN = {'OPEN', 'HALF_CLOSED_LOCAL', 'HALF_CLOSED_REMOTE'}


def refuse(s):
    return ('refuse', (), s._replace(st='CLOSED'))


def ok(s, events=(), **kw):
    return ('ok', tuple(events), s._replace(**kw))


def closed(s):
    return ('closed', (), s._replace(st='CLOSED'))


def reset(s):
    return ('reset', ('StreamReset',),
            s._replace(st='CLOSED', cb='SEND_RST_STREAM'))


def _response_sent(s, nxt):
    # footnote 1
    if not s.hs:
        if s.client is True or s.client is None:
            return refuse(s)
        return ok(s, ['_ResponseSent'], st=nxt, hs=True)
    if s.ts:
        return refuse(s)
    return ok(s, ['_TrailersSent'], st=nxt, ts=True)


def _response_received(s, nxt):
    # footnote 2
    if not s.hr:
        if s.client is not True:
            return refuse(s)
        return ok(s, ['ResponseReceived'], st=nxt, hr=True)
    if s.tr:
        return refuse(s)
    return ok(s, ['TrailersReceived'], st=nxt, tr=True)


def _alt(s):
    # footnote 3
    if s.client is False or s.hr:
        return ok(s)
    return ok(s, ['AlternativeServiceAvailable'])


def _send_alt(s):
    if s.hs:
        return refuse(s)
    return ok(s)


def _send_rst(s):
    return ok(s, st='CLOSED', cb='SEND_RST_STREAM')


def _recv_rst(s):
    return ok(s, ['StreamReset'], st='CLOSED', cb='RECV_RST_STREAM')


def _recv_wu(s):
    return ok(s, ['WindowUpdated'])


def _send_pp_open(s):
    if s.client is True:
        return refuse(s)
    return ok(s, ['_PushedRequestSent'])


def _recv_pp_open(s):
    if s.client is not True:
        return refuse(s)
    return ok(s, ['PushedStreamReceived'])


def _send_info(s):
    if s.hs:
        return refuse(s)
    return ok(s, ['_ResponseSent'])


def _recv_info(s):
    if s.hr:
        return refuse(s)
    return ok(s, ['InformationalResponseReceived'])


def _recv_data_open(s):
    if not s.hr:
        return refuse(s)
    return ok(s, ['DataReceived'])


def step_ref(s, i):
    st = s.st
    if st == 'IDLE':
        if i == 'SEND_HEADERS':
            return ok(s, ['_RequestSent'], st='OPEN', client=True, hs=True)
        if i == 'RECV_HEADERS':
            if s.hr or s.tr:
                return refuse(s)
            return ok(s, ['RequestReceived'], st='OPEN', client=False,
                      hr=True)
        if i == 'RECV_DATA':
            return reset(s)
        if i == 'SEND_PUSH_PROMISE':
            if s.client is not None:
                return refuse(s)
            return ok(s, st='RESERVED_LOCAL', client=False, hr=True)
        if i == 'RECV_PUSH_PROMISE':
            if s.client is not None:
                return refuse(s)
            return ok(s, st='RESERVED_REMOTE', client=True, hs=True)
        if i == 'RECV_ALTERNATIVE_SERVICE':
            return ok(s)
        if i == 'UPGRADE_CLIENT':
            return ok(s, ['_RequestSent'], st='HALF_CLOSED_LOCAL',
                      client=True, hs=True)
        if i == 'UPGRADE_SERVER':
            if s.hr or s.tr:
                return refuse(s)
            return ok(s, ['RequestReceived'], st='HALF_CLOSED_REMOTE',
                      client=False, hr=True)
        return refuse(s)
    if st == 'RESERVED_LOCAL':
        if i == 'SEND_HEADERS':
            return _response_sent(s, 'HALF_CLOSED_REMOTE')
        if i == 'RECV_DATA':
            return reset(s)
        if i == 'SEND_WINDOW_UPDATE':
            return ok(s)
        if i == 'RECV_WINDOW_UPDATE':
            return _recv_wu(s)
        if i == 'SEND_RST_STREAM':
            return _send_rst(s)
        if i == 'RECV_RST_STREAM':
            return _recv_rst(s)
        if i == 'SEND_ALTERNATIVE_SERVICE':
            return _send_alt(s)
        if i == 'RECV_ALTERNATIVE_SERVICE':
            return ok(s)
        return refuse(s)
    if st == 'RESERVED_REMOTE':
        if i == 'RECV_HEADERS':
            return _response_received(s, 'HALF_CLOSED_LOCAL')
        if i == 'RECV_DATA':
            return reset(s)
        if i == 'SEND_WINDOW_UPDATE':
            return ok(s)
        if i == 'RECV_WINDOW_UPDATE':
            return _recv_wu(s)
        if i == 'SEND_RST_STREAM':
            return _send_rst(s)
        if i == 'RECV_RST_STREAM':
            return _recv_rst(s)
        if i == 'RECV_ALTERNATIVE_SERVICE':
            return _alt(s)
        return refuse(s)
    if st == 'OPEN':
        if i == 'SEND_HEADERS':
            return _response_sent(s, 'OPEN')
        if i == 'RECV_HEADERS':
            return _response_received(s, 'OPEN')
        if i == 'SEND_DATA':
            return ok(s) if s.hs else refuse(s)
        if i == 'RECV_DATA':
            return _recv_data_open(s)
        if i == 'SEND_END_STREAM':
            return ok(s, st='HALF_CLOSED_LOCAL') if s.hs else refuse(s)
        if i == 'RECV_END_STREAM':
            return ok(s, ['StreamEnded'], st='HALF_CLOSED_REMOTE')
        if i == 'SEND_WINDOW_UPDATE':
            return ok(s)
        if i == 'RECV_WINDOW_UPDATE':
            return _recv_wu(s)
        if i == 'SEND_RST_STREAM':
            return _send_rst(s)
        if i == 'RECV_RST_STREAM':
            return _recv_rst(s)
        if i == 'SEND_PUSH_PROMISE':
            return _send_pp_open(s)
        if i == 'RECV_PUSH_PROMISE':
            return _recv_pp_open(s)
        if i == 'SEND_INFORMATIONAL_HEADERS':
            return _send_info(s)
        if i == 'RECV_INFORMATIONAL_HEADERS':
            return _recv_info(s)
        if i == 'SEND_ALTERNATIVE_SERVICE':
            return _send_alt(s)
        if i == 'RECV_ALTERNATIVE_SERVICE':
            return _alt(s)
        return refuse(s)
    if st == 'HALF_CLOSED_REMOTE':
        if i == 'SEND_HEADERS':
            return _response_sent(s, 'HALF_CLOSED_REMOTE')
        if i == 'RECV_HEADERS':
            return reset(s)
        if i == 'SEND_DATA':
            return ok(s) if s.hs else refuse(s)
        if i == 'RECV_DATA':
            return reset(s)
        if i == 'SEND_END_STREAM':
            return ok(s, st='CLOSED', cb='SEND_END_STREAM') if s.hs \
                else refuse(s)
        if i == 'SEND_WINDOW_UPDATE':
            return ok(s)
        if i == 'RECV_WINDOW_UPDATE':
            return _recv_wu(s)
        if i == 'SEND_RST_STREAM':
            return _send_rst(s)
        if i == 'RECV_RST_STREAM':
            return _recv_rst(s)
        if i == 'SEND_PUSH_PROMISE':
            return _send_pp_open(s)
        if i == 'RECV_PUSH_PROMISE':
            return reset(s)
        if i == 'SEND_INFORMATIONAL_HEADERS':
            return _send_info(s)
        if i == 'SEND_ALTERNATIVE_SERVICE':
            return _send_alt(s)
        if i == 'RECV_ALTERNATIVE_SERVICE':
            return _alt(s)
        return refuse(s)
    if st == 'HALF_CLOSED_LOCAL':
        if i == 'RECV_HEADERS':
            return _response_received(s, 'HALF_CLOSED_LOCAL')
        if i == 'RECV_DATA':
            return _recv_data_open(s)
        if i == 'RECV_END_STREAM':
            return ok(s, ['StreamEnded'], st='CLOSED', cb='RECV_END_STREAM')
        if i == 'SEND_WINDOW_UPDATE':
            return ok(s)
        if i == 'RECV_WINDOW_UPDATE':
            return _recv_wu(s)
        if i == 'SEND_RST_STREAM':
            return _send_rst(s)
        if i == 'RECV_RST_STREAM':
            return _recv_rst(s)
        if i == 'RECV_PUSH_PROMISE':
            return _recv_pp_open(s)
        if i == 'RECV_INFORMATIONAL_HEADERS':
            return _recv_info(s)
        if i == 'SEND_ALTERNATIVE_SERVICE':
            return _send_alt(s)
        if i == 'RECV_ALTERNATIVE_SERVICE':
            return _alt(s)
        return refuse(s)
    if st == 'CLOSED':
        if i in ('SEND_HEADERS', 'SEND_DATA', 'SEND_END_STREAM',
                 'SEND_RST_STREAM', 'SEND_WINDOW_UPDATE'):
            return closed(s)
        if i in ('RECV_HEADERS', 'RECV_INFORMATIONAL_HEADERS', 'RECV_DATA'):
            return closed(s)
        if i in ('RECV_END_STREAM', 'RECV_RST_STREAM', 'RECV_WINDOW_UPDATE',
                 'RECV_ALTERNATIVE_SERVICE'):
            return ok(s)
        if i == 'RECV_PUSH_PROMISE':
            if s.cb == 'SEND_RST_STREAM':
                return closed(s)
            return refuse(s)
        return refuse(s)
    raise ValueError(st)


# Which inputs the *stream API* can feed, by state-machine flags (layer 2;
# confirmed against H2Stream by the checker): SEND_INFORMATIONAL_HEADERS only
# when the stream is not a client stream; the constructor-phase inputs only on
# a fresh stream.
def feedable(s, i):
    if i == 'SEND_INFORMATIONAL_HEADERS':
        return not s.client
    if i in ('UPGRADE_CLIENT', 'UPGRADE_SERVER'):
        return s == INITIAL
    return True


# Connection machine reference (RFC 7540 roles; DESIGN.md C08/C19/C24).
CONN_STATES = ['IDLE', 'CLIENT_OPEN', 'SERVER_OPEN', 'CLOSED']
CONN_INPUTS = ['SEND_HEADERS', 'SEND_PUSH_PROMISE', 'SEND_DATA',
               'SEND_GOAWAY', 'SEND_WINDOW_UPDATE', 'SEND_PING',
               'SEND_SETTINGS', 'SEND_RST_STREAM', 'SEND_PRIORITY',
               'RECV_HEADERS', 'RECV_PUSH_PROMISE', 'RECV_DATA',
               'RECV_GOAWAY', 'RECV_WINDOW_UPDATE', 'RECV_PING',
               'RECV_SETTINGS', 'RECV_RST_STREAM', 'RECV_PRIORITY',
               'SEND_ALTERNATIVE_SERVICE', 'RECV_ALTERNATIVE_SERVICE']


def conn_ref(state, inp, client_side):
    """Reference next state of the connection machine for an endpoint whose
    role is known, or None when the input must be refused (-> CLOSED)."""
    if state == 'CLOSED':
        return 'CLOSED' if inp in ('SEND_GOAWAY', 'RECV_GOAWAY') else None
    if inp in ('SEND_GOAWAY', 'RECV_GOAWAY'):
        return 'CLOSED'
    neutral = ('SEND_SETTINGS', 'RECV_SETTINGS', 'SEND_WINDOW_UPDATE',
               'RECV_WINDOW_UPDATE', 'SEND_PING', 'RECV_PING',
               'RECV_PRIORITY')
    my_open = 'CLIENT_OPEN' if client_side else 'SERVER_OPEN'
    if state == 'IDLE':
        if inp in neutral:
            return 'IDLE'
        if inp == 'SEND_PRIORITY':
            return 'IDLE' if client_side else None
        if client_side and inp == 'SEND_HEADERS':
            return 'CLIENT_OPEN'
        if not client_side and inp == 'RECV_HEADERS':
            return 'SERVER_OPEN'
        if not client_side and inp == 'SEND_ALTERNATIVE_SERVICE':
            return 'SERVER_OPEN'
        if client_side and inp == 'RECV_ALTERNATIVE_SERVICE':
            return 'CLIENT_OPEN'
        if not client_side and inp == 'RECV_ALTERNATIVE_SERVICE':
            return 'IDLE'      # servers ignore ALTSVC (RFC 7838 section 4)
        return None
    if state != my_open:
        return None           # the other role's state: unreachable
    if inp in neutral:
        return state
    common = ('SEND_HEADERS', 'SEND_DATA', 'RECV_HEADERS', 'RECV_DATA',
              'SEND_RST_STREAM', 'RECV_RST_STREAM')
    if inp in common:
        return state
    if client_side:
        if inp in ('SEND_PRIORITY', 'RECV_PUSH_PROMISE',
                   'RECV_ALTERNATIVE_SERVICE'):
            return state
        return None
    if inp in ('SEND_PUSH_PROMISE', 'SEND_ALTERNATIVE_SERVICE',
               'RECV_ALTERNATIVE_SERVICE'):
        # a server that receives ALTSVC ignores it (RFC 7838 section 4)
        return state
    if inp == 'SEND_PRIORITY':
        # table allows it; the RFC1122Error gate refuses it before the
        # machine is consulted (checked by C08/C23)
        return state
    return None
