"""Integer interval sets for conditions over one variable (rule family ARITH).

A region is a sorted list of disjoint closed intervals (lo, hi) with
lo/hi ints or -INF/+INF.  This is interval arithmetic on the *extracted*
guards; nothing of the target runs.
"""
from . import terms as T
from .srcmodel import EnumVal

INF = float('inf')
FULL = [(-INF, INF)]
EMPTY = []


def norm(ivs):
    ivs = sorted((lo, hi) for lo, hi in ivs if lo <= hi)
    out = []
    for lo, hi in ivs:
        if out and lo <= out[-1][1] + 1:
            out[-1] = (out[-1][0], max(out[-1][1], hi))
        else:
            out.append((lo, hi))
    return out


def union(a, b):
    return norm(list(a) + list(b))


def inter(a, b):
    out = []
    for lo1, hi1 in a:
        for lo2, hi2 in b:
            lo, hi = max(lo1, lo2), min(hi1, hi2)
            if lo <= hi:
                out.append((lo, hi))
    return norm(out)


def compl(a):
    out = []
    cur = -INF
    for lo, hi in norm(a):
        if lo > cur:
            out.append((cur, lo - 1))
        cur = hi + 1
    if cur <= INF:
        out.append((cur, INF))
    return norm(out)


def clip(a, lo, hi):
    return inter(a, [(lo, hi)])


def show(a):
    def s(x):
        return '-inf' if x == -INF else ('+inf' if x == INF else str(x))
    return ' u '.join('[%s, %s]' % (s(lo), s(hi)) if lo != hi else
                      '{%s}' % s(lo) for lo, hi in a) or 'empty'


class NotUnivariate(Exception):
    pass


def region(cond, var):
    """Set of integer values of `var` (a term) satisfying cond.  Conditions
    that do not mention var raise NotUnivariate (callers decide)."""
    k = cond[0]
    if k == 'c':
        return FULL if cond[1] else EMPTY
    if k == 'not':
        return compl(region(cond[1], var))
    if k == 'and':
        r = FULL
        for x in cond[1]:
            r = inter(r, region(x, var))
        return r
    if k == 'or':
        r = EMPTY
        for x in cond[1]:
            r = union(r, region(x, var))
        return r
    if k == 'cmp0':
        f = T.to_aff(cond[2])
        if f is None or set(f[0].keys()) != {var}:
            raise NotUnivariate(T.show(cond))
        c = f[0][var]
        kk = f[1]
        op = cond[1]
        # c*v + kk op 0
        if op in ('==', '!='):
            if (-kk) % c == 0:
                v = (-kk) // c
                r = [(v, v)]
            else:
                r = EMPTY
            return r if op == '==' else compl(r)
        # > or >=
        import math
        if op == '>':
            # c*v > -kk
            if c > 0:
                return [(math.floor(-kk / c) + 1, INF)]
            return [(-INF, math.ceil(-kk / c) - 1)]
        if op == '>=':
            if c > 0:
                return [(math.ceil(-kk / c), INF)]
            return [(-INF, math.floor(-kk / c))]
    if k == 'in':
        if cond[1] != var:
            raise NotUnivariate(T.show(cond))
        items = None
        c = cond[2]
        if c[0] == 'tuple':
            items = [x[1] for x in c[1] if x[0] == 'c']
            if len(items) != len(c[1]):
                raise NotUnivariate(T.show(cond))
        elif c[0] == 'c' and isinstance(c[1], (tuple, frozenset)):
            items = list(c[1])
        if items is None:
            raise NotUnivariate(T.show(cond))
        return norm([(int(x), int(x)) for x in items])
    if k == 'truth' and cond[1] == var:
        return compl([(0, 0)])
    raise NotUnivariate(T.show(cond))
